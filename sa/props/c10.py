"""C10 - Each outstanding request is resolved exactly once."""
from __future__ import annotations

import ast

from ..core import Ctx
from ..match import Fact, _atoms_with_polarity, arg, call_name, calls, fact_of, facts_at, local_defs, rchain, resolve, same_resolved, stores
from ..model import (NOCONST, AnalysisError, FuncInfo, ancestors, chain, clone, const_value, enclosing_stmt, norm, parent,
                     set_parents, strip_cast, walk_no_nested)

LEVEL = "other"
EXPLANATION = (
    "Pairing discipline inside RequestCache, each as a dominance / post-dominance fact on the function's CFG: pop removes "
    "the identifier and then cancels that cache's timeout task on every path, and lets the KeyError of a missing cache out; "
    "_on_timeout unregisters the identifier before the user callback runs and completes each managed future only when it is "
    "not done (tested, or InvalidStateError swallowed per future), and what it traverses is read from cache.managed_futures "
    "after the callback returned (a copy taken before it misses futures the callback ties); add stores only when not shut down and the identifier is "
    "free, under the lock, and always registers the timeout task for that same cache; NumberCache.__init__ / "
    "find_unclaimed_identifier refuse numbers in use; shutdown sets the flag, cancels tasks, cancels every tied future that "
    "is not done (no iteration of the traversal gets round the cancel; none is completed with a value instead) and clears "
    "the table under the lock; all five operations build the identifier through _create_identifier; _identifiers is private "
    "to RequestCache and its own new private helpers; retrieve_cache turns a missing cache into a no-op, runs the handler "
    "only with the cache it popped and never registers that cache again; add resolves futures of the offered cache only "
    "when it refuses the cache at shutdown. Constructs are recognised by what they compute: the rules read a private copy "
    "of each function on which only behaviour-preserving rewrites are made (with suppress(E) as try/except, a new private "
    "context manager - class with __enter__/__exit__ or @contextmanager generator - as the try / except T / else / finally "
    "its enter and exit parts amount to, undecided when it cannot be written out, map / filter / "
    "filterfalse / comprehension statements as the loops they run, operator and functools callables applied, generator "
    "helpers and new helpers of such pipelines inlined, result objects - NamedTuple, dataclass, tuple, dict displays - split "
    "into one local per field); definitions are the ones that reach a use on paths that can happen; decisions stored in "
    "locals (constants, Enum members, outcomes of comparisons, None markers) are followed along each path, so a fact is "
    "what holds on every path that can happen; dispatch tables denote their values; closures, callable objects and "
    "private helpers are followed with parameters bound at the call site. Same-iteration races of pop and expiry are asyncio "
    "scheduling semantics and are not decided."
)

RC = "ipv8/requestcache.py"
TABLE = "self._identifiers"


# ------------------------------------------------------------------------------------ recognisers (semantic, not textual)
def _is_table(fi: FuncInfo, e: ast.AST | None) -> bool:
    """e denotes the identifier table: `self._identifiers` itself or a local alias of it.  An alias is only the same
    dict while the attribute is not rebound in this function (the table is only ever mutated in place)."""
    if e is None:
        return False
    if chain(strip_cast(e)) == TABLE:
        return True
    if rchain(fi, e) != TABLE:
        return False
    return not stores(fi, TABLE)


def _tcalls(fi: FuncInfo, meth: str) -> list[ast.Call]:
    """calls `<table>.<meth>(...)` where <table> is self._identifiers or an alias of it"""
    return [c for c in calls(fi) if isinstance(c.func, ast.Attribute) and c.func.attr == meth and _is_table(fi, c.func.value)]


def _table_clears(fi: FuncInfo) -> list[ast.AST]:
    """where fi empties the table: `<table>.clear()`, or `self._identifiers = {}` / `dict()` - a fresh empty table in place of the old
    one (no reference to the table exists outside RequestCache's own methods, which read the attribute each time: rule table-writers)"""
    out: list[ast.AST] = list(_tcalls(fi, "clear"))
    for st, t in stores(fi, TABLE):
        v = strip_cast(st.value) if isinstance(st, (ast.Assign, ast.AnnAssign)) and st.value is not None else None
        if isinstance(st, ast.Assign) and len(st.targets) != 1:
            continue
        if (isinstance(v, ast.Dict) and not v.keys) or (isinstance(v, ast.Call) and chain(v.func) == "dict" and not v.args and not v.keywords):
            out.append(st)
    return out


def _tstores(fi: FuncInfo) -> list[ast.Assign]:
    """statements `<table>[key] = value`"""
    out = []
    for n in walk_no_nested(fi.node):
        if isinstance(n, ast.Assign) and len(n.targets) == 1 and isinstance(n.targets[0], ast.Subscript) and _is_table(fi, n.targets[0].value):
            out.append(n)
    return out


def _table_stores(fi: FuncInfo) -> list[tuple[ast.AST, ast.AST, ast.AST]]:
    """every spelling that puts an entry into the table: (site, key, value) for `T[k] = v`, `T.__setitem__(k, v)`,
    `T.setdefault(k, v)` and `T.update({k: v})`"""
    out = [(st, st.targets[0].slice, st.value) for st in _tstores(fi)]
    for c in _tcalls(fi, "__setitem__") + _tcalls(fi, "setdefault"):
        if len(c.args) == 2 and not c.keywords:
            out.append((c, c.args[0], c.args[1]))
    for c in _tcalls(fi, "update"):
        d = strip_cast(c.args[0]) if len(c.args) == 1 and not c.keywords else None
        if isinstance(d, ast.Dict) and len(d.keys) == 1 and d.keys[0] is not None:
            out.append((c, d.keys[0], d.values[0]))
        else:
            out.append((c, ast.Constant(None), ast.Constant(None)))      # an update whose entries are not spelled out: judged as unknown key
    return out


def _tdeletes(fi: FuncInfo) -> list[tuple[ast.Delete, ast.Subscript]]:
    """statements `del <table>[key]`"""
    return [(n, t) for n in walk_no_nested(fi.node) if isinstance(n, ast.Delete) for t in n.targets
            if isinstance(t, ast.Subscript) and _is_table(fi, t.value)]


def _own_cfg(fi: FuncInfo):
    """a control-flow graph of fi for the def-use questions asked here (kept with the function node)"""
    from ..cfg import CFG
    g = fi.node.__dict__.get("_c10_cfg")
    if g is None:
        g = fi.node.__dict__["_c10_cfg"] = CFG(fi.node)
    return g


def _reaching_defs(fi: FuncInfo, use: ast.Name) -> tuple[bool, list[tuple[ast.stmt, ast.expr | None, int | None]]] | None:
    """Which definitions of the local read at `use` can supply its value there: (the value at function entry can, [definitions]).
    Paths are followed on the CFG; a definition is overwritten by the next one on the path; locals that only ever hold constants
    (decision tags) are tracked along the path, so a path that sets a tag and later takes the test outcome its value excludes is not
    followed.  None when the question cannot be put (the read is not evaluated by a statement of fi itself)."""
    from ..model import enclosing_function
    if not isinstance(use, ast.Name) or not isinstance(getattr(use, "ctx", None), ast.Load):
        return None
    if not any(a is fi.node for a in ancestors(use)) or enclosing_function(use) is not fi.node:
        return None
    memo = fi.node.__dict__.setdefault("_c10_reaching", {}).setdefault(id(_REPO[0]), {})
    if id(use) in memo and memo[id(use)][0] is use:
        return memo[id(use)][1]
    cfg = _own_cfg(fi)
    sites = set(cfg.nodes_for(use))
    defs = local_defs(fi, use.id)
    res = None
    at: dict = {}                 # CFG node -> index of the definition made there
    ok = bool(sites)
    for i, (st, _, _) in enumerate(defs):
        if any(isinstance(x, ast.NamedExpr) and x.target.id == use.id for x in ast.walk(st) if not isinstance(st, (ast.For, ast.AsyncFor, ast.With, ast.AsyncWith, ast.ExceptHandler))):
            ok = False            # bound in the middle of an expression: not placed
            break
        ns = [n for n in cfg.nodes_for(st) if n.ast is st]
        if not ns:
            ok = False
            break
        for n in ns:
            if n in at:
                ok = False
            at[n] = i
    if ok:
        _, found = _sym(fi, cfg).run(track=use.id, track_at=at, sites=sites)
        res = (-1 in found, [defs[i] for i in sorted(found - {-1})])
    memo[id(use)] = (use, res)
    return res


def _value_leaves(fi: FuncInfo, e: ast.AST, depth: int = 5) -> list[ast.AST]:
    """The expressions a value can come from: both arms of a conditional expression and ALL definitions of a local name that
    reach the place where it is read (every definition, when the name is not read at a place of fi's own code; a parameter
    contributes itself where its value at entry reaches).  Unknown definitions leave the name itself."""
    e = strip_cast(e)
    if depth <= 0:
        return [e]
    if isinstance(e, ast.IfExp):
        return _value_leaves(fi, e.body, depth) + _value_leaves(fi, e.orelse, depth)
    if isinstance(e, ast.Name):
        defs = local_defs(fi, e.id)
        rd = _reaching_defs(fi, e) if len(defs) + (e.id in fi.params()) > 1 else None
        out: list[ast.AST] = [e] if (e.id in fi.params() or not defs) else []
        if rd is not None and defs:
            out = [e] if (rd[0] and e.id in fi.params()) else []
            defs = rd[1]
            if not out and not defs:
                return [e]
        for _, v, idx in defs:
            if v is None or idx is not None:
                out.append(e)
            else:
                out += _value_leaves(fi, v, depth - 1)
        return out
    if isinstance(e, ast.Attribute) and isinstance(strip_cast(e.value), ast.Name) and strip_cast(e.value).id not in fi.params() \
            and local_defs(fi, strip_cast(e.value).id):
        # `<alias>.attr` where the alias has several (equal) definitions: the attribute of each value
        bases = _value_leaves(fi, e.value, depth - 1)
        if all(chain(b) is not None and not isinstance(b, ast.Call) for b in bases):
            return [ast.Attribute(value=b, attr=e.attr, ctx=ast.Load()) for b in bases]
    return [e]


def _denotes(fi: FuncInfo, e: ast.AST | None, primary: str, also: tuple[str, ...] = ()) -> bool:
    """every value e can take is the expression `primary` (or one of `also`), and `primary` is among them"""
    if e is None:
        return False
    texts = {norm(x) for x in _value_leaves(fi, e)}
    return primary in texts and texts <= {primary, *also}


def _same_val(fi: FuncInfo, a: ast.AST | None, b: ast.AST | None) -> bool:
    """a and b denote the same value: the same expression after following aliases, or - for locals with several definitions -
    the one expression that every definition reaching each of them supplies"""
    if a is None or b is None:
        return False
    if same_resolved(fi, a, b):
        return True
    la, lb = ({norm(x) for x in _value_leaves(fi, e)} for e in (a, b))
    return len(la) == 1 and la == lb


def _bind_call(call: ast.Call, tgt: FuncInfo) -> dict[str, ast.expr] | None:
    """parameter name -> argument expression of a call to tgt (bound receiver skipped); None when it cannot be told"""
    a = tgt.node.args
    pos = [x.arg for x in a.posonlyargs + a.args]
    if tgt.cls is not None and "staticmethod" not in tgt.decorator_names() and isinstance(call.func, ast.Attribute):
        pos = pos[1:]
    if any(isinstance(x, ast.Starred) for x in call.args) or any(k.arg is None for k in call.keywords) or len(call.args) > len(pos):
        return None
    out = dict(zip(pos, call.args))
    for k in call.keywords:
        if k.arg in out:
            return None
        out[k.arg] = k.value
    return out


def _ident_fn(fi: FuncInfo) -> FuncInfo | None:
    """the function that builds the identifier string, as a method of fi's class or a function of fi's module"""
    ci = fi.cls.lookup("_create_identifier") if fi.cls is not None else None
    return ci or fi.module.functions.get("_create_identifier")


def _ident_roles(ci: FuncInfo) -> tuple[str | None, str | None]:
    """(number parameter, prefix parameter) of _create_identifier: by name; for other names by the order in which they
    enter the reviewed '<prefix>:<number>' string; else by the reviewed positions (number, prefix)."""
    ps = ci.params()
    if ci.cls is not None and "staticmethod" not in ci.decorator_names():
        ps = ps[1:]
    if "number" in ps and "prefix" in ps:
        return "number", "prefix"
    rets = [r for r in walk_no_nested(ci.node) if isinstance(r, ast.Return) and r.value is not None]
    parts = _string_parts(_fold_named_constants(ci, resolve(ci, rets[0].value))) if len(rets) == 1 else None
    vals = [v for k, v in parts or [] if k == "val"]
    if len(vals) == 2 and len(ps) == 2 and set(vals) == set(ps):
        return vals[1], vals[0]
    return (ps[0], ps[1]) if len(ps) >= 2 else (None, None)


def _ident_call_ok(fi: FuncInfo, e: ast.AST, num: str, pre: str) -> bool:
    """e is (on every definition that reaches it) `_create_identifier(..)` with the number parameter bound to `num` and the
    prefix parameter bound to `pre`, whatever the argument order / keyword spelling of the private signature.  Where `pre`
    is the caller's own prefix parameter, the class form `pre.name` is the same identity (has/get/pop convert it that way)."""
    ci = _ident_fn(fi)
    if ci is None or e is None:
        return False
    pnum, ppre = _ident_roles(ci)
    leaves = _value_leaves(fi, e)
    for x in leaves:
        if not (isinstance(x, ast.Call) and call_name(x) == "_create_identifier"):
            return False
        b = _bind_call(x, ci)
        if b is None or pnum is None:
            return False
        if not (_denotes(fi, b.get(pnum), num) and _denotes(fi, b.get(ppre), pre, (pre + ".name",) if "." not in pre else ())):
            return False
    return bool(leaves)


def _absent_fact(fi: FuncInfo, f: Fact, is_key) -> bool:
    """The fact says `key is not registered in the table`:  key not in T (also T.keys(), operator.contains(T, key), T.__contains__(key))  /
    T.get(key) is None  /  T.get(key, SENTINEL) is SENTINEL."""
    if f.op == "in" and not f.pos:
        r = strip_cast(f.right)
        if isinstance(r, ast.Call) and isinstance(r.func, ast.Attribute) and r.func.attr == "keys" and not r.args and not r.keywords:
            r = r.func.value
        return _is_table(fi, r) and is_key(f.left)
    if f.op == "truthy" and not f.pos:
        g = strip_cast(resolve(fi, f.left))
        if isinstance(g, ast.Call) and not g.keywords and not any(isinstance(a, ast.Starred) for a in g.args):
            if chain(g.func) in ("contains", "operator.contains") and len(g.args) == 2:
                return _is_table(fi, g.args[0]) and is_key(g.args[1])
            if isinstance(g.func, ast.Attribute) and g.func.attr == "__contains__" and len(g.args) == 1:
                return _is_table(fi, g.func.value) and is_key(g.args[0])
        return False
    if f.op == "is" and f.pos:
        g = resolve(fi, f.left)
        if isinstance(g, ast.Call) and isinstance(g.func, ast.Attribute) and g.func.attr == "get" and _is_table(fi, g.func.value) and g.args and not g.keywords:
            if const_value(f.right) is None and isinstance(f.right, ast.Constant):
                default_none = len(g.args) == 1 or (len(g.args) == 2 and isinstance(g.args[1], ast.Constant) and g.args[1].value is None)
                return default_none and is_key(g.args[0])
            # a private sentinel as the default: the lookup gives it back exactly when the key is missing (no cache is the sentinel)
            if len(g.args) == 2 and isinstance(strip_cast(f.right), ast.Name) and isinstance(strip_cast(g.args[1]), ast.Name) \
                    and strip_cast(f.right).id == strip_cast(g.args[1]).id and strip_cast(f.right).id not in fi.params() and not local_defs(fi, strip_cast(f.right).id):
                return is_key(g.args[0])
    return False


def _probe_handlers(fi: FuncInfo, is_key) -> list[ast.ExceptHandler]:
    """Handlers that are entered exactly when a key is not registered: `try: <table>[key]` (alone in the try body, as a statement or
    bound to a name) with `except KeyError / LookupError`.  The read is the only thing in the body that can raise, so arriving
    in the handler says the same as `key not in <table>`."""
    out = []
    for t in walk_no_nested(fi.node):
        if not (isinstance(t, ast.Try) and len(t.body) == 1 and not t.finalbody):
            continue
        st = t.body[0]
        v = st.value if isinstance(st, (ast.Expr, ast.Assign, ast.AnnAssign)) else None
        if isinstance(st, ast.Assign) and not (len(st.targets) == 1 and isinstance(st.targets[0], ast.Name)):
            v = None
        v = strip_cast(v) if v is not None else None
        if not (isinstance(v, ast.Subscript) and isinstance(v.ctx, ast.Load) and _is_table(fi, v.value) and isinstance(strip_cast(v.slice), ast.Name) and is_key(v.slice)):
            continue
        for h in t.handlers:
            types = [] if h.type is None else [chain(x) for x in (h.type.elts if isinstance(h.type, ast.Tuple) else [h.type])]
            if types and all(x in ("KeyError", "LookupError") for x in types):
                out.append(h)
            else:
                break          # a broader clause first: later clauses are not reached by the KeyError
    return out


def _absent_on_every_path(ctx: Ctx, fi: FuncInfo, site: ast.AST, is_key) -> bool:
    """every path to `site` enters a handler that says the key is not registered (see _probe_handlers)"""
    hs = _probe_handlers(fi, is_key)
    if not hs:
        return False
    cfg = ctx.cfg(fi)
    nodes = cfg.nodes_for(site)
    return bool(nodes) and all(cfg.must_pass_edges(n, lambda u, v, lab: v.kind == "handler" and any(v.ast is h for h in hs)) for n in nodes)


def _present_fact(fi: FuncInfo, f: Fact, is_key=lambda e: True) -> bool:
    """The fact says `key is registered`:  key in T  /  T.get(key) is not None."""
    return _absent_fact(fi, Fact(f.op, f.left, f.right, not f.pos, f.atom), is_key)


def _is_none(e: ast.AST | None) -> bool:
    return e is None or (isinstance(e, ast.Constant) and e.value is None)


# --- decisions carried by a local: `refusal = "shutdown" | "duplicate" | None` assigned under the real tests and examined
#     later (`if refusal == "shutdown":`).  A test of such a tag selects the assignments that can have produced the value;
#     whatever held at every one of them held on this path too.
_REPO: list = [None]          # the repository of the running check (set by every rule entry point): resolves Enum / record classes


def _use(ctx: Ctx) -> None:
    _REPO[0] = ctx.repo


_ENUM_BASES = ("Enum", "IntEnum", "StrEnum", "Flag", "IntFlag")


class _Member(tuple):
    """a member of an enumeration defined in the repository: ('enum', class name, canonical member name, plain)"""
    __slots__ = ()


def _class_of(module, e: ast.AST):
    """the repository class an expression names (`K` / `mod.K`), else None"""
    repo = _REPO[0]
    if repo is None or module is None:
        return None
    try:
        return repo.resolve_class_expr(module, e)
    except Exception:  # noqa: BLE001
        return None


def _enum_member(module, e: ast.AST):
    """`K.MEMBER` of an Enum class of the repository -> a value that identifies the member (aliases of one value share it)"""
    if not (isinstance(e, ast.Attribute) and isinstance(e.value, (ast.Name, ast.Attribute))):
        return NOCONST
    k = _class_of(module, e.value)
    if k is None or not any(b.split(".")[-1] in _ENUM_BASES for b in k.all_base_names()):
        return NOCONST
    if e.attr.startswith("_") or e.attr not in k.attrs or e.attr in k.methods:
        return NOCONST
    members = [n for n in k.attrs if not n.startswith("_") and n not in k.methods]
    vals = {n: const_value(k.attrs[n]) for n in members}
    canon = e.attr
    if vals[e.attr] is not NOCONST:
        canon = next(n for n in members if vals[n] is not NOCONST and vals[n] == vals[e.attr] and type(vals[n]) is type(vals[e.attr]))
    elif not (isinstance(k.attrs[e.attr], ast.Call) and (chain(k.attrs[e.attr].func) or "").split(".")[-1] == "auto" and not k.attrs[e.attr].args):
        return NOCONST          # a computed member value: may coincide with another member
    plain = all(b.split(".")[-1] in ("Enum", "ABC", "object") for b in k.all_base_names()) and not ({"__bool__", "__eq__", "__len__"} & set(k.methods))
    return _Member(("enum", k.name, canon, plain))


def _kconst(fi: FuncInfo | None, e: ast.AST):
    """the value of a self-identifying expression: a literal constant or a member of a repository Enum; NOCONST otherwise"""
    v = const_value(e)
    if v is not NOCONST or fi is None:
        return v
    return _enum_member(fi.module, strip_cast(e))


def _const_leaves(e: ast.AST, fi: FuncInfo | None = None) -> list[ast.AST] | None:
    """the constant alternatives of `c1 if t else c2 ...`; None when some alternative is not a constant"""
    e = strip_cast(e)
    if isinstance(e, ast.IfExp):
        a, b = _const_leaves(e.body, fi), _const_leaves(e.orelse, fi)
        return None if a is None or b is None else a + b
    return [e] if _kconst(fi, e) is not NOCONST else None


def _tag_vars(fi: FuncInfo) -> dict[str, list[tuple[ast.stmt, ast.AST, object]]]:
    """locals that only ever hold constants: name -> [(assigning statement, constant expression (the site), value)]"""
    hit = fi.node.__dict__.get("_c10_tags")
    if hit is not None and hit[0] is _REPO[0]:
        return hit[1]
    out: dict = {}
    names = {n.id for n in walk_no_nested(fi.node) if isinstance(n, ast.Name) and isinstance(n.ctx, ast.Store)}
    for v in sorted(names - set(fi.params())):
        alts = []
        for st, val, idx in local_defs(fi, v):
            leaves = _const_leaves(val, fi) if val is not None and idx is None else None
            if leaves is None:
                alts = None
                break
            alts += [(st, x, _kconst(fi, x)) for x in leaves]
        if alts:
            out[v] = alts
    fi.node.__dict__["_c10_tags"] = (_REPO[0], out)
    return out


def _tag_of(f: Fact, tags) -> tuple[str, Fact] | None:
    """f as a fact about a tag variable (constant on the left normalised to the right)"""
    if isinstance(f.left, ast.Name) and f.left.id in tags:
        return f.left.id, f
    if f.op == "eq" and isinstance(f.right, ast.Name) and f.right.id in tags:
        return f.right.id, Fact(f.op, f.right, f.left, f.pos, f.atom)
    return None


def _k_equal(k, c) -> bool | None:
    """k == c for two self-identifying values; None when it cannot be told (a member of a mixed-in Enum against a literal)"""
    km, cm = isinstance(k, _Member), isinstance(c, _Member)
    if km and cm:
        return tuple(k) == tuple(c) if k[1] == c[1] or (k[3] and c[3]) else None
    if km or cm:
        m, o = (k, c) if km else (c, k)
        return False if (o is None or m[3]) else None
    return k == c and isinstance(k, bool) == isinstance(c, bool)


def _consistent(k, f: Fact, fi: FuncInfo | None = None) -> bool:
    """can a variable holding constant k satisfy fact f (about that variable)?  Unknown forms: yes."""
    if f.op == "truthy":
        if isinstance(k, _Member):
            return f.pos if k[3] else True          # members of a plain Enum are truthy
        return bool(k) is f.pos
    c = _kconst(fi, f.right) if f.right is not None else NOCONST
    if f.op == "eq" and c is not NOCONST:
        r = _k_equal(k, c)
        return True if r is None else r is f.pos
    if f.op == "is" and c is not NOCONST and (c is None or isinstance(c, (bool, _Member)) or isinstance(k, _Member)):
        if isinstance(c, _Member) or isinstance(k, _Member):
            r = _k_equal(k, c) if (isinstance(c, _Member) and isinstance(k, _Member)) else False
            return True if r is None else r is f.pos
        return (k is c) is f.pos
    if f.op == "in" and isinstance(f.right, (ast.Tuple, ast.List, ast.Set)):
        vals = [_kconst(fi, x) for x in f.right.elts]
        if all(x is not NOCONST for x in vals):
            rs = [_k_equal(k, x) for x in vals]
            if any(r is True for r in rs):
                return f.pos
            return True if any(r is None for r in rs) else not f.pos
    return True


def _facts(fi: FuncInfo, cfg, site, depth: int = 2) -> list[Fact]:
    """facts_at + what follows from them: tests of a tag variable bring in the facts common to all assignments of a value
    consistent with the tests; a test of a single-assignment boolean local brings in the atoms of its defining expression."""
    base = facts_at(cfg, site)
    if depth <= 0:
        return base
    out = list(base)

    def add(fs) -> None:
        for x in fs:
            if not any(x.atom is y.atom and x.pos == y.pos for y in out):
                out.append(x)
    tags = _tag_vars(fi)
    about: dict[str, list[Fact]] = {}
    for f in base:
        t = _tag_of(f, tags)
        if t is not None:
            about.setdefault(t[0], []).append(t[1])
        elif f.op == "truthy" and isinstance(f.left, ast.Name) and f.left.id not in fi.params():
            d = local_defs(fi, f.left.id)
            if len(d) == 1 and d[0][1] is not None and d[0][2] is None and isinstance(strip_cast(d[0][1]), (ast.BoolOp, ast.UnaryOp, ast.Compare)):
                add(_atoms_with_polarity(strip_cast(d[0][1]), f.pos))
    for v, fs in about.items():
        feasible = [(st, x) for st, x, k in tags[v] if all(_consistent(k, f, fi) for f in fs)]
        if not feasible:
            continue
        per = [_facts(fi, cfg, x if isinstance(parent(x), ast.IfExp) else st, depth - 1) for st, x in feasible]
        add([x for x in per[0] if all(any(x.atom is y.atom and x.pos == y.pos for y in o) for o in per[1:])])
    if depth >= 2:
        from ..cfg import Node
        nodes = [site] if isinstance(site, Node) else cfg.nodes_for(site)
        if nodes:
            add(_sym(fi, cfg).facts(nodes))
    return out


# --- decisions carried by locals, generally.  A path through a function fixes what its decision locals hold: a local set to a
#     constant / Enum member keeps that value until it is rebound, a local bound to a comparison holds its outcome, one bound to
#     `A if t else B` holds A exactly when t held.  _Sym walks the CFG with these values ("which paths can happen at all"): a test of
#     such a local is followed only along the outcome its value allows.  What holds on every path that can happen to a place are
#     that place's facts - including the outcomes of tests that were made earlier and stored (flags, verdicts, `x = None` markers,
#     fields of result objects after _scalarise_records).
_TRUTHY, _FALSY = ("truthy",), ("falsy",)          # outcome of `a and b` / `a or b`: only its truth is known


class _Sym:
    def __init__(self, fi: FuncInfo, cfg) -> None:
        self.fi, self.cfg, self.repo = fi, cfg, _REPO[0]
        tested: set[str] = set()
        for n in cfg.nodes:
            if n.kind == "cond" and n.ast is not None:
                f = fact_of(n.ast, True)
                for e in (f.left, f.right):
                    if isinstance(e, ast.Name):
                        tested.add(e.id)
        params = set(fi.params())
        self.effects: dict = {}          # node -> [(var, [(value | None for unknown, [(test expr, outcome)])], only on the True edge)]
        self.vars: set[str] = set()
        for v in sorted(tested - params):
            defs = local_defs(fi, v)
            placed, informative = [], False
            for st, val, idx in defs:
                if any(isinstance(x, ast.NamedExpr) and x.target.id == v for x in ast.walk(st)
                       if not isinstance(st, (ast.For, ast.AsyncFor, ast.With, ast.AsyncWith, ast.ExceptHandler))):
                    placed = None
                    break
                ns = [n for n in cfg.nodes_for(st) if n.ast is st]
                if not ns:
                    placed = None
                    break
                alts = self._alts(val, []) if val is not None and idx is None else [(None, [])]
                informative = informative or any(k is not None for k, _ in alts)
                placed.append((ns, alts, isinstance(st, (ast.For, ast.AsyncFor))))
            if not placed or not informative:
                continue
            self.vars.add(v)
            for ns, alts, loop in placed:
                for n in ns:
                    self.effects.setdefault(n, []).append((v, alts, loop))
        self._facts: dict = {}

    def _alts(self, e: ast.AST, conds: list) -> list:
        e = strip_cast(e)
        if isinstance(e, ast.IfExp):
            return self._alts(e.body, conds + [(e.test, True)]) + self._alts(e.orelse, conds + [(e.test, False)])
        k = _kconst(self.fi, e)
        if k is not NOCONST:
            return [(("k", k), conds)]
        if isinstance(e, ast.Compare) or (isinstance(e, ast.UnaryOp) and isinstance(e.op, ast.Not)):
            return [(("k", True), conds + [(e, True)]), (("k", False), conds + [(e, False)])]
        if isinstance(e, ast.BoolOp):
            return [(("k", _TRUTHY), conds + [(e, True)]), (("k", _FALSY), conds + [(e, False)])]
        return [(None, conds)]

    def _holds(self, env: dict, f: Fact) -> bool:
        """can the outcome f of a test happen with the values in env?"""
        t = _tag_of(f, self.vars)
        if t is None or t[0] not in env:
            return True
        k = env[t[0]]
        if k is _TRUTHY or k is _FALSY:
            return (k is _TRUTHY) is f.pos if t[1].op == "truthy" else True
        return _consistent(k, t[1], self.fi)

    def run(self, *, starts=None, cut_edge=None, cut_label=None, cut_nodes=(), follow_exc: bool = True, contradicts=None,
            track: str | None = None, track_at: dict | None = None, sites=()) -> tuple[set, set]:
        """-> (nodes that can be reached, definitions of `track` (indexes from track_at, -1 for the value at entry) seen at `sites`)"""
        cfg = self.cfg
        cut_nodes, sites = set(cut_nodes), set(sites)
        reached: set = set()
        found: set = set()
        seen: set = set()
        todo = [(n, (), -1) for n in ([cfg.entry] if starts is None else starts)]
        while todo:
            u, env, last = todo.pop()
            if (u, env, last) in seen or u in cut_nodes:
                continue
            seen.add((u, env, last))
            reached.add(u)
            if u in sites:
                found.add(last)
            for w, lab in u.succ:
                if lab == "exc":
                    if follow_exc:
                        todo.append((w, env, last))          # the statement did not complete: nothing was bound
                    continue
                if cut_edge is not None and cut_edge(u, w, lab):
                    continue
                d = dict(env)
                if u.kind == "cond" and lab in (True, False) and u.ast is not None:
                    f = fact_of(u.ast, lab)
                    if (contradicts is not None and contradicts(f)) or not self._holds(d, f):
                        continue
                envs = [d]
                for v, alts, loop in self.effects.get(u, ()):
                    if loop and lab is not True:
                        continue
                    nxt = []
                    for e in envs:
                        for k, labels in alts:
                            if cut_label is not None and any(x is cut_label[0] and pol is cut_label[1] for x, pol in labels):
                                continue
                            if any(not self._holds(e, a) or (contradicts is not None and contradicts(a))
                                   for x, pol in labels for a in _atoms_with_polarity(x, pol)):
                                continue
                            e2 = dict(e)
                            if k is None:
                                e2.pop(v, None)
                            else:
                                e2[v] = k[1]
                            nxt.append(e2)
                    envs = nxt
                nl = last
                if track_at is not None and u in track_at and not (u.kind == "loop" and lab is not True):
                    nl = track_at[u]
                for e in envs:
                    todo.append((w, tuple(sorted(e.items(), key=lambda kv: kv[0])), nl))
        return reached, found

    def facts(self, site_nodes: list) -> list[Fact]:
        """outcomes of tests (made in conditions, or earlier and stored in a decision local) that every path to the site has taken"""
        key = tuple(sorted(n.id for n in site_nodes))
        if key in self._facts:
            return self._facts[key]
        out: list[Fact] = []
        base, _ = self.run()
        if any(n in base for n in site_nodes):
            for c in self.cfg.nodes:
                if c.kind != "cond" or c not in base or c.ast is None:
                    continue
                for pol in (True, False):
                    if not any(lab is pol for _, lab in c.succ) or any(c is n for n in site_nodes):
                        continue
                    r, _ = self.run(cut_edge=lambda u, w, lab, c=c, pol=pol: u is c and lab is pol)
                    if not any(n in r for n in site_nodes):
                        out.append(fact_of(c.ast, pol))
            labels = {(id(x), pol): (x, pol) for u in base for _, alts, _ in self.effects.get(u, ()) for _, ls in alts for x, pol in ls}
            for x, pol in labels.values():
                r, _ = self.run(cut_label=(x, pol))
                if not any(n in r for n in site_nodes):
                    out += _atoms_with_polarity(x, pol)
        self._facts[key] = out
        return out


def _sym(fi: FuncInfo, cfg) -> _Sym:
    store = fi.node.__dict__.setdefault("_c10_sym", {})
    hit = store.get(id(cfg))
    if hit is None or hit.cfg is not cfg or hit.repo is not _REPO[0]:
        hit = store[id(cfg)] = _Sym(fi, cfg)
    return hit


def _reach_assuming(cfg, fi: FuncInfo, contradicts, *, cut_nodes=(), follow_exc: bool = True) -> set:
    """Nodes reachable from the entry on paths that can happen when no fact f with contradicts(f) ever holds: condition edges with
    such a fact are not taken, and decision locals are tracked along the path (a value chosen by a test with a contradicting
    outcome is not assigned; a later test of the local follows only the outcome its value allows)."""
    return _sym(fi, cfg).run(contradicts=contradicts, cut_nodes=cut_nodes, follow_exc=follow_exc)[0]


# --- where do the elements of an iteration come from?  kinds: cache (a value of the table / the cache parameter),
#     pair (an entry of <cache>.managed_futures), future (first component of a pair), pairs (a whole managed_futures list)
def _bind(target: ast.AST, kind: str, env: dict) -> bool:
    if isinstance(target, ast.Name):
        env[target.id] = kind
        return True
    if isinstance(target, (ast.Tuple, ast.List)) and kind == "pair" and len(target.elts) == 2 and all(isinstance(t, ast.Name) for t in target.elts):
        env[target.elts[1].id] = "other"
        env[target.elts[0].id] = "future"
        return True
    if isinstance(target, (ast.Tuple, ast.List)) and kind == "item" and len(target.elts) == 2 and all(isinstance(t, ast.Name) for t in target.elts):
        env[target.elts[0].id] = "other"
        env[target.elts[1].id] = "cache"
        return True
    return False


def _unbind(target: ast.AST, env: dict) -> None:
    for n in ast.walk(target):
        if isinstance(n, ast.Name):
            env.pop(n.id, None)


def _managed_names() -> tuple[str, ...]:
    """attribute names that give a cache's list of (future, on_timeout value) pairs: the `managed_futures` property and the attribute it
    returns unchanged"""
    repo = _REPO[0]
    names = ["managed_futures"]
    k = repo.try_cls("NumberCache", RC) if repo is not None else None
    m = k.lookup("managed_futures") if k is not None else None
    if m is not None:
        rets = [r for r in walk_no_nested(m.node) if isinstance(r, ast.Return)]
        if len(rets) == 1 and isinstance(rets[0].value, ast.Attribute) and chain(rets[0].value.value) == m.params()[0]:
            names.append(rets[0].value.attr)
    return tuple(names)


def _elem_kind(fi: FuncInfo, e: ast.AST, env: dict, depth: int = 3) -> str | None:
    e = strip_cast(e)
    if isinstance(e, ast.Name):
        if e.id in env:
            return env[e.id]
        r = resolve(fi, e)
        if r is not e:
            return _elem_kind(fi, r, env, depth - 1) if depth > 0 else None
        # `future, value = <pair>`: the first component of a pair
        d = local_defs(fi, e.id)
        if depth > 0 and len(d) == 1 and d[0][1] is not None and d[0][2] == 0 and e.id not in fi.params() \
                and _elem_kind(fi, d[0][1], env, depth - 1) == "pair":
            return "future"
        # several definitions that all denote the same kind of thing
        if depth > 0 and len(d) > 1 and e.id not in fi.params() and all(v is not None and idx is None for _, v, idx in d):
            kinds = {_elem_kind(fi, v, env, depth - 1) for _, v, _ in d}
            return kinds.pop() if len(kinds) == 1 else None
        return None
    if isinstance(e, ast.Subscript) and isinstance(e.slice, ast.Constant) and e.slice.value == 0 and _elem_kind(fi, e.value, env, depth) == "pair":
        return "future"
    if isinstance(e, ast.Attribute) and e.attr in _managed_names() and _elem_kind(fi, e.value, env, depth) == "cache":
        return "pairs"
    return None


def _seq_kind(fi: FuncInfo, e: ast.AST, env: dict, depth: int = 8) -> str | None:
    """Kind of the elements produced by iterating e completely (None: unknown, filtered or partial)."""
    e = strip_cast(e)
    if depth <= 0:
        return None
    if isinstance(e, ast.Name) and e.id not in env:
        r = resolve(fi, e)
        return _seq_kind(fi, r, env, depth - 1) if r is not e else None
    if _elem_kind(fi, e, env) == "pairs":
        return "pair"
    if isinstance(e, (ast.List, ast.Tuple, ast.Set)) and e.elts and not any(isinstance(x, ast.Starred) for x in e.elts):
        # a literal collection of caches / of managed_futures lists (`[cache]`, `(cache.managed_futures,)`)
        kinds = {_elem_kind(fi, x, env) for x in e.elts}
        k = kinds.pop() if len(kinds) == 1 else None
        return k if k in ("cache", "pairs", "pair") else None
    if isinstance(e, ast.Call):
        c = chain(e.func)
        if c in ("list", "tuple", "iter") and len(e.args) == 1 and not e.keywords and not isinstance(e.args[0], ast.Starred):
            return _seq_kind(fi, e.args[0], env, depth - 1)
        if isinstance(e.func, ast.Attribute) and e.func.attr == "values" and not e.args and not e.keywords and _is_table(fi, e.func.value):
            return "cache"
        if isinstance(e.func, ast.Attribute) and e.func.attr == "items" and not e.args and not e.keywords and _is_table(fi, e.func.value):
            return "item"
        if c == "map" and len(e.args) == 2 and not e.keywords and not any(isinstance(a, ast.Starred) for a in e.args):
            # map(F, S): what F makes of an element of S - itemgetter(0) / lambda p: p[0] of a pair is its future,
            # attrgetter("managed_futures") of a cache is its list of pairs
            k = _seq_kind(fi, e.args[1], env, depth - 1)
            if k is None:
                return None
            x = "element_"
            while x in env or x in _names(fi.node):
                x += "_"
            k2 = _elem_kind(fi, _apply_callable(fi, e.args[0], ast.Name(x, ast.Load())), {**env, x: k})
            return k2 if k2 in ("cache", "pair", "pairs", "future") else None
        if c is not None and (c == "chain.from_iterable" or c.endswith(".chain.from_iterable")) and len(e.args) == 1 and not e.keywords:
            return "pair" if _seq_kind(fi, e.args[0], env, depth - 1) == "pairs" else None
        if c is not None and (c == "chain" or c.endswith("itertools.chain")) and len(e.args) == 1 and isinstance(e.args[0], ast.Starred) and not e.keywords:
            return "pair" if _seq_kind(fi, e.args[0].value, env, depth - 1) == "pairs" else None
        return None
    if isinstance(e, (ast.ListComp, ast.GeneratorExp)):
        env2 = dict(env)
        for g in e.generators:
            if g.ifs or g.is_async:
                return None
            k = _seq_kind(fi, g.iter, env2, depth - 1)
            if k is None or not _bind(g.target, k, env2):
                return None
        return _elem_kind(fi, e.elt, env2)
    return None


def _drain_items(fi: FuncInfo, w: ast.AST) -> list[ast.Assign]:
    """`while <table>: .. = <table>.popitem()`: the loop takes entries out one by one until the table is empty, so it visits
    every entry and leaves the table cleared.  -> the popitem assignments at the loop's own level ([] if w is no such loop)"""
    if not isinstance(w, ast.While) or w.orelse:
        return []
    t = strip_cast(w.test)
    if isinstance(t, ast.Call) and chain(t.func) == "len" and len(t.args) == 1:
        t = t.args[0]
    elif isinstance(t, ast.Compare) and len(t.ops) == 1 and isinstance(t.ops[0], (ast.Gt, ast.NotEq)) and const_value(t.comparators[0]) == 0 \
            and isinstance(t.left, ast.Call) and chain(t.left.func) == "len" and len(t.left.args) == 1:
        t = t.left.args[0]
    if not _is_table(fi, t):
        return []
    out = []
    for st in w.body:
        v = strip_cast(st.value) if isinstance(st, ast.Assign) and len(st.targets) == 1 else None
        if isinstance(v, ast.Call) and isinstance(v.func, ast.Attribute) and v.func.attr == "popitem" and not v.args and _is_table(fi, v.func.value):
            out.append(st)
    return out


def _site_kind(fi: FuncInfo, e: ast.AST, base_env: dict) -> tuple[str | None, list[ast.AST]]:
    """Kind of expression e at its place, from the enclosing binders (outermost first) + those binders: for-statements,
    table-draining while loops and eagerly evaluated comprehensions (`[f.cancel() for .. in ..]`)."""
    loops = [a for a in ancestors(e) if isinstance(a, (ast.For, ast.AsyncFor, ast.ListComp, ast.SetComp)) or _drain_items(fi, a)]
    loops = [l for l in loops if any(x is fi.node for x in ancestors(l))]
    env = dict(base_env)
    for l in reversed(loops):
        if isinstance(l, ast.While):
            for st in _drain_items(fi, l):
                _unbind(st.targets[0], env)
                _bind(st.targets[0], "item", env)
            continue
        if isinstance(l, (ast.ListComp, ast.SetComp)):
            for g in l.generators:
                _unbind(g.target, env)
                k = None if (g.ifs or g.is_async) else _seq_kind(fi, g.iter, env)
                if k is not None:
                    _bind(g.target, k, env)
            continue
        _unbind(l.target, env)
        k = _seq_kind(fi, l.iter, env)
        if k is not None:
            _bind(l.target, k, env)
    return _elem_kind(fi, e, env), loops


def _complete(loops: list[ast.For]) -> bool:
    """no iteration is cut short: no break / return inside, nothing in the loop's else-part"""
    return bool(loops) and not any(isinstance(x, (ast.Break, ast.Return)) for l in loops for x in ast.walk(l))


def _bool_outcome(f: Fact) -> tuple[ast.AST, bool] | None:
    """What fact f says about the truth of a BOOLEAN-valued expression: (expression, its truth).  `X` / `not X` as tested, and the
    spellings a `match` over the value (or a tuple holding it) desugars to: `X is True` / `X is False` / `X == True` / `X == False` and their
    negations, the constant on either side.  Only to be used for expressions whose value is a bool (Future.done() / .cancelled()):
    for those `X is not True` says exactly `not X`."""
    if f.op == "truthy":
        return f.left, f.pos
    if f.op in ("is", "eq") and f.right is not None:
        for e, k in ((f.left, f.right), (f.right, f.left)):
            kv = const_value(strip_cast(k)) if isinstance(strip_cast(k), ast.Constant) else NOCONST
            if isinstance(kv, bool) or (f.op == "eq" and isinstance(kv, int) and kv in (0, 1)):
                return e, bool(kv) is f.pos
    if f.op == "in" and f.pos and isinstance(f.right, (ast.Tuple, ast.List, ast.Set)) and f.right.elts:
        ks = [const_value(x) if isinstance(x, ast.Constant) else NOCONST for x in f.right.elts]
        if all(isinstance(k, bool) for k in ks) and len(set(ks)) == 1:
            return f.left, ks[0]
    return None


def _state_call_fact(fi: FuncInfo, f: Fact, fut: ast.AST, attrs: tuple[str, ...]) -> bool | None:
    """f is a fact about `<fut>.done()` (any method of attrs, no arguments), directly or through a single-assignment local holding the
    call's result: the truth it gives the call; None when f is about something else"""
    o = _bool_outcome(f)
    if o is None:
        return None
    l = strip_cast(resolve(fi, o[0]))
    if isinstance(l, ast.Call) and isinstance(l.func, ast.Attribute) and l.func.attr in attrs and not l.args and not l.keywords \
            and _same_value(fi, l.func.value, fut):
        return o[1]
    return None


def _only_done_guards(fi: FuncInfo, facts: list[Fact], fut: ast.AST) -> bool:
    """every condition on the way to the call only skips futures for which the call is a no-op (done / cancelled / None)"""
    for f in facts:
        if _state_call_fact(fi, f, fut, ("done", "cancelled")) is False:
            continue
        if f.op == "is" and not f.pos and _is_none(f.right) and _same_value(fi, f.left, fut):
            continue
        if f.op == "truthy" and f.pos and _same_value(fi, f.left, fut):
            continue
        return False
    return True


def _fold_named_constants(fi: FuncInfo, e: ast.AST) -> ast.AST:
    """a copy of e in which names of module constants and never reassigned class attributes (`_SEPARATOR`, `self._TEMPLATE`) that hold
    a string are replaced by that string: the pieces of a string assembled from tables are then literal again"""
    repo = _REPO[0]
    if repo is None or e is None:
        return e
    own = set(fi.params()) | {n.id for n in walk_no_nested(fi.node) if isinstance(n, ast.Name) and isinstance(n.ctx, ast.Store)}

    class _F(ast.NodeTransformer):
        def visit_Name(self, n):
            if isinstance(n.ctx, ast.Load) and n.id not in own:
                v = repo.resolve_const(fi.module, n)
                if isinstance(v, str):
                    return ast.copy_location(ast.Constant(v), n)
            return n

        def visit_Attribute(self, n):
            if isinstance(n.ctx, ast.Load) and isinstance(n.value, ast.Name) and (n.value.id in ("self", "cls") or n.value.id not in own):
                k = fi.cls if n.value.id in ("self", "cls") else _class_of(fi.module, n.value)
                if k is not None and not any(t.attr == n.attr for c in k.mro() for m in c.methods.values()
                                             for _, t in stores(m, lambda ch: ch.count(".") == 1) if isinstance(t, ast.Attribute)):
                    v = repo.resolve_const(fi.module, n, fi.cls)
                    if isinstance(v, str):
                        return ast.copy_location(ast.Constant(v), n)
            return self.generic_visit(n)
    return _F().visit(clone(e))


def _string_parts(e: ast.AST) -> list[tuple[str, str]] | None:
    """A string-building expression as [('lit', text) | ('val', source)]: f-string, '%'-format, str.format, '+'."""
    if isinstance(e, ast.Constant) and isinstance(e.value, str):
        return [("lit", e.value)] if e.value else []
    if isinstance(e, ast.JoinedStr):
        out: list[tuple[str, str]] = []
        for v in e.values:
            if isinstance(v, ast.FormattedValue):
                if v.format_spec is not None or v.conversion not in (-1, 115):
                    return None
                if isinstance(v.value, ast.Constant) and isinstance(v.value.value, str):
                    if v.value.value:
                        out.append(("lit", v.value.value))
                    continue
                out.append(("val", norm(v.value)))
            else:
                p = _string_parts(v)
                if p is None:
                    return None
                out.extend(p)
        return out
    if isinstance(e, ast.Call) and chain(e.func) == "str" and len(e.args) == 1 and not e.keywords:
        return [("val", norm(e.args[0]))]
    if isinstance(e, ast.BinOp) and isinstance(e.op, ast.Add):
        # an operand of str '+' that is a plain name is a string value itself
        a, b = ([("val", x.id)] if isinstance(x, ast.Name) else _string_parts(x) for x in (e.left, e.right))
        return None if a is None or b is None else a + b
    if isinstance(e, ast.Call) and isinstance(e.func, ast.Attribute) and e.func.attr == "join" and isinstance(e.func.value, ast.Constant) \
            and isinstance(e.func.value.value, str) and len(e.args) == 1 and not e.keywords and isinstance(e.args[0], (ast.Tuple, ast.List)):
        out = []
        for i, x in enumerate(e.args[0].elts):
            px = [("val", x.id)] if isinstance(x, ast.Name) else _string_parts(x)
            if px is None or isinstance(x, ast.Starred):
                return None
            out += ([("lit", e.func.value.value)] if i and e.func.value.value else []) + px
        return out
    fmt, vals, holes = None, None, None
    if isinstance(e, ast.BinOp) and isinstance(e.op, ast.Mod) and isinstance(e.left, ast.Constant) and isinstance(e.left.value, str):
        fmt, holes = e.left.value, ("%s", "%d")
        vals = list(e.right.elts) if isinstance(e.right, ast.Tuple) else [e.right]
    elif isinstance(e, ast.Call) and isinstance(e.func, ast.Attribute) and e.func.attr == "format" and isinstance(e.func.value, ast.Constant) \
            and isinstance(e.func.value.value, str) and not e.keywords and not any(isinstance(a, ast.Starred) for a in e.args):
        fmt, holes, vals = e.func.value.value, ("{}",), list(e.args)
    if fmt is None:
        return None
    out, i, lit = [], 0, ""
    vals = list(vals)
    while i < len(fmt):
        h = next((h for h in holes if fmt.startswith(h, i)), None)
        if h is not None:
            if not vals:
                return None
            nxt = vals.pop(0)
            i += len(h)
            if isinstance(nxt, ast.Constant) and isinstance(nxt.value, str):
                lit += nxt.value
                continue
            if lit:
                out.append(("lit", lit))
                lit = ""
            out.append(("val", norm(nxt)))
        elif fmt[i] in "%{}":
            return None
        else:
            lit += fmt[i]
            i += 1
    if lit:
        out.append(("lit", lit))
    return None if vals else out


# ------------------------------------------------------------------------------------ rules
# --- lazy iteration made explicit.  `for T in <generator>: BODY` runs BODY once per yielded value, interleaved with the
#     generator's own control flow, so it is the generator's code with `T = value; BODY` in place of every yield.  Rules
#     about guards / complete traversal are decided on that expanded form (a private copy; /repo's trees are never touched).
def _own_level(stmts: list, types) -> bool:
    """a statement of one of `types` that belongs to this loop level (not to a nested loop / function)"""
    for st in stmts:
        if isinstance(st, types):
            return True
        if isinstance(st, (ast.For, ast.AsyncFor, ast.While, ast.FunctionDef, ast.AsyncFunctionDef, ast.ClassDef)):
            if _own_level(getattr(st, "orelse", []), types):
                return True
            continue
        for field in ("body", "orelse", "finalbody"):
            if _own_level(getattr(st, field, None) or [], types):
                return True
        if isinstance(st, ast.Try) and any(_own_level(h.body, types) for h in st.handlers):
            return True
    return False


class _Rename(ast.NodeTransformer):
    def __init__(self, mapping: dict[str, str], subst: dict[str, ast.AST] | None = None) -> None:
        self.mapping, self.subst = mapping, subst or {}

    def visit_Name(self, n: ast.Name):
        if n.id in self.subst and isinstance(n.ctx, ast.Load):
            return ast.copy_location(clone(self.subst[n.id]), n)
        if n.id in self.mapping:
            return ast.copy_location(ast.Name(self.mapping[n.id], n.ctx), n)
        return n


def _store(t: ast.AST) -> ast.AST:
    t = clone(t)
    for x in ast.walk(t):
        if isinstance(x, (ast.Name, ast.Tuple, ast.List, ast.Starred, ast.Attribute, ast.Subscript)) and isinstance(getattr(x, "ctx", None), ast.Load):
            x.ctx = ast.Store()
    return t


def _names(node_or_list) -> set[str]:
    nodes = node_or_list if isinstance(node_or_list, list) else [node_or_list]
    return {x.id for n in nodes for x in ast.walk(n) if isinstance(x, ast.Name)}


def _rewrite_blocks(node: ast.AST, fn) -> bool:
    """replace statements s (in any block below node, not in nested functions) by fn(s) when that is not None"""
    changed = False
    blocks = [(node, f) for f in ("body", "orelse", "finalbody")] + [(h, "body") for h in getattr(node, "handlers", [])]
    for owner, field in blocks:
        blk = getattr(owner, field, None)
        if not (isinstance(blk, list) and blk and isinstance(blk[0], ast.stmt)):
            continue
        new = []
        for st in blk:
            r = None if isinstance(st, (ast.FunctionDef, ast.AsyncFunctionDef, ast.ClassDef)) else fn(st)
            if r is not None:
                new.extend(r)
                changed = True
            else:
                if not isinstance(st, (ast.FunctionDef, ast.AsyncFunctionDef, ast.ClassDef)):
                    changed = _rewrite_blocks(st, fn) or changed
                new.append(st)
        setattr(owner, field, new)
    return changed


def _expand_genexp(fn_node: ast.AST, st: ast.For, g: ast.GeneratorExp) -> list | None:
    """for T in (E for x in S if C ...): BODY   ->   for x in S: if C: ...: T = E; BODY"""
    if any(x.is_async for x in g.generators) or _own_level(st.body, (ast.Break,)):
        return None
    first = {id(x) for x in ast.walk(g.generators[0].iter)}          # evaluated once, in the enclosing scope: copied unchanged
    if any(isinstance(x, (ast.Lambda, ast.ListComp, ast.SetComp, ast.DictComp, ast.GeneratorExp, ast.NamedExpr, ast.Yield, ast.YieldFrom, ast.Await))
           for x in ast.walk(g) if x is not g and (id(x) not in first or isinstance(x, (ast.NamedExpr, ast.Yield, ast.YieldFrom, ast.Await)))):
        return None
    own = {x.id for gen in g.generators for x in ast.walk(gen.target) if isinstance(x, ast.Name)}
    outside = {x.id for x in ast.walk(fn_node) if isinstance(x, ast.Name) and not any(a is g for a in ancestors(x))}
    outside |= {a.arg for a in ast.walk(fn_node) if isinstance(a, ast.arg)} | _names(g.generators[0].iter)
    mapping = {n: n + "_gx" for n in own if n in outside}
    if any(m in outside or m in own for m in mapping.values()):
        return None
    rn = _Rename(mapping)
    gens = []
    for i, gen in enumerate(g.generators):
        it = clone(gen.iter) if i == 0 else rn.visit(clone(gen.iter))
        gens.append((rn.visit(clone(gen.target)), it, [rn.visit(clone(c)) for c in gen.ifs]))
    elt = rn.visit(clone(g.elt))
    inner = [ast.copy_location(ast.Assign([_store(st.target)], elt), st)] + clone(st.body)
    for tgt, it, ifs in reversed(gens):
        for c in reversed(ifs):
            inner = [ast.copy_location(ast.If(c, inner, []), st)]
        inner = [ast.copy_location(ast.For(tgt, it, inner, [], None), st)]
    return inner


def _generator_target(ctx: Ctx, fi: FuncInfo, call: ast.Call) -> tuple[FuncInfo | None, bool]:
    """(the one generator function of this repository that `call` invokes, its shape can be expanded)"""
    tg = [t for t in ctx.repo.resolve_call(fi, call) if isinstance(t, FuncInfo)]
    if len(tg) != 1 or tg[0].is_async or tg[0].node is fi.node:
        return None, False
    t = tg[0]
    own = list(walk_no_nested(t.node))
    if not any(isinstance(x, (ast.Yield, ast.YieldFrom)) for x in own):
        return None, False
    a = t.node.args
    if a.vararg or a.kwarg or any(d not in ("staticmethod", "classmethod") for d in t.decorator_names()):
        return t, False
    if any(isinstance(x, (ast.Return, ast.Try, ast.With, ast.AsyncWith, ast.Global, ast.Nonlocal, ast.Await, ast.NamedExpr,
                          ast.FunctionDef, ast.AsyncFunctionDef, ast.ClassDef, ast.Lambda)) and x is not t.node for x in own):
        return t, False
    for x in own:
        if isinstance(x, (ast.Yield, ast.YieldFrom)) and not isinstance(parent(x), ast.Expr):
            return t, False
    return t, True


def _expand_gencall(fn_node: ast.AST, st: ast.For, call: ast.Call, t: FuncInfo) -> list | None:
    """for T in helper(args): BODY   ->   helper's body with every `yield v` replaced by `T = v; BODY`"""
    if _own_level(st.body, (ast.Break, ast.Continue)):
        return None
    a = t.node.args
    params = [x.arg for x in a.posonlyargs + a.args + a.kwonlyargs]
    bound: dict[str, ast.AST] = {}
    pos = [x.arg for x in a.posonlyargs + a.args]
    decs = t.decorator_names()
    b = _bind_call(call, t)
    if b is None:
        return None
    if t.cls is not None and "staticmethod" not in decs:
        if not (isinstance(call.func, ast.Attribute) and pos):
            return None
        if "classmethod" not in decs:
            bound[pos[0]] = call.func.value
    bound.update(b)
    allpos = a.posonlyargs + a.args
    for p_, d in zip(allpos[len(allpos) - len(a.defaults):], a.defaults):
        bound.setdefault(p_.arg, d)
    for p_, d in zip(a.kwonlyargs, a.kw_defaults):
        if d is not None:
            bound.setdefault(p_.arg, d)
    body = clone([x for i, x in enumerate(t.node.body)
                  if not (i == 0 and isinstance(x, ast.Expr) and isinstance(x.value, ast.Constant) and isinstance(x.value.value, str))])
    stored = {x.id for n in body for x in ast.walk(n) if isinstance(x, ast.Name) and isinstance(x.ctx, (ast.Store, ast.Del))}
    caller_names = _names(fn_node) | {x.arg for x in ast.walk(fn_node) if isinstance(x, ast.arg)}
    subst: dict[str, ast.AST] = {}
    mapping: dict[str, str] = {}
    pre: list = []
    for p_ in params:
        if p_ not in bound:
            if p_ in _names(body):
                return None
            continue
        v = bound[p_]
        simple = isinstance(v, ast.Constant) or chain(v) is not None and not any(isinstance(x, (ast.Call, ast.Subscript)) for x in ast.walk(v))
        if simple and p_ not in stored:
            subst[p_] = v
        else:
            new = p_ + "_gen"
            if new in caller_names:
                return None
            mapping[p_] = new
            pre.append(ast.copy_location(ast.Assign([ast.Name(new, ast.Store())], clone(v)), st))
    for n_ in stored - set(params):
        if n_ in caller_names:
            if n_ + "_gen" in caller_names:
                return None
            mapping[n_] = n_ + "_gen"
    rn = _Rename(mapping, subst)
    body = [rn.visit(x) for x in body]
    sites = [0]

    def repl(x):
        if isinstance(x, ast.Expr) and isinstance(x.value, ast.Yield):
            sites[0] += 1
            v = x.value.value if x.value.value is not None else ast.Constant(None)
            return [ast.copy_location(ast.Assign([_store(st.target)], v), st)] + clone(st.body)
        if isinstance(x, ast.Expr) and isinstance(x.value, ast.YieldFrom):
            sites[0] += 1
            return [ast.copy_location(ast.For(_store(st.target), x.value.value, clone(st.body), [], None), st)]
        return None
    holder = ast.Module(body, [])
    _rewrite_blocks(holder, repl)
    if sites[0] != 1 or any(isinstance(x, (ast.Yield, ast.YieldFrom)) for n in holder.body for x in ast.walk(n)):
        return None          # several yield points would duplicate BODY (and the definitions of T): left alone
    return pre + holder.body


# --- result objects made explicit.  A local that only ever holds a freshly built record (NamedTuple / dataclass instance, tuple
#     or dict display) and is only read field by field is a bundle of independent locals: `r = K(a, b)` ... `r.x` is
#     `r_x = a; r_y = b` ... `r_x`.  The rules then see which VALUE each field has on each path (decision tags, identifiers).
def _record_fields(module, k) -> tuple[list[str], dict[str, ast.expr]] | None:
    """(positional field order, defaults) of a NamedTuple / dataclass of the repository whose construction does nothing but store
    its arguments (no own __init__ / __new__ / __post_init__, no base class with fields)"""
    if k is None or {"__init__", "__new__", "__post_init__"} & set(k.methods):
        return None
    bases = [b.split(".")[-1] for b in k.base_names]
    decs = [(chain(d.func) if isinstance(d, ast.Call) else chain(d)) or "" for d in k.node.decorator_list]
    is_nt = bases == ["NamedTuple"]
    is_dc = any(d.split(".")[-1] == "dataclass" for d in decs) and all(b in ("ABC", "object") for b in bases)
    if not (is_nt or is_dc) or (is_nt and decs):
        return None
    if is_dc and any(isinstance(d, ast.Call) and any(kw.arg in ("init", "kw_only") for kw in d.keywords) for d in k.node.decorator_list):
        return None
    order, defaults = [], {}
    for st in k.node.body:
        if not (isinstance(st, ast.AnnAssign) and isinstance(st.target, ast.Name)):
            continue
        if "ClassVar" in norm(st.annotation):
            continue
        order.append(st.target.id)
        if st.value is not None:
            if const_value(st.value) is NOCONST and _enum_member(module, st.value) is NOCONST:
                return None          # field(default_factory=..) and other computed defaults
            defaults[st.target.id] = st.value
    if any(n in k.methods for n in order) or not order:
        return None
    return order, defaults


def _record_value(fi: FuncInfo, v: ast.AST) -> tuple[object, list[tuple[object, ast.expr]]] | None:
    """a record display: (shape, [(field, value expression) in evaluation order]); fields are names, positions or dict keys"""
    v = strip_cast(v)
    if isinstance(v, ast.Tuple) and v.elts and not any(isinstance(x, ast.Starred) for x in v.elts):
        return ("tuple", len(v.elts)), list(enumerate(v.elts))
    if isinstance(v, ast.Dict) and v.keys and all(k is not None and isinstance(const_value(k), str) for k in v.keys) \
            and len({const_value(k) for k in v.keys}) == len(v.keys):
        return ("dict", tuple(sorted(const_value(k) for k in v.keys))), [(const_value(k), x) for k, x in zip(v.keys, v.values)]
    if isinstance(v, ast.Call) and not any(isinstance(a, ast.Starred) for a in v.args) and all(k.arg is not None for k in v.keywords):
        k = _class_of(fi.module, v.func)
        rf = _record_fields(fi.module, k)
        if rf is None:
            return None
        order, defaults = rf
        if len(v.args) > len(order):
            return None
        got = list(zip(order, v.args))
        for kw in v.keywords:
            if kw.arg not in order or kw.arg in [f for f, _ in got]:
                return None
            got.append((kw.arg, kw.value))
        for f in order:
            if f not in [g for g, _ in got]:
                if f not in defaults:
                    return None
                got.append((f, defaults[f]))
        return ("class", k.name, tuple(order), any(b.split(".")[-1] == "NamedTuple" for b in k.base_names)), got
    return None


def _scalarise_records(fi: FuncInfo, node: ast.AST) -> bool:
    """rewrite (in the private copy `node`) every record-holding local into one local per field; True when something changed"""
    from ..cfg import expr_may_raise
    from ..model import enclosing_function
    tmp = FuncInfo(fi.name, fi.qualname, node, fi.module, fi.cls)
    a = node.args
    params = {x.arg for x in a.posonlyargs + a.args + a.kwonlyargs} | ({a.vararg.arg} if a.vararg else set()) | ({a.kwarg.arg} if a.kwarg else set())
    all_names = {x.id for x in ast.walk(node) if isinstance(x, ast.Name)} | {x.arg for x in ast.walk(node) if isinstance(x, ast.arg)}
    occ: dict[str, list[ast.Name]] = {}
    for x in ast.walk(node):
        if isinstance(x, ast.Name):
            occ.setdefault(x.id, []).append(x)
    plans = []
    for v, names in sorted(occ.items()):
        if v in params or not any(isinstance(x.ctx, ast.Store) for x in names):
            continue
        if any(enclosing_function(x) is not node for x in names) or any(isinstance(x, (ast.Global, ast.Nonlocal)) and v in x.names for x in ast.walk(node)):
            continue
        shape, defs, loads, unpacks, probes, good = None, [], [], [], [], True
        for x in names:
            p_ = parent(x)
            if isinstance(x.ctx, ast.Store):
                st = p_
                val = st.value if (isinstance(st, ast.Assign) and len(st.targets) == 1 and st.targets[0] is x) or \
                    (isinstance(st, ast.AnnAssign) and st.target is x and st.value is not None) else None
                rec = _record_value(tmp, val) if val is not None else None
                if rec is None or (shape is not None and rec[0] != shape) or any(v in _names(e) for _, e in rec[1]):
                    good = False
                    break
                if any(isinstance(t, ast.Try) for t in ancestors(st)) and any(expr_may_raise(e) for _, e in rec[1]):
                    good = False          # a partly evaluated display whose exception is caught here would leave some fields rebound
                    break
                if any(isinstance(y, ast.NamedExpr) for _, e in rec[1] for y in ast.walk(e)):
                    good = False
                    break
                shape = rec[0]
                defs.append((st, rec[1]))
            elif isinstance(x.ctx, ast.Load):
                if isinstance(p_, ast.Attribute) and p_.value is x and isinstance(p_.ctx, ast.Load):
                    loads.append((p_, p_.attr))
                elif isinstance(p_, ast.Subscript) and p_.value is x and isinstance(p_.ctx, ast.Load) and isinstance(const_value(p_.slice), (int, str)) \
                        and not isinstance(const_value(p_.slice), bool):
                    loads.append((p_, const_value(p_.slice)))
                elif isinstance(p_, ast.Assign) and p_.value is x and len(p_.targets) == 1 and isinstance(p_.targets[0], (ast.Tuple, ast.List)) \
                        and all(isinstance(t, ast.Name) for t in p_.targets[0].elts):
                    unpacks.append(p_)
                elif isinstance(p_, ast.Call) and isinstance(p_.func, ast.Name) and p_.func.id in ("len", "isinstance", "_is_sequence") and p_.args \
                        and p_.args[0] is x and not p_.keywords and len(p_.args) == (2 if p_.func.id == "isinstance" else 1):
                    probes.append(p_)          # what kind of thing the record is: answered from its shape below
                else:
                    good = False
                    break
            else:
                good = False
                break
        if not good or shape is None or not defs:
            continue
        # which spellings read which field
        if shape[0] == "tuple":
            fields = list(range(shape[1]))
            key = {f: f for f in fields} | {f - shape[1]: f for f in fields}
        elif shape[0] == "dict":
            fields = list(shape[1])
            key = {f: f for f in fields}
        else:
            fields = list(shape[2])
            key = {f: f for f in fields}
            if shape[3]:
                key |= {i: f for i, f in enumerate(fields)} | {i - len(fields): f for i, f in enumerate(fields)}
        if shape[0] == "dict" and any(not isinstance(p_, ast.Subscript) for p_, _ in loads) or shape[0] == "tuple" and any(not isinstance(p_, ast.Subscript) for p_, _ in loads):
            continue
        if shape[0] == "class" and any(isinstance(p_, ast.Subscript) and not isinstance(k_, int) for p_, k_ in loads):
            continue
        if any(k_ not in key for _, k_ in loads) or (unpacks and (shape[0] == "dict" or (shape[0] == "class" and 0 not in key))):
            continue
        if any(len(u.targets[0].elts) != len(fields) or v in {t.id for t in u.targets[0].elts} for u in unpacks):
            continue
        answers = {}
        is_seq = shape[0] == "tuple" or (shape[0] == "class" and shape[3])
        for c_ in probes:
            if c_.func.id == "len" and is_seq:
                answers[id(c_)] = len(fields)
            elif c_.func.id == "_is_sequence" and shape[0] != "dict":
                answers[id(c_)] = is_seq
            elif c_.func.id == "isinstance" and ((shape[0] == "class" and _last(chain(c_.args[1])) == shape[1]) or
                                                 (is_seq and chain(c_.args[1]) == "tuple") or (shape[0] == "dict" and chain(c_.args[1]) == "dict")):
                answers[id(c_)] = True
            else:
                answers = None
                break
        if answers is None:
            continue
        new = {}
        for f in fields:
            n_ = f"{v}_{f}"
            while n_ in all_names:
                n_ += "_"
            all_names.add(n_)
            new[f] = n_
        plans.append((v, defs, loads, unpacks, key, new, fields, answers))
    if not plans:
        return False
    def_of, unpack_of, load_of, const_of = {}, {}, {}, {}
    for v, defs, loads, unpacks, key, new, fields, answers in plans:
        const_of.update(answers)
        for st, got in defs:
            def_of[id(st)] = [ast.copy_location(ast.Assign([ast.Name(new[f], ast.Store())], e), st) for f, e in got]
        for u in unpacks:
            unpack_of[id(u)] = [ast.copy_location(ast.Assign([ast.Name(t.id, ast.Store())], ast.Name(new[f], ast.Load())), u)
                                for t, f in zip(u.targets[0].elts, fields)]
        for p_, k_ in loads:
            load_of[id(p_)] = new[key[k_]]

    class _Loads(ast.NodeTransformer):
        def visit(self, n):
            if id(n) in load_of:
                return ast.copy_location(ast.Name(load_of[id(n)], ast.Load()), n)
            if id(n) in const_of:
                return ast.copy_location(ast.Constant(const_of[id(n)]), n)
            return self.generic_visit(n)
    _rewrite_blocks(node, lambda st: def_of.get(id(st)) or unpack_of.get(id(st)))
    _Loads().generic_visit(node)
    return True


# --- operator / functools callables and eager pipelines made explicit.  `itemgetter(0)(p)` is `p[0]`, `methodcaller("cancel")(f)`
#     is `f.cancel()`, `partial(g, a)(b)` is `g(a, b)`; `map(F, S)` yields `F(x) for x in S`; a comprehension / list(..) /
#     deque(.., maxlen=0) evaluated as a statement of its own runs its element expression once per element, like a loop.
def _last(c: str | None) -> str:
    return (c or "").split(".")[-1]


def _apply_callable(fi: FuncInfo, f: ast.AST, x: ast.expr) -> ast.expr:
    """the expression `f(x)` with a callable built by operator / functools / lambda applied symbolically"""
    g = strip_cast(resolve(fi, f))
    if isinstance(g, ast.Call) and not any(isinstance(a, ast.Starred) for a in g.args) and all(k.arg is not None for k in g.keywords):
        name = _last(chain(g.func))
        if name == "itemgetter" and len(g.args) == 1 and not g.keywords and const_value(g.args[0]) is not NOCONST:
            return ast.Subscript(x, clone(g.args[0]), ast.Load())
        if name == "attrgetter" and len(g.args) == 1 and not g.keywords and isinstance(const_value(g.args[0]), str) and const_value(g.args[0]).isidentifier():
            return ast.Attribute(x, const_value(g.args[0]), ast.Load())
        if name == "methodcaller" and g.args and isinstance(const_value(g.args[0]), str) and const_value(g.args[0]).isidentifier():
            return ast.Call(ast.Attribute(x, const_value(g.args[0]), ast.Load()), [clone(a) for a in g.args[1:]], [clone(k) for k in g.keywords])
        if name == "partial" and g.args and all(_simple_value(a) for a in g.args) and all(_simple_value(k.value) for k in g.keywords):
            return ast.Call(clone(g.args[0]), [clone(a) for a in g.args[1:]] + [x], [clone(k) for k in g.keywords])
    if isinstance(g, ast.Lambda) and len(g.args.args) == 1 and not (g.args.defaults or g.args.vararg or g.args.kwarg or g.args.kwonlyargs or g.args.posonlyargs) \
            and isinstance(x, ast.Name) and not any(isinstance(y, (ast.Lambda, ast.ListComp, ast.SetComp, ast.DictComp, ast.GeneratorExp, ast.NamedExpr))
                                                    for y in ast.walk(g.body)):
        return _Rename({}, {g.args.args[0].arg: x}).visit(clone(g.body))
    return ast.Call(clone(f), [x], [])


def _as_genexp(fi: FuncInfo, e: ast.AST, taken: set[str], eager: bool = False) -> ast.GeneratorExp | None:
    """e as a generator expression: itself, `map(F, S)` as `(F(x) for x in S)`, and - where the caller consumes it completely
    anyway (eager) - a list / set comprehension"""
    e = strip_cast(e)
    if isinstance(e, ast.GeneratorExp):
        return e
    if eager and isinstance(e, (ast.ListComp, ast.SetComp)):
        return ast.copy_location(ast.GeneratorExp(e.elt, e.generators), e)
    if isinstance(e, ast.Call) and chain(e.func) == "map" and len(e.args) == 2 and not e.keywords and not any(isinstance(a, ast.Starred) for a in e.args):
        v = "item_mp"
        while v in taken:
            v += "_"
        taken.add(v)
        elt = _apply_callable(fi, e.args[0], ast.Name(v, ast.Load()))
        g = ast.GeneratorExp(elt, [ast.comprehension(ast.Name(v, ast.Store()), e.args[1], [], 0)])
        return ast.fix_missing_locations(ast.copy_location(g, e))
    if isinstance(e, ast.Call) and _last(chain(e.func)) in ("filter", "filterfalse") and chain(e.func) in ("filter", "filterfalse", "itertools.filterfalse") \
            and len(e.args) == 2 and not e.keywords and not any(isinstance(a, ast.Starred) for a in e.args):
        # filter(F, S) is (x for x in S if F(x));  filterfalse(F, S) is (x for x in S if not F(x));  F None tests x itself
        v = "item_ft"
        while v in taken:
            v += "_"
        taken.add(v)
        test = ast.Name(v, ast.Load()) if _is_none(e.args[0]) else _apply_callable(fi, e.args[0], ast.Name(v, ast.Load()))
        if _last(chain(e.func)) == "filterfalse":
            test = ast.UnaryOp(ast.Not(), test)
        g = ast.GeneratorExp(ast.Name(v, ast.Load()), [ast.comprehension(ast.Name(v, ast.Store()), e.args[1], [test], 0)])
        return ast.fix_missing_locations(ast.copy_location(g, e))
    return None


def _consumed_whole(e: ast.AST) -> ast.AST | None:
    """the iterable that the expression statement `e` walks from its first to its last element, discarding what it builds"""
    e = strip_cast(e)
    if isinstance(e, (ast.ListComp, ast.SetComp)):
        return e
    if isinstance(e, ast.Call) and not any(isinstance(a, ast.Starred) for a in e.args):
        name = _last(chain(e.func))
        if name in ("list", "tuple", "set", "frozenset", "sorted") and chain(e.func) == name and len(e.args) == 1 and not e.keywords:
            return e.args[0]
        if name == "deque" and ((len(e.args) == 2 and not e.keywords and const_value(e.args[1]) == 0) or
                                (len(e.args) == 1 and len(e.keywords) == 1 and e.keywords[0].arg == "maxlen" and const_value(e.keywords[0].value) == 0)):
            return e.args[0]
    return None


def _fuse_filtered_snapshots(node: ast.AST, fi: FuncInfo | None = None) -> bool:
    """`xs = [E for x in S if C]` (or list(..) / tuple(..) of such a generator) directly followed by the only use of xs, `for T in xs:`,
    walks the selected elements in the same order; nothing runs between the selection and the loop, so for the rules (which
    ask what holds for an element when the body runs) it is the loop over the generator itself."""
    changed = False
    loads: dict[str, int] = {}
    stores_: dict[str, int] = {}
    for x in ast.walk(node):
        if isinstance(x, ast.Name):
            d = loads if isinstance(x.ctx, ast.Load) else stores_
            d[x.id] = d.get(x.id, 0) + 1

    def block(stmts: list) -> None:
        nonlocal changed
        i = 0
        while i + 1 < len(stmts):
            a, b = stmts[i], stmts[i + 1]
            v = a.targets[0].id if isinstance(a, ast.Assign) and len(a.targets) == 1 and isinstance(a.targets[0], ast.Name) else None
            val = strip_cast(a.value) if v is not None else None
            if isinstance(val, ast.Call) and chain(val.func) in ("list", "tuple") and len(val.args) == 1 and not val.keywords:
                val = strip_cast(val.args[0])
            if v is not None and isinstance(val, (ast.ListComp, ast.GeneratorExp)) and any(g.ifs for g in val.generators) \
                    and isinstance(b, ast.For) and isinstance(strip_cast(b.iter), ast.Name) and strip_cast(b.iter).id == v \
                    and loads.get(v) == 1 and stores_.get(v) == 1:
                b.iter = ast.copy_location(ast.GeneratorExp(val.elt, val.generators), val)
                del stmts[i]
                changed = True
                continue
            # `it = helper(..)` (a generator of this repository) directly followed by the only use of it, `for T in it:`, is the loop
            # over the call itself: the call is evaluated at the same moment, its result goes nowhere else
            if v is not None and fi is not None and isinstance(b, ast.For) and isinstance(strip_cast(b.iter), ast.Name) and strip_cast(b.iter).id == v \
                    and loads.get(v) == 1 and stores_.get(v) == 1 and _is_generator_call(fi, strip_cast(a.value)):
                b.iter = strip_cast(a.value)
                del stmts[i]
                changed = True
                continue
            i += 1
        for st in stmts:
            if isinstance(st, (ast.FunctionDef, ast.AsyncFunctionDef, ast.ClassDef)):
                continue
            for field in ("body", "orelse", "finalbody"):
                blk = getattr(st, field, None)
                if isinstance(blk, list) and blk and isinstance(blk[0], ast.stmt):
                    block(blk)
            for h in getattr(st, "handlers", []):
                block(h.body)
    block(node.body)
    return changed


# --- iteration written out by hand.  A `while` loop that fetches the next element itself visits the elements of an iterator exactly as a
#     `for` statement does (same order, same early exits by break, `continue` fetches the next element in both):
#         while (x := next(it, D)) is not D: BODY                              (no element is D)
#         while True: try: x = next(it) / except StopIteration: break; BODY
#         x = next(it, D) / while x is not D: BODY; x = next(it, D)            (BODY without continue)
#         i = 0 / while i < len(seq): x = seq[i]; BODY; i += 1                 (BODY without continue, seq and i untouched by BODY)
#         for i in range(len(seq)): x = seq[i]; BODY                           (seq and i untouched by BODY)
#         for i, x in enumerate(S): BODY                                       (i not used)
#     The rules ask which elements a traversal visits and what happens per element; they read the `for` form.
def _end_marker(fi: FuncInfo, e: ast.AST) -> bool:
    """a value no cache / future / pair is: None, or a module-level sentinel `NAME = object()`"""
    if _is_none(e) and e is not None:
        return True
    if isinstance(e, ast.Name) and e.id not in fi.params():
        v = fi.module.constants.get(e.id)
        return isinstance(v, ast.Call) and chain(v.func) == "object" and not v.args and not v.keywords
    return False


def _next_call(e: ast.AST, with_default: bool) -> tuple[str, ast.AST | None] | None:
    """e is `next(<name>)` / `next(<name>, D)` -> (name, D)"""
    e = strip_cast(e)
    if isinstance(e, ast.Call) and chain(e.func) == "next" and not e.keywords and len(e.args) == (2 if with_default else 1) \
            and isinstance(e.args[0], ast.Name) and not any(isinstance(a, ast.Starred) for a in e.args):
        return e.args[0].id, (e.args[1] if with_default else None)
    return None


def _is_generator_call(fi: FuncInfo, v: ast.AST) -> bool:
    """v calls a generator function of this repository (every possible target has a yield of its own)"""
    repo = _REPO[0]
    if repo is None or not isinstance(v, ast.Call):
        return False
    try:
        tg = [t for t in repo.resolve_call(fi, v)]
    except Exception:  # noqa: BLE001
        return False
    return bool(tg) and all(isinstance(t, FuncInfo) and not t.is_async and any(isinstance(x, (ast.Yield, ast.YieldFrom)) for x in walk_no_nested(t.node)) for t in tg)


def _explicit_loops(fi: FuncInfo, node: ast.AST) -> bool:
    occ: dict[str, list[ast.Name]] = {}
    for x in ast.walk(node):
        if isinstance(x, ast.Name):
            occ.setdefault(x.id, []).append(x)
    params = {x.arg for x in ast.walk(node) if isinstance(x, ast.arg)}

    def inside(n: ast.AST, roots: list) -> bool:
        return any(n is r or any(a is r for a in ancestors(n)) for r in roots)

    def only_in(name: str, roots: list) -> bool:
        """every occurrence of the local lies in one of the given subtrees"""
        return name not in params and all(inside(x, roots) for x in occ.get(name, []))

    def iterator_name(name: str) -> bool:
        """the local is bound (outside the loop) only to iter(..) calls and generator expressions / generator calls: `for` over it
        takes the same elements as next() does"""
        st = [x for x in occ.get(name, []) if isinstance(x.ctx, ast.Store)]
        if name in params or not st:
            return False
        for x in st:
            p_ = parent(x)
            v = strip_cast(p_.value) if isinstance(p_, ast.Assign) and len(p_.targets) == 1 and p_.targets[0] is x else None
            if not (isinstance(v, ast.GeneratorExp) or (isinstance(v, ast.Call) and chain(v.func) == "iter" and len(v.args) == 1 and not v.keywords)
                    or _is_generator_call(fi, v)):
                return False
        return True

    def plain_target(t: ast.AST) -> bool:
        return isinstance(t, ast.Name) or (isinstance(t, (ast.Tuple, ast.List)) and all(isinstance(x, ast.Name) for x in t.elts))

    def target_names(t: ast.AST) -> list[str]:
        return [x.id for x in ast.walk(t) if isinstance(x, ast.Name)]

    def is_test(t: ast.AST, var: str, marker: ast.AST) -> bool:
        """`var is not D`"""
        return isinstance(t, ast.Compare) and len(t.ops) == 1 and isinstance(t.ops[0], ast.IsNot) and isinstance(t.left, ast.Name) and t.left.id == var \
            and norm(t.comparators[0]) == norm(marker)

    def stored_in(name: str, stmts: list) -> bool:
        return any(isinstance(x.ctx, (ast.Store, ast.Del)) and inside(x, stmts) for x in occ.get(name, []))

    def worklist(st: ast.While) -> str | None:
        """the local list a `while <name>:` / `while len(<name>) [> 0]:` loop runs on, when the loop takes elements off it with .pop"""
        t = strip_cast(st.test)
        if isinstance(t, ast.Compare) and len(t.ops) == 1 and isinstance(t.ops[0], (ast.Gt, ast.NotEq)) and const_value(t.comparators[0]) == 0 \
                and not isinstance(const_value(t.comparators[0]), bool):
            t = strip_cast(t.left)
        if isinstance(t, ast.Call) and chain(t.func) == "len" and len(t.args) == 1 and not t.keywords:
            t = strip_cast(t.args[0])
        if not isinstance(t, ast.Name) or t.id in params:
            return None
        pops = [x for b in st.body for x in ast.walk(b) if isinstance(x, ast.Call) and isinstance(x.func, ast.Attribute) and x.func.attr == "pop"
                and isinstance(x.func.value, ast.Name) and x.func.value.id == t.id]
        return t.id if pops else None

    def unstack(st: ast.While, name: str, blk_prev):
        """The worklist loop as the `for` it is.  `name` is bound once, right before the loop, to a fresh reversed copy of SEQ
        (list(reversed(SEQ)) / list(SEQ)[::-1]) and every other occurrence of it is the loop test and ONE `T = name.pop()` that opens
        the body: nothing is pushed, nothing else is popped, so the loop takes the elements of SEQ as they were when the copy was
        made, first to last, one per iteration, until none is left -> `for T in list(SEQ): BODY` (continue / break mean the same).
        With a queue (list(SEQ), popped at index 0) likewise.  Anything else done to a worklist that was filled from a cache's
        futures / the table is not followed: `undecided` - except a pop whose result is thrown away while nothing is ever pushed,
        which skips elements for certain: that loop is left as written for the rules to judge."""
        uses = occ.get(name, [])
        stores = [x for x in uses if isinstance(x.ctx, (ast.Store, ast.Del))]
        bound = isinstance(blk_prev, ast.Assign) and len(blk_prev.targets) == 1 and isinstance(blk_prev.targets[0], ast.Name) \
            and blk_prev.targets[0].id == name and len(stores) == 1
        v = strip_cast(blk_prev.value) if bound else None
        seq, fifo = None, False

        def copy_of(e):
            e = strip_cast(e)
            if isinstance(e, ast.Call) and chain(e.func) in ("list", "tuple") and len(e.args) == 1 and not e.keywords and not isinstance(e.args[0], ast.Starred):
                return e.args[0]
            return None

        def rev_slice(e):
            s = e.slice if isinstance(e, ast.Subscript) else None
            return isinstance(s, ast.Slice) and s.lower is None and s.upper is None and const_value(s.step) == -1 \
                and not isinstance(const_value(s.step), bool)
        if v is not None:
            inner = copy_of(v)
            if inner is not None and isinstance(strip_cast(inner), ast.Call) and chain(strip_cast(inner).func) == "reversed" \
                    and len(strip_cast(inner).args) == 1 and not strip_cast(inner).keywords and not isinstance(strip_cast(inner).args[0], ast.Starred):
                seq = strip_cast(inner).args[0]                                   # list(reversed(SEQ))
            elif rev_slice(v) and copy_of(v.value) is not None:
                seq = copy_of(v.value)                                            # list(SEQ)[::-1]
            elif inner is not None and chain(v.func) == "list":
                seq, fifo = inner, True                                           # list(SEQ), taken from the front
        first = st.body[0] if st.body else None
        fv = strip_cast(first.value) if isinstance(first, ast.Assign) and len(first.targets) == 1 and plain_target(first.targets[0]) else None
        head = isinstance(fv, ast.Call) and isinstance(fv.func, ast.Attribute) and fv.func.attr == "pop" and isinstance(fv.func.value, ast.Name) \
            and fv.func.value.id == name and not fv.keywords \
            and ((not fifo and not fv.args) or (fifo and len(fv.args) == 1 and const_value(fv.args[0]) == 0 and not isinstance(const_value(fv.args[0]), bool)))
        if seq is not None and head and only_in(name, [blk_prev.targets[0], st.test, fv.func]) and name not in target_names(first.targets[0]) \
                and not any(isinstance(x, (ast.Yield, ast.YieldFrom, ast.Await, ast.NamedExpr, ast.Lambda)) for x in ast.walk(seq)):
            it = ast.copy_location(ast.Call(ast.Name("list", ast.Load()), [seq], []), blk_prev)
            return [ast.copy_location(ast.For(first.targets[0], it, st.body[1:] or [ast.copy_location(ast.Pass(), st)], [], None), st)]
        # not the plain traversal.  Does it concern this property at all?
        feeds = [parent(x).value for x in stores if isinstance(parent(x), ast.Assign)]
        relevant = any((isinstance(y, ast.Attribute) and (y.attr in _managed_names() or _is_table(fi, y))) for f in feeds for y in ast.walk(f))
        if not relevant:
            return None
        def measured(x: ast.Name) -> bool:
            """`if name:` / `not name` / `len(name)`: only asks whether anything is left"""
            q = parent(x)
            return (isinstance(q, (ast.If, ast.While, ast.IfExp)) and q.test is x) or (isinstance(q, ast.UnaryOp) and isinstance(q.op, ast.Not)) \
                or (isinstance(q, ast.Call) and chain(q.func) == "len" and len(q.args) == 1 and q.args[0] is x)
        # every use is the binding, a test, or `name.pop()`; one pop at least throws its element away: elements are skipped
        only_pops = all(isinstance(x.ctx, ast.Store) or any(a is st.test for a in [x, *ancestors(x)]) or measured(x) or (
            isinstance(parent(x), ast.Attribute) and parent(x).attr == "pop" and isinstance(parent(parent(x)), ast.Call) and parent(parent(x)).func is parent(x))
            for x in uses)
        dropped = any(isinstance(parent(x), ast.Attribute) and parent(x).attr == "pop" and isinstance(parent(parent(x)), ast.Call)
                      and isinstance(parent(parent(parent(x))), ast.Expr) for x in uses)
        if bound and only_pops and dropped:
            return None
        raise AnalysisError(f"undecided: {fi.qualname} walks a worklist `{name}` filled from the managed futures / the table in a way that is not followed "
                            "(bound more than once, pushed to, popped elsewhere than at the loop head)")

    def fn(st):
        blk_prev = getattr(st, "_c10_prev", None)
        if isinstance(st, ast.While) and not st.orelse:
            t = strip_cast(st.test)
            # A. while (x := next(it, D)) is not D
            if isinstance(t, ast.Compare) and len(t.ops) == 1 and isinstance(t.ops[0], ast.IsNot) and isinstance(t.left, ast.NamedExpr):
                nx = _next_call(t.left.value, True)
                x = t.left.target.id
                if nx is not None and _end_marker(fi, nx[1]) and norm(t.comparators[0]) == norm(nx[1]) and iterator_name(nx[0]) \
                        and only_in(x, [st]) and not stored_in(x, st.body) and not stored_in(nx[0], [st]):
                    return [ast.copy_location(ast.For(ast.Name(x, ast.Store()), ast.Name(nx[0], ast.Load()), st.body, [], None), st)]
            # B. while True: try: x = next(it) / except StopIteration: break
            if isinstance(t, ast.Constant) and t.value is True and st.body and isinstance(st.body[0], ast.Try):
                tr = st.body[0]
                a = tr.body[0] if len(tr.body) == 1 else None
                nx = _next_call(a.value, False) if isinstance(a, ast.Assign) and len(a.targets) == 1 and plain_target(a.targets[0]) else None
                h = tr.handlers[0] if len(tr.handlers) == 1 else None
                if nx is not None and h is not None and chain(h.type) == "StopIteration" and h.name is None and len(h.body) == 1 and isinstance(h.body[0], ast.Break) \
                        and not tr.finalbody and iterator_name(nx[0]) and not stored_in(nx[0], [st]) \
                        and all(only_in(v, [st]) and not stored_in(v, st.body[1:] + tr.orelse) for v in target_names(a.targets[0])):
                    return [ast.copy_location(ast.For(a.targets[0], ast.Name(nx[0], ast.Load()), tr.orelse + st.body[1:] or [ast.copy_location(ast.Pass(), st)], [], None), st)]
            # C. x = next(it, D) / while x is not D: BODY; x = next(it, D)
            last = st.body[-1] if st.body else None
            if isinstance(last, ast.Assign) and len(last.targets) == 1 and isinstance(last.targets[0], ast.Name) and isinstance(blk_prev, ast.Assign) \
                    and norm(blk_prev) == norm(last) and len(st.body) > 1:
                nx = _next_call(last.value, True)
                x = last.targets[0].id
                if nx is not None and _end_marker(fi, nx[1]) and is_test(t, x, nx[1]) and iterator_name(nx[0]) and only_in(x, [st, blk_prev]) \
                        and not stored_in(x, st.body[:-1]) and not stored_in(nx[0], [st]) and not _own_level(st.body, (ast.Continue,)):
                    return [ast.copy_location(ast.For(ast.Name(x, ast.Store()), ast.Name(nx[0], ast.Load()), st.body[:-1], [], None), st)]
            # D. i = 0 / while i < len(seq): x = seq[i]; BODY; i += 1
            first = st.body[0] if st.body else None
            if isinstance(t, ast.Compare) and len(t.ops) == 1 and isinstance(t.ops[0], ast.Lt) and isinstance(t.left, ast.Name) and len(st.body) >= 2 \
                    and isinstance(t.comparators[0], ast.Call) and chain(t.comparators[0].func) == "len" and len(t.comparators[0].args) == 1 \
                    and isinstance(t.comparators[0].args[0], ast.Name) and isinstance(last, ast.AugAssign) and isinstance(last.op, ast.Add) \
                    and isinstance(last.target, ast.Name) and const_value(last.value) == 1 and not isinstance(const_value(last.value), bool):
                i, seq = t.left.id, t.comparators[0].args[0].id
                init = isinstance(blk_prev, ast.Assign) and len(blk_prev.targets) == 1 and isinstance(blk_prev.targets[0], ast.Name) and blk_prev.targets[0].id == i \
                    and const_value(blk_prev.value) == 0 and not isinstance(const_value(blk_prev.value), bool)
                elem = isinstance(first, ast.Assign) and len(first.targets) == 1 and plain_target(first.targets[0]) and isinstance(strip_cast(first.value), ast.Subscript) \
                    and norm(strip_cast(first.value)) == f"{seq}[{i}]"
                if init and elem and last.target.id == i and i not in target_names(first.targets[0]) and seq not in target_names(first.targets[0]) \
                        and only_in(i, [blk_prev, st.test, first.value, last]) and _snapshot_local(seq) and not stored_in(seq, [st]) \
                        and not _own_level(st.body, (ast.Continue,)) \
                        and all(only_in(v, [st]) and not stored_in(v, st.body[1:]) for v in target_names(first.targets[0])):
                    return [ast.copy_location(ast.For(first.targets[0], ast.Name(seq, ast.Load()), st.body[1:-1] or [ast.copy_location(ast.Pass(), st)], [], None), st)]
            # G. stack = list(reversed(SEQ)) / while stack: x = stack.pop(); BODY      (also list(SEQ)[::-1]; queue = list(SEQ) .. queue.pop(0))
            wl = worklist(st)
            if wl is not None:
                r = unstack(st, wl, blk_prev)
                if r is not None:
                    return r
        if isinstance(st, ast.For) and not st.orelse:
            it = strip_cast(st.iter)
            first = st.body[0] if st.body else None
            # E. for i in range(len(seq)): x = seq[i]; BODY
            if isinstance(st.target, ast.Name) and isinstance(it, ast.Call) and chain(it.func) == "range" and len(it.args) == 1 and not it.keywords \
                    and isinstance(it.args[0], ast.Call) and chain(it.args[0].func) == "len" and len(it.args[0].args) == 1 and isinstance(it.args[0].args[0], ast.Name) \
                    and isinstance(first, ast.Assign) and len(first.targets) == 1 and plain_target(first.targets[0]):
                i, seq = st.target.id, it.args[0].args[0].id
                if isinstance(strip_cast(first.value), ast.Subscript) and norm(strip_cast(first.value)) == f"{seq}[{i}]" and only_in(i, [st.target, first.value]) \
                        and i not in target_names(first.targets[0]) and seq not in target_names(first.targets[0]) and _snapshot_local(seq) and not stored_in(seq, [st]) \
                        and all(only_in(v, [st]) and not stored_in(v, st.body[1:]) for v in target_names(first.targets[0])):
                    return [ast.copy_location(ast.For(first.targets[0], ast.Name(seq, ast.Load()), st.body[1:] or [ast.copy_location(ast.Pass(), st)], [], None), st)]
            # F. for i, x in enumerate(S): BODY   (i unused)
            if isinstance(st.target, (ast.Tuple, ast.List)) and len(st.target.elts) == 2 and isinstance(st.target.elts[0], ast.Name) \
                    and isinstance(it, ast.Call) and chain(it.func) == "enumerate" and len(it.args) == 1 and not it.keywords and not isinstance(it.args[0], ast.Starred) \
                    and only_in(st.target.elts[0].id, [st.target]) and plain_target(st.target.elts[1]):
                return [ast.copy_location(ast.For(st.target.elts[1], it.args[0], st.body, [], None), st)]
        return None

    def _snapshot_local(seq: str) -> bool:
        """the local is bound once, to a freshly built list / tuple (an eager copy): nothing else refers to it, so its length and its
        elements stay what they are while the loop runs (BODY itself does not touch the name: checked by the caller)"""
        st = [x for x in occ.get(seq, []) if isinstance(x.ctx, ast.Store)]
        if seq in params or len(st) != 1:
            return False
        p_ = parent(st[0])
        v = strip_cast(p_.value) if isinstance(p_, ast.Assign) and len(p_.targets) == 1 and p_.targets[0] is st[0] else None
        fresh = isinstance(v, (ast.ListComp, ast.List, ast.Tuple)) or (isinstance(v, ast.Call) and chain(v.func) in ("list", "tuple", "sorted"))
        # and it is only indexed / measured, never handed on or mutated
        for x in occ.get(seq, []):
            if isinstance(x.ctx, ast.Load):
                q = parent(x)
                if not ((isinstance(q, ast.Subscript) and q.value is x and isinstance(q.ctx, ast.Load)) or
                        (isinstance(q, ast.Call) and chain(q.func) == "len" and q.args and q.args[0] is x)):
                    return False
        return fresh

    # the statement just before each statement (the loop's priming assignment)
    for x in ast.walk(node):
        for f in ("body", "orelse", "finalbody"):
            blk = getattr(x, f, None)
            if isinstance(blk, list) and blk and isinstance(blk[0], ast.stmt):
                for k, st in enumerate(blk):
                    st.__dict__["_c10_prev"] = blk[k - 1] if k else None
    drop: list = []

    def fn2(st):
        r = fn(st)
        if r is not None and isinstance(st, ast.While):
            t = strip_cast(st.test)
            prev = st.__dict__.get("_c10_prev")
            # the priming statement of forms C / D is part of the loop that was rewritten
            if isinstance(prev, ast.Assign) and not (isinstance(t, ast.Compare) and isinstance(t.left, ast.NamedExpr)) and not isinstance(t, ast.Constant):
                drop.append(prev)
        return r
    changed = _rewrite_blocks(node, fn2)
    if drop:
        _rewrite_blocks(node, lambda st: [] if any(st is d for d in drop) else None)
        # a block may not be left empty
        for x in ast.walk(node):
            for f in ("body",):
                if isinstance(getattr(x, f, None), list) and not getattr(x, f) and isinstance(x, (ast.If, ast.For, ast.While, ast.With, ast.Try, ast.FunctionDef, ast.AsyncFunctionDef)):
                    x.body = [ast.Pass()]
    return changed


def _suppressed(w: ast.With) -> list[ast.expr] | None:
    """the exception types of `with suppress(E1, E2):` / `with contextlib.suppress(..):` (one item, nothing bound)"""
    if len(w.items) != 1 or w.items[0].optional_vars is not None:
        return None
    c = w.items[0].context_expr
    if isinstance(c, ast.Call) and chain(c.func) in ("suppress", "contextlib.suppress") and c.args and not c.keywords \
            and not any(isinstance(a, ast.Starred) for a in c.args):
        return list(c.args)
    return None


def _new_properties(fi: FuncInfo) -> dict[str, tuple[str, ast.expr]]:
    """NEW read-only properties (not part of the reviewed code) whose body is one `return <expression over self>`, by attribute name -
    only names that nothing else in the repository defines, so that `<x>.name` can only be that property:
    name -> (its self parameter, the returned expression)"""
    repo = _REPO[0]
    if repo is None:
        return {}
    hit = repo.__dict__.get("_c10_props")
    if hit is not None:
        return hit
    out: dict = {}
    try:
        from ..localnames import load_table
        tables = load_table()
    except Exception:  # noqa: BLE001
        tables = {}
    seen: dict[str, int] = {}
    for k in repo.all_classes():
        for name in list(k.methods) + list(k.attrs) + list(k.annotations):
            seen[name] = seen.get(name, 0) + 1
    for k in repo.all_classes():
        known = tables.get(k.module.relpath) or {}
        for name, m in k.methods.items():
            if m.decorator_names() != ["property"] or f"{k.name}.{name}" in known or seen.get(name, 0) != 1 or len(m.params()) != 1:
                continue
            body = [x for x in m.node.body if not (isinstance(x, ast.Expr) and isinstance(x.value, ast.Constant) and isinstance(x.value.value, str))]
            if len(body) == 1 and isinstance(body[0], ast.Return) and body[0].value is not None \
                    and not any(isinstance(x, (ast.Await, ast.Yield, ast.YieldFrom, ast.NamedExpr, ast.Lambda)) for x in ast.walk(body[0].value)) \
                    and not any(isinstance(st, ast.Attribute) and st.attr == name and isinstance(st.ctx, (ast.Store, ast.Del))
                                for mod in repo.modules.values() for st in ast.walk(mod.tree)):
                out[name] = (m.params()[0], body[0].value)
    repo.__dict__["_c10_props"] = out
    return out


_FUTURE_METHODS = ("cancel", "set_result", "set_exception")


def _late_bind_collected_methods(node: ast.AST) -> bool:
    """Early binding of a Future method into a collection that is then only called element by element:
        steps = [f.cancel for f, _ in pairs]   /   [partial(f.cancel) for ..]   /   (f.cancel for ..)   /   list(f.cancel for ..)
        for step in steps: step()
    is read as the collection of the futures themselves with the method looked up at the call (`for step in steps: step.cancel()`).  A
    bound method of a Future is the same callable whenever it is looked up, `partial(m)` without further arguments calls m with
    exactly the arguments it is given, so the calls made - and their order - are the same.  Only when the local holding the
    collection is assigned once, is used for nothing but `for <name> in <local>:` loops, and each loop variable is used for nothing
    but being called."""
    changed = False
    stored: dict[str, int] = {}
    for x in ast.walk(node):
        if isinstance(x, ast.Name) and isinstance(x.ctx, (ast.Store, ast.Del)):
            stored[x.id] = stored.get(x.id, 0) + 1
    params = {a.arg for a in ast.walk(node) if isinstance(a, ast.arg)}

    def comp_of(v):
        v = strip_cast(v)
        if isinstance(v, ast.Call) and chain(v.func) in ("list", "tuple") and len(v.args) == 1 and not v.keywords:
            v = strip_cast(v.args[0])
        return v if isinstance(v, (ast.ListComp, ast.GeneratorExp)) else None

    def method_of(e):
        e = strip_cast(e)
        if isinstance(e, ast.Call) and _last(chain(e.func)) == "partial" and len(e.args) == 1 and not e.keywords and not isinstance(e.args[0], ast.Starred):
            e = strip_cast(e.args[0])
        return e if isinstance(e, ast.Attribute) and e.attr in _FUTURE_METHODS and isinstance(e.ctx, ast.Load) else None
    for st in list(walk_no_nested(node)):
        if not (isinstance(st, ast.Assign) and len(st.targets) == 1 and isinstance(st.targets[0], ast.Name)):
            continue
        xs = st.targets[0].id
        comp = comp_of(st.value)
        m = method_of(comp.elt) if comp is not None else None
        if m is None or stored.get(xs) != 1 or xs in params:
            continue
        uses = [x for x in ast.walk(node) if isinstance(x, ast.Name) and x.id == xs and isinstance(x.ctx, ast.Load)]
        loops = [l for l in walk_no_nested(node) if isinstance(l, ast.For) and isinstance(l.iter, ast.Name) and l.iter.id == xs and isinstance(l.target, ast.Name)]
        if not uses or len(uses) != len(loops) or not all(any(u is l.iter for l in loops) for u in uses):
            continue
        ok, sites = True, []
        for l in loops:
            v = l.target.id
            if stored.get(v) != 1 or v in params:
                ok = False
                break
            for u in ast.walk(node):
                if isinstance(u, ast.Name) and u.id == v and isinstance(u.ctx, ast.Load):
                    par = parent(u)
                    if isinstance(par, ast.Call) and par.func is u and any(a is l for a in ancestors(u)):
                        sites.append(par)
                    else:
                        ok = False
        if not ok or not sites:
            continue
        comp.elt = m.value
        for c in sites:
            c.func = ast.copy_location(ast.Attribute(c.func, m.attr, ast.Load()), c.func)
        changed = True
    return changed


def _inline_properties(fi: FuncInfo, node: ast.AST) -> bool:
    """`x.<new property>` -> the expression the property returns, with its self replaced by x (x a plain name, so nothing is
    evaluated twice); names bound inside that expression (comprehension variables) are kept apart from the function's own"""
    props = _new_properties(fi)
    if not props:
        return False
    taken = _names(node) | {x.arg for x in ast.walk(node) if isinstance(x, ast.arg)}
    changed = False

    class _P(ast.NodeTransformer):
        def visit_Attribute(self, n):
            nonlocal changed
            self.generic_visit(n)
            if isinstance(n.ctx, ast.Load) and n.attr in props and isinstance(n.value, ast.Name):
                me, expr = props[n.attr]
                e = clone(expr)
                bound = {x.id for x in ast.walk(e) if isinstance(x, ast.Name) and isinstance(x.ctx, ast.Store)}
                mapping = {}
                for b_ in bound:
                    new_ = b_
                    while new_ in taken:
                        new_ += "_p"
                    if new_ != b_:
                        mapping[b_] = new_
                        taken.add(new_)
                changed = True
                return ast.copy_location(_Rename(mapping, {me: n.value}).visit(e), n)
            return n
    _P().visit(node)
    return changed


def _fold_constant_tests(node: ast.AST) -> None:
    """in the tests of if / while / conditional expressions: comparisons of two literals are replaced by their value and constant
    operands of and / or are dropped (as a test, `True and X` is X) - left behind where a record's length / type became a literal"""
    def fold(t: ast.expr) -> ast.expr:
        if isinstance(t, ast.UnaryOp) and isinstance(t.op, ast.Not):
            t.operand = fold(t.operand)
            return ast.copy_location(ast.Constant(not t.operand.value), t) if isinstance(t.operand, ast.Constant) else t
        if isinstance(t, ast.Compare) and len(t.ops) == 1 and isinstance(t.left, ast.Constant) and isinstance(t.comparators[0], ast.Constant) \
                and isinstance(t.ops[0], (ast.Eq, ast.NotEq)) and type(t.left.value) is type(t.comparators[0].value):
            same = t.left.value == t.comparators[0].value
            return ast.copy_location(ast.Constant(same if isinstance(t.ops[0], ast.Eq) else not same), t)
        if isinstance(t, ast.BoolOp):
            vals = [fold(v) for v in t.values]
            is_and = isinstance(t.op, ast.And)
            out = []
            for v in vals:
                if isinstance(v, ast.Constant):
                    if bool(v.value) is is_and:
                        continue                       # neutral operand
                    out.append(v)
                    break                              # decides the test: nothing after it is evaluated
                out.append(v)
            if not out:
                return ast.copy_location(ast.Constant(is_and), t)
            if len(out) == 1:
                return out[0]
            if isinstance(out[-1], ast.Constant) and all(not expr_effects(v) for v in out[:-1]):
                return ast.copy_location(ast.Constant(not is_and), t)
            t.values = out
            return t
        return t

    def expr_effects(e: ast.expr) -> bool:
        return any(isinstance(x, (ast.Call, ast.Await, ast.NamedExpr, ast.Yield, ast.YieldFrom)) for x in ast.walk(e))
    for x in ast.walk(node):
        if isinstance(x, (ast.If, ast.While, ast.IfExp)):
            x.test = fold(x.test)


# --- dispatch tables made explicit.  `{K1: a, K2: b}.get(k, d)` with literal / Enum keys is `a if k == K1 else b if k == K2 else d`
#     (for `D[k]` the last alternative stays `D[k]`: it raises the same KeyError); a statement that calls a local bound once to such
#     a choice of callables runs the statement with the chosen callable: `if k == K1: a(x)` / `elif k == K2: b(x)` / ...  After
#     that the callables are called directly, and new helpers among them are inlined like any extracted step.
def _simple_value(e: ast.AST) -> bool:
    """evaluating e has no effect and cannot fail in a way that matters: names, attribute chains, literals, lambdas"""
    e = strip_cast(e)
    if isinstance(e, (ast.Constant, ast.Lambda)):
        return True
    while isinstance(e, ast.Attribute):
        e = e.value
    return isinstance(e, ast.Name)


_BOOL_BUILTINS = ("bool", "isinstance", "issubclass", "callable", "hasattr", "any", "all")


def _bool_test(e: ast.AST) -> ast.expr | None:
    """e certainly evaluates to True or False: the test whose truth it is (`bool(x)` -> x); None when e may hold anything else"""
    e0 = e
    while isinstance(e0, ast.Call) and chain(e0.func) == "bool" and len(e0.args) == 1 and not e0.keywords and not isinstance(e0.args[0], ast.Starred):
        return e0.args[0]
    if isinstance(e, ast.UnaryOp) and isinstance(e.op, ast.Not):
        return e
    if isinstance(e, ast.Compare) and all(isinstance(o, (ast.Is, ast.IsNot, ast.In, ast.NotIn)) for o in e.ops):
        return e
    if isinstance(e, ast.Call) and chain(e.func) in _BOOL_BUILTINS and not any(isinstance(a, ast.Starred) for a in e.args):
        return e
    if isinstance(e, ast.BoolOp) and all(_bool_test(v) is not None for v in e.values):
        return e
    return None


def _bool_choice(fi: FuncInfo, table, key, rest, e: ast.AST) -> ast.expr | None:
    """`{True: A, False: B}[<bool>]` and `(B, A)[<bool>]` (a subscript, no default): the conditional expression `A if <test> else B`.
    The subscript is a value that is certainly True or False, so exactly one of the two entries is picked and no KeyError /
    IndexError can happen; the entries are plain values (evaluating both, as the display does, has no effect)."""
    if rest is not e or key is None:
        return None
    t = _bool_test(key)
    if t is None:
        return None
    a = b = None
    if isinstance(table, ast.Dict) and len(table.keys) == 2 and all(isinstance(k, ast.Constant) and isinstance(k.value, bool) for k in table.keys) \
            and table.keys[0].value != table.keys[1].value:
        a, b = (table.values[0], table.values[1]) if table.keys[0].value is True else (table.values[1], table.values[0])
    elif isinstance(table, (ast.Tuple, ast.List)) and len(table.elts) == 2 and not any(isinstance(x, ast.Starred) for x in table.elts):
        b, a = table.elts
    if a is None or not (_simple_value(a) and _simple_value(b)):
        return None
    return ast.fix_missing_locations(ast.copy_location(ast.IfExp(clone(t), clone(a), clone(b)), e))


def _choice_of(fi: FuncInfo, e: ast.AST) -> ast.expr | None:
    """the conditional expression a lookup in a dict display with self-identifying keys stands for; None if e is no such lookup"""
    e = strip_cast(e)
    table, key, rest = None, None, None
    if isinstance(e, ast.Subscript) and isinstance(e.ctx, ast.Load):
        table, key, rest = strip_cast(resolve(fi, e.value)), e.slice, e
    elif isinstance(e, ast.Call) and isinstance(e.func, ast.Attribute) and e.func.attr == "get" and 1 <= len(e.args) <= 2 and not e.keywords \
            and not any(isinstance(a, ast.Starred) for a in e.args):
        table, key = strip_cast(resolve(fi, e.func.value)), e.args[0]
        rest = e.args[1] if len(e.args) == 2 else ast.Constant(None)
    b = _bool_choice(fi, table, key, rest, e)
    if b is not None:
        return b
    if not (isinstance(table, ast.Dict) and table.keys and all(k is not None for k in table.keys) and isinstance(strip_cast(key), ast.Name)):
        return None
    ks = [_kconst(fi, k) for k in table.keys]
    if any(k is NOCONST for k in ks) or len({type(k) for k in ks}) != 1 or len(set(ks)) != len(ks) or isinstance(ks[0], (bool, float)):
        return None
    if not all(_simple_value(v) for v in table.values) or not (rest is e or _simple_value(rest)):
        return None
    out: ast.expr = clone(rest)
    for k, v in reversed(list(zip(table.keys, table.values))):
        out = ast.IfExp(ast.Compare(clone(strip_cast(key)), [ast.Eq()], [clone(k)]), clone(v), out)
    return ast.fix_missing_locations(ast.copy_location(out, e))


def _devirtualise(fi: FuncInfo, node: ast.AST) -> bool:
    tmp = FuncInfo(fi.name, fi.qualname, node, fi.module, fi.cls)
    changed = False

    # A. every lookup in a literal dispatch table becomes the conditional expression it stands for
    class _Lookups(ast.NodeTransformer):
        def generic(self, n):
            nonlocal changed
            n = self.generic_visit(n)
            c = _choice_of(tmp, n)
            if c is not None:
                changed = True
                return c
            return n
        visit_Subscript = generic
        visit_Call = generic

        def visit_FunctionDef(self, n):
            return n if n is not node else self.generic_visit(n)
        visit_AsyncFunctionDef = visit_FunctionDef
        visit_Lambda = visit_FunctionDef
    _Lookups().visit(node)
    if not changed and not any(isinstance(x, ast.IfExp) for x in walk_no_nested(node)):
        return False
    set_parents(node)
    tmp = FuncInfo(fi.name, fi.qualname, node, fi.module, fi.cls)
    params = set(tmp.params())

    def known_object(v: ast.expr) -> bool:
        """v is certainly an object that is not None and is truthy: a lambda, a method of the class taken from self"""
        v = strip_cast(v)
        return isinstance(v, ast.Lambda) or (isinstance(v, ast.Attribute) and isinstance(v.value, ast.Name) and v.value.id == "self"
                                             and fi.cls is not None and fi.cls.lookup(v.attr) is not None)

    def as_test(v: ast.expr, leaf) -> ast.expr | None:
        """the truth of `leaf(<chosen alternative>)` as a test over the choice's own conditions"""
        v = strip_cast(v)
        if isinstance(v, ast.IfExp):
            a, b = as_test(v.body, leaf), as_test(v.orelse, leaf)
            if a is None or b is None:
                return None
            return ast.BoolOp(ast.Or(), [ast.BoolOp(ast.And(), [clone(v.test), a]), ast.BoolOp(ast.And(), [ast.UnaryOp(ast.Not(), clone(v.test)), b])])
        r = leaf(v)
        return None if r is None else ast.Constant(r)

    def truthy(v):
        return True if known_object(v) else (bool(v.value) if isinstance(v, ast.Constant) else None)

    def not_none(v):
        return True if known_object(v) else (v.value is not None if isinstance(v, ast.Constant) else None)

    def test_of(t: ast.expr) -> ast.expr:
        if isinstance(t, ast.UnaryOp) and isinstance(t.op, ast.Not):
            t.operand = test_of(t.operand)
            return t
        if isinstance(t, ast.BoolOp):
            t.values = [test_of(x) for x in t.values]
            return t
        r = None
        if isinstance(strip_cast(t), ast.IfExp):
            r = as_test(t, truthy)
        elif isinstance(t, ast.Compare) and len(t.ops) == 1 and isinstance(t.ops[0], (ast.Is, ast.IsNot)) and _is_none(t.comparators[0]) \
                and isinstance(strip_cast(t.left), ast.IfExp):
            r = as_test(t.left, not_none)
            if r is not None and isinstance(t.ops[0], ast.Is):
                r = ast.UnaryOp(ast.Not(), r)
        if r is None:
            return t
        nonlocal changed
        changed = True
        return ast.fix_missing_locations(ast.copy_location(r, t))
    for x in list(walk_no_nested(node)):
        if isinstance(x, (ast.If, ast.While)):
            x.test = test_of(x.test)
    _fold_constant_tests(node)
    set_parents(node)
    tmp = FuncInfo(fi.name, fi.qualname, node, fi.module, fi.cls)

    def stable(t: ast.expr) -> bool:
        # re-evaluating the test where the callable is used gives what it gave where the callable was chosen
        for x in ast.walk(t):
            if isinstance(x, (ast.Call, ast.Await, ast.NamedExpr, ast.Subscript)):
                return False
            if isinstance(x, ast.Attribute) and _kconst(tmp, x) is NOCONST and not (isinstance(parent(x), ast.Attribute)):
                return False
            if isinstance(x, ast.Name) and isinstance(x.ctx, ast.Load) and not (isinstance(parent(x), ast.Attribute) and _kconst(tmp, parent(x)) is not NOCONST):
                d = local_defs(tmp, x.id)
                if (x.id in params and d) or (x.id not in params and len(d) > 1):
                    return False
        return True

    def fn(st):
        val = st.value if isinstance(st, (ast.Expr, ast.Return)) or (isinstance(st, ast.Assign) and len(st.targets) == 1) else None
        call = strip_cast(val) if val is not None else None
        if not isinstance(call, ast.Call):
            return None
        choice, in_place = None, False
        if isinstance(strip_cast(call.func), ast.IfExp):
            choice, in_place = strip_cast(call.func), True          # chosen right where it is called
        elif isinstance(call.func, ast.Name) and call.func.id not in params:
            d = local_defs(tmp, call.func.id)
            if len(d) == 1 and d[0][1] is not None and d[0][2] is None and isinstance(strip_cast(d[0][1]), ast.IfExp):
                choice = strip_cast(d[0][1])
        if choice is None:
            return None
        leaves = [0]

        def ok(v) -> bool:
            v = strip_cast(v)
            if isinstance(v, ast.IfExp):
                return (in_place or stable(v.test)) and not any(isinstance(x, (ast.Await, ast.NamedExpr)) or (isinstance(x, ast.Call) and not (
                    in_place and chain(x.func) in _BOOL_BUILTINS + ("len",))) for x in ast.walk(v.test)) \
                    and ok(v.body) and ok(v.orelse)
            leaves[0] += 1
            return _simple_value(v)
        if not ok(choice) or leaves[0] > 6:
            return None

        def tree(v: ast.expr) -> list:
            v = strip_cast(v)
            if isinstance(v, ast.IfExp):
                return [ast.copy_location(ast.If(clone(v.test), tree(v.body), tree(v.orelse)), st)]
            if _is_none(v):
                return [ast.copy_location(ast.Raise(ast.Call(ast.Name("TypeError", ast.Load()), [], []), None), st)]
            new_st = clone(st)
            for x in ast.walk(new_st):
                if isinstance(x, ast.Call) and norm(x.func) == norm(call.func):
                    x.func = clone(v)
                    break
            return [new_st]
        return tree(choice)
    if _rewrite_blocks(node, fn):
        changed = True
    return changed


def _desugar_matches(fi: FuncInfo, node: ast.AST) -> bool:
    """`match <call>:` left by the load-time pass (it only rewrites matches on plain names / tuple displays): the subject is bound to a
    fresh local first, then every case becomes the test Python makes for it - a fixed-length sequence pattern is `it is a sequence of
    that length` plus the tests of its positions, the rest as in sa.normalize.  First matching case wins, no case = fall through."""
    try:
        from ..normalize import _named_fields, _pattern
    except Exception:  # noqa: BLE001
        return False
    if not any(isinstance(x, ast.Match) for x in walk_no_nested(node)):
        return False
    fields = _named_fields(fi.module.tree)
    taken = _names(node) | {x.arg for x in ast.walk(node) if isinstance(x, ast.arg)}
    changed = False

    def conv(pat, subj):
        if isinstance(pat, ast.MatchSequence) and not any(isinstance(q, ast.MatchStar) for q in pat.patterns) and isinstance(subj, (ast.Name, ast.Subscript)):
            conds = [ast.Call(ast.Name("_is_sequence", ast.Load()), [clone(subj)], []),
                     ast.Compare(ast.Call(ast.Name("len", ast.Load()), [clone(subj)], []), [ast.Eq()], [ast.Constant(len(pat.patterns))])]
            caps = []
            for i, q in enumerate(pat.patterns):
                r = conv(q, ast.Subscript(clone(subj), ast.Constant(i), ast.Load()))
                if r is None:
                    return None
                if r[0] is not None:
                    conds.append(r[0])
                caps += r[1]
            return ast.BoolOp(ast.And(), conds), caps
        if isinstance(pat, ast.MatchAs) and pat.pattern is not None:
            r = conv(pat.pattern, subj)
            return None if r is None else (r[0], r[1] + ([(pat.name, clone(subj))] if pat.name else []))
        if isinstance(pat, ast.MatchOr):
            rs = [conv(q, subj) for q in pat.patterns]
            if any(r is None or r[1] for r in rs):
                return None
            if any(r[0] is None for r in rs):
                return None, []
            return ast.BoolOp(ast.Or(), [r[0] for r in rs]), []
        return _pattern(pat, subj, fields)

    def fn(st):
        nonlocal changed
        if not isinstance(st, ast.Match):
            return None
        pre, subj = [], st.subject
        if not isinstance(subj, ast.Name):
            v = "match_subject"
            while v in taken:
                v += "_"
            taken.add(v)
            pre = [ast.copy_location(ast.Assign([ast.Name(v, ast.Store())], subj), st)]
            subj = ast.Name(v, ast.Load())
        arms = []
        for c in st.cases:
            r = conv(c.pattern, subj)
            if r is None or (c.guard is not None and r[1]):
                return None
            cond, caps = r
            if c.guard is not None:
                cond = c.guard if cond is None else ast.BoolOp(ast.And(), [cond, c.guard])
            arms.append((cond, [ast.copy_location(ast.Assign([ast.Name(k, ast.Store())], e), c.body[0]) for k, e in caps] + c.body))
        chain_: list = []
        for cond, body in reversed(arms):
            chain_ = body if cond is None else [ast.copy_location(ast.If(cond, body, chain_), st)]
        changed = True
        return pre + chain_
    for _ in range(3):
        if not _rewrite_blocks(node, fn):
            break
    return changed


def _is_new(repo, t: FuncInfo) -> bool:
    """t is not part of the reviewed code: its qualified name is not in the frozen table of its file, or its file did not exist"""
    import os
    try:
        from ..localnames import load_table
        tables = load_table()
    except Exception:  # noqa: BLE001
        return False
    table = tables.get(t.module.relpath)
    if table is not None:
        return t.qualname not in table
    return not os.path.exists(os.path.join(getattr(repo, "root", "/repo"), t.module.relpath))


def _module_binding(m, name: str):
    """what a module-level name stands for in module m: its own definition, or the definition it imports; None when m does not bind it"""
    if name in m.classes or name in m.functions or name in m.constants:
        return ("def", m.name, name)
    if name in m.imports:
        mod, attr = m.imports[name]
        return ("mod", mod) if attr is None else ("def", mod, attr)
    return None


def _names_agree(m1, m2, fn: ast.AST) -> bool:
    """the body of fn (written for module m2) reads the same when it stands in module m1: every global name it uses is bound to the
    same definition in both modules, or is not bound in m1 at all (then it is merely unknown there, never mistaken for something else)"""
    import builtins
    if m1 is m2:
        return True
    a = fn.args
    bound = {x.arg for x in a.posonlyargs + a.args + a.kwonlyargs} | ({a.vararg.arg} if a.vararg else set()) | ({a.kwarg.arg} if a.kwarg else set())
    bound |= {x.id for st in fn.body for x in ast.walk(st) if isinstance(x, ast.Name) and isinstance(x.ctx, (ast.Store, ast.Del))}
    bound |= {x.name for st in fn.body for x in ast.walk(st) if isinstance(x, ast.ExceptHandler) and x.name}
    for st in fn.body:
        for x in ast.walk(st):
            if not (isinstance(x, ast.Name) and isinstance(x.ctx, ast.Load)) or x.id in bound:
                continue
            b1, b2 = _module_binding(m1, x.id), _module_binding(m2, x.id)
            if b1 == b2 or (b1 is None and not hasattr(builtins, x.id)):
                continue
            return False
    return True


def _foreign_helpers(fi: FuncInfo, node: ast.AST, origin: ast.AST) -> tuple[list, list]:
    """NEW helpers that node calls but that live outside fi's own file / class - a function imported by name from another (possibly
    new) module, a method of a base class or mixin that fi's class inherits unchanged: (copies of the functions under the name the
    caller uses, copies of the methods).  Calling them runs their body with the parameters bound, wherever the text is kept."""
    repo = _REPO[0]
    if repo is None:
        return [], []
    funcs: dict[str, ast.AST] = {}
    meths: dict[str, ast.AST] = {}
    own = {x.id for x in ast.walk(node) if isinstance(x, ast.Name) and isinstance(x.ctx, (ast.Store, ast.Del))} | {x.arg for x in ast.walk(node) if isinstance(x, ast.arg)}
    todo = [node]
    for _ in range(4):
        nxt = []
        for n in todo:
            for c in (x for x in ast.walk(n) if isinstance(x, ast.Call)):
                f = c.func
                if isinstance(f, ast.Name) and f.id not in funcs and f.id not in own and f.id not in fi.module.functions and f.id in fi.module.imports:
                    t = repo.resolve_name(fi.module, f.id)
                    if isinstance(t, FuncInfo) and t.cls is None and t.module is not fi.module and t.module.functions.get(t.name) is t \
                            and t.node is not origin and _is_new(repo, t) and _names_agree(fi.module, t.module, t.node):
                        d = clone(t.node)
                        d.name = f.id
                        funcs[f.id] = d
                        nxt.append(d)
                elif isinstance(f, ast.Attribute) and isinstance(f.value, ast.Name) and f.value.id in ("self", "cls") and fi.cls is not None \
                        and f.attr not in meths and f.attr not in fi.cls.methods:
                    t = fi.cls.lookup(f.attr)
                    if t is None or t.cls is None or t.cls is fi.cls or t.node is origin or not _is_new(repo, t):
                        continue
                    # an overridable hook does not denote this one body
                    if sum(1 for k in repo.all_classes() if f.attr in k.methods) != 1 or not _names_agree(fi.module, t.module, t.node):
                        continue
                    d = clone(t.node)
                    meths[f.attr] = d
                    nxt.append(d)
        todo = nxt
        if not todo:
            break
    return list(funcs.values()), list(meths.values())


def _lift_tail_with_return(fn: ast.AST) -> None:
    """`with A: S; return E` as the last statement of a helper (a private copy) -> `with A: S; r = E` / `return r`: the value is
    computed at the same place, the with-block is left the same way and the function then returns it.  (For a context manager
    that is not a lock, `r = None` is bound first: had the manager swallowed an exception, the function would have returned None.)
    The engine's inliner only turns returns into assignments when they are not inside a with-block."""
    if not fn.body or not isinstance(fn.body[-1], (ast.With, ast.AsyncWith)):
        return
    w = fn.body[-1]
    inner = w
    while len(inner.body) == 1 and isinstance(inner.body[0], (ast.With, ast.AsyncWith)):
        inner = inner.body[0]
    last = inner.body[-1]
    if not (isinstance(last, ast.Return) and last.value is not None):
        return
    if any(isinstance(x, ast.Return) and x is not last for st in fn.body for x in _walk_stmt_no_nested(st)):
        return
    taken = _names(fn) | {x.arg for x in ast.walk(fn) if isinstance(x, ast.arg)}
    v = "result_w"
    while v in taken:
        v += "_"
    inner.body[-1] = ast.copy_location(ast.Assign([ast.Name(v, ast.Store())], last.value), last)
    cur, locks = w, True
    while True:
        locks = locks and all((chain(i.context_expr) or "").lower().endswith("lock") for i in cur.items)
        if cur is inner:
            break
        cur = cur.body[0]
    pre = [] if locks else [ast.copy_location(ast.Assign([ast.Name(v, ast.Store())], ast.Constant(None)), w)]
    fn.body = fn.body[:-1] + pre + [w, ast.copy_location(ast.Return(ast.Name(v, ast.Load())), last)]
    ast.fix_missing_locations(fn)


def _walk_stmt_no_nested(st: ast.AST):
    yield st
    for ch in ast.iter_child_nodes(st):
        if isinstance(ch, (ast.FunctionDef, ast.AsyncFunctionDef, ast.ClassDef, ast.Lambda)):
            continue
        yield from _walk_stmt_no_nested(ch)


def _inline_new_helpers(fi: FuncInfo, node: ast.AST, only_if_foreign: bool = False) -> bool:
    """Run the engine's own helper inlining (sa.normalize, the pass applied to every module at load time) once more on the private
    copy `node`: after `map(self._helper, xs)` / `partial(..)` pipelines have been written as loops with a direct call, a NEW helper
    that could not be inlined at load time (it was referenced as a value, not called) is an ordinary extracted step.  So is a NEW
    helper that the load-time pass does not see because it is kept in another file (a new private module, the base class)."""
    try:
        from ..localnames import load_table
        from ..normalize import inline_new_helpers
        table = load_table().get(fi.module.relpath)
    except Exception:  # noqa: BLE001
        return False
    origin = node.__dict__.get("_c10_origin", fi.node)
    ffuncs, fmeths = _foreign_helpers(fi, node, origin)
    if (not table or only_if_foreign) and not ffuncs and not fmeths:
        return False
    known = set(table or ())
    cls = fi.cls.name if fi.cls is not None else None
    wanted = bool(ffuncs or fmeths)
    for c in calls(node):
        f = c.func
        if isinstance(f, ast.Name) and f.id in fi.module.functions and f.id not in known:
            wanted = True
        elif isinstance(f, ast.Attribute) and isinstance(f.value, ast.Name) and cls is not None and f.value.id in ("self", "cls", cls) \
                and f.attr in fi.cls.methods and f"{cls}.{f.attr}" not in known:
            wanted = True
    if not wanted:
        return False
    body: list = [clone(g.node) for g in fi.module.functions.values() if g.name not in known and g.node is not origin] if table else []
    body += ffuncs
    if cls is not None:
        hooks = {n for k in (_REPO[0].all_classes() if _REPO[0] is not None else ()) if k is not fi.cls for n in k.methods}
        members = [clone(m.node) for m in fi.cls.methods.values()
                   if f"{cls}.{m.name}" not in known and m.node is not origin and m.name not in hooks] if table else []
        body.append(ast.ClassDef(cls, [], [], members + fmeths + [node], []))
    else:
        body.append(node)
    for d in body:
        for h in (d.body if isinstance(d, ast.ClassDef) else [d]):
            if isinstance(h, (ast.FunctionDef, ast.AsyncFunctionDef)) and h is not node:
                _lift_tail_with_return(h)
    mod = ast.fix_missing_locations(ast.Module(body, []))
    try:
        return inline_new_helpers(mod, known, set()) > 0
    except Exception:  # noqa: BLE001
        return False


# --- decorated functions made explicit.  `@d` / `@d(args)` with a NEW private decorator whose definition does nothing but define and
#     return a wrapper makes the decorated name denote that wrapper, with the wrapper's call of its parameter (`method(self, ..)`)
#     standing for the decorated body.  Wrapper and body are read as the one function they run as: a guard, a lock or a conversion kept in
#     the decorator is then part of the function the rules examine (and so is anything harmful a decorator does).
_PLAIN_DECORATORS = ("staticmethod", "classmethod", "property", "overload", "abstractmethod", "contextmanager", "asynccontextmanager", "wraps", "task")


def _returned_def(fn: ast.AST) -> ast.AST | None:
    """fn's body is (docstring,) one nested def, `return <that def>` (possibly through cast(..)): the def"""
    body = [x for i, x in enumerate(fn.body) if not (i == 0 and isinstance(x, ast.Expr) and isinstance(x.value, ast.Constant) and isinstance(x.value.value, str))]
    if len(body) != 2 or not isinstance(body[0], (ast.FunctionDef, ast.AsyncFunctionDef)) or not isinstance(body[1], ast.Return) or body[1].value is None:
        return None
    v = strip_cast(body[1].value)
    return body[0] if isinstance(v, ast.Name) and v.id == body[0].name else None


def _compose_decorated(fi: FuncInfo, node: ast.AST) -> ast.AST | None:
    """the function `node` (a private copy of fi.node) runs as, when it carries one NEW private decorator: the decorator's wrapper with
    the decorated body inlined at the wrapper's call of it; None when there is no such decorator or the shape is not understood"""
    repo = _REPO[0]
    if repo is None or not getattr(node, "decorator_list", None):
        return None
    from ..normalize import inline_new_helpers
    new_decs = []
    for d in node.decorator_list:
        f = d.func if isinstance(d, ast.Call) else d
        if isinstance(f, ast.Name) and _last(f.id) not in _PLAIN_DECORATORS:
            t = repo.resolve_name(fi.module, f.id)
            if isinstance(t, FuncInfo) and t.cls is None and t.module.functions.get(t.name) is t and _is_new(repo, t):
                new_decs.append((d, t))
    if len(new_decs) != 1 or len(node.decorator_list) != 1:
        return None
    d, t = new_decs[0]
    if not _names_agree(fi.module, t.module, t.node):
        return None
    outer = clone(t.node)
    subst: dict[str, ast.AST] = {}
    if isinstance(d, ast.Call):
        # @d(args): d(args) returns the real decorator
        b = _bind_call(d, t)
        inner = _returned_def(outer)
        if b is None or inner is None or outer.args.vararg or outer.args.kwarg or isinstance(inner, ast.AsyncFunctionDef):
            return None
        a = outer.args
        allp = a.posonlyargs + a.args
        for p_, dv in zip(allp[len(allp) - len(a.defaults):], a.defaults):
            b.setdefault(p_.arg, dv)
        for p_, dv in zip(a.kwonlyargs, a.kw_defaults):
            if dv is not None:
                b.setdefault(p_.arg, dv)
        if set(b) != {x.arg for x in allp + a.kwonlyargs} or not all(_simple_value(v) and not isinstance(strip_cast(v), ast.Lambda) for v in b.values()):
            return None
        stored = {x.id for x in ast.walk(inner) if isinstance(x, ast.Name) and isinstance(x.ctx, (ast.Store, ast.Del))} | {x.arg for x in ast.walk(inner) if isinstance(x, ast.arg)}
        if stored & set(b):
            return None
        subst = dict(b)
        outer = inner
    wrapper = _returned_def(outer)
    oa = outer.args
    if wrapper is None or len(oa.posonlyargs + oa.args) != 1 or oa.vararg or oa.kwarg or oa.kwonlyargs:
        return None
    if isinstance(wrapper, ast.AsyncFunctionDef) != isinstance(node, ast.AsyncFunctionDef):
        return None
    meth = (oa.posonlyargs + oa.args)[0].arg
    # the wrapper may only mention the decorated function to call it (and in @wraps(..))
    wrapper.decorator_list = [x for x in wrapper.decorator_list
                              if not (isinstance(x, ast.Call) and _last(chain(x.func)) == "wraps" and len(x.args) == 1 and isinstance(x.args[0], ast.Name) and x.args[0].id == meth)]
    if wrapper.decorator_list:
        return None
    mcalls = [c for c in ast.walk(wrapper) if isinstance(c, ast.Call) and isinstance(c.func, ast.Name) and c.func.id == meth]
    callee_ids = {id(c.func) for c in mcalls}
    if not mcalls or any(isinstance(x, ast.Name) and x.id == meth and id(x) not in callee_ids for x in ast.walk(wrapper)) \
            or any(isinstance(x, ast.arg) and x.arg == meth for x in ast.walk(wrapper)):
        return None
    if any(isinstance(x, (ast.FunctionDef, ast.AsyncFunctionDef, ast.Lambda, ast.ClassDef)) and x is not wrapper for x in ast.walk(wrapper)):
        return None
    wa, na = wrapper.args, node.args
    wpos = wa.posonlyargs + wa.args
    npos = na.posonlyargs + na.args
    is_method = fi.cls is not None and "staticmethod" not in fi.decorator_names()
    if is_method and (not wpos or not npos):
        return None
    if wa.vararg or wa.kwarg:
        # (self, *args, **kwargs) handing everything on unchanged: the wrapper takes what the decorated function takes
        va, kw = (wa.vararg.arg if wa.vararg else None), (wa.kwarg.arg if wa.kwarg else None)
        if len(wpos) != (1 if is_method else 0) or wa.kwonlyargs or na.vararg or na.kwarg or na.posonlyargs:
            return None
        rest = npos[1:] if is_method else npos
        taken = _names(wrapper) | {x.arg for x in ast.walk(wrapper) if isinstance(x, ast.arg)}
        if any(x.arg in taken for x in rest + na.kwonlyargs):
            return None
        for c in mcalls:
            lead = c.args[:len(wpos)]
            tail = c.args[len(wpos):]
            ok = len(lead) == len(wpos) and all(isinstance(x, ast.Name) and x.id == q.arg for x, q in zip(lead, wpos))
            ok = ok and (len(tail) == (1 if va else 0)) and all(isinstance(x, ast.Starred) and isinstance(x.value, ast.Name) and x.value.id == va for x in tail)
            ok = ok and (len(c.keywords) == (1 if kw else 0)) and all(k.arg is None and isinstance(k.value, ast.Name) and k.value.id == kw for k in c.keywords)
            if not ok:
                return None
        used = [x for x in ast.walk(wrapper) if isinstance(x, ast.Name) and x.id in (va, kw)]
        if len(used) != len(mcalls) * ((1 if va else 0) + (1 if kw else 0)):
            return None
        for c in mcalls:
            c.args = c.args[:len(wpos)] + [ast.Name(x.arg, ast.Load()) for x in rest]
            c.keywords = [ast.keyword(x.arg, ast.Name(x.arg, ast.Load())) for x in na.kwonlyargs]
        wrapper.args = ast.arguments([], wpos + [clone(x) for x in rest], None, [clone(x) for x in na.kwonlyargs], [clone(x) if x is not None else None for x in na.kw_defaults],
                                     None, [clone(x) for x in na.defaults[max(0, len(na.defaults) - len(rest)):]])
    elif [x.arg for x in wpos[1 if is_method else 0:]] != [x.arg for x in npos[1 if is_method else 0:]] or [x.arg for x in wa.kwonlyargs] != [x.arg for x in na.kwonlyargs]:
        return None          # a wrapper with another signature than the function it wraps: the rules' reading of the parameters would not hold
    if subst:
        wrapper = _Rename({}, subst).visit(wrapper)
    body_name = f"{node.name}_decorated_"
    recv = wpos[0].arg if is_method else None
    if is_method and recv != "self":
        if "self" in _names(wrapper):
            return None
        wrapper = _Rename({recv: "self"}).visit(wrapper)
        for x in ast.walk(wrapper):
            if isinstance(x, ast.arg) and x.arg == recv:
                x.arg = "self"
        recv = "self"
    for c in [c for c in ast.walk(wrapper) if isinstance(c, ast.Call) and isinstance(c.func, ast.Name) and c.func.id == meth]:
        if is_method:
            if not (c.args and isinstance(c.args[0], ast.Name) and c.args[0].id == recv):
                return None
            c.func = ast.Attribute(ast.Name(recv, ast.Load()), body_name, ast.Load())
            c.args = c.args[1:]
        else:
            c.func = ast.Name(body_name, ast.Load())
    body_fn = node
    body_fn.decorator_list = [x for x in body_fn.decorator_list if x is not d]
    body_fn.name = body_name
    wrapper.name = fi.name
    wrapper.returns = None
    if is_method:
        mod = ast.Module([ast.ClassDef(fi.cls.name, [], [], [body_fn, wrapper], [])], [])
        known = {f"{fi.cls.name}.{fi.name}"}
    else:
        mod = ast.Module([body_fn, wrapper], [])
        known = {fi.name}
    ast.fix_missing_locations(mod)
    try:
        n = inline_new_helpers(mod, known, set())
    except Exception:  # noqa: BLE001
        return None
    if not n or any(isinstance(x, (ast.Name, ast.Attribute)) and (getattr(x, "id", None) == body_name or getattr(x, "attr", None) == body_name) for x in ast.walk(wrapper)):
        return None
    return wrapper


# --- private context managers made explicit.  `with K(args) [as v]: BODY` with a NEW private manager (a class with __enter__ /
#     __exit__ whose construction only stores its arguments, or a @contextmanager generator with one yield) runs the manager's
#     own code around BODY: the enter part, BODY inside `try`, and the exit part as the `except` / `else` / `finally` clauses it
#     amounts to - `__exit__` read once for "an exception arrived" (exc_type is type(e), never None; returning something false
#     is `raise`, something true leaves the handler) and once for "BODY ended normally" (all three parameters are None).  A
#     guard `if not issubclass(exc_type, T): return False` in front is the clause `except T`.  A new manager that cannot be
#     written out this way is undecided: it may swallow exceptions, which every path question of these rules depends on.
_CM_EXC = "exc_cm_"


class _GiveUp(Exception):
    pass


def _cm_fold(t: ast.expr) -> ast.expr:
    """t, used for its truth value only, with the parts decided by the scenario folded (exact: `None is None`, `type(e) is None`,
    constant operands of not / and / or)"""
    if isinstance(t, ast.UnaryOp) and isinstance(t.op, ast.Not):
        t.operand = _cm_fold(t.operand)
        return ast.copy_location(ast.Constant(not t.operand.value), t) if isinstance(t.operand, ast.Constant) else t
    if isinstance(t, ast.Compare) and len(t.ops) == 1 and isinstance(t.ops[0], (ast.Is, ast.IsNot)):
        a, b = t.left, t.comparators[0]
        res = None
        if isinstance(a, ast.Constant) and isinstance(b, ast.Constant) and all(x.value is None or isinstance(x.value, bool) for x in (a, b)):
            res = a.value is b.value
        elif (getattr(a, "_c10_notnone", False) and _is_none(b)) or (getattr(b, "_c10_notnone", False) and _is_none(a)):
            res = False
        if res is not None:
            return ast.copy_location(ast.Constant(res if isinstance(t.ops[0], ast.Is) else not res), t)
        return t
    if getattr(t, "_c10_truthy", False):
        return ast.copy_location(ast.Constant(True), t)
    if isinstance(t, ast.Call) and chain(t.func) == "isinstance" and len(t.args) == 2 and not t.keywords and _is_none(t.args[0]):
        import builtins
        kinds = t.args[1].elts if isinstance(t.args[1], ast.Tuple) else [t.args[1]]
        if all(isinstance(k_, ast.Name) and isinstance(getattr(builtins, k_.id, None), type) and issubclass(getattr(builtins, k_.id), BaseException) for k_ in kinds):
            return ast.copy_location(ast.Constant(False), t)       # None is not an instance of an exception class
    if isinstance(t, ast.Constant) and t.value is None:
        return ast.copy_location(ast.Constant(False), t)
    if isinstance(t, ast.Call) and chain(t.func) == "bool" and len(t.args) == 1 and not t.keywords:
        inner = _cm_fold(t.args[0])
        return inner if isinstance(inner, ast.Constant) else t
    if isinstance(t, ast.BoolOp):
        vals = [_cm_fold(v) for v in t.values]
        is_and = isinstance(t.op, ast.And)
        out = []
        for v in vals:
            if isinstance(v, ast.Constant):
                if bool(v.value) is is_and:
                    continue
                out.append(v)
                break
            out.append(v)
        if not out:
            return ast.copy_location(ast.Constant(is_and), t)
        if len(out) == 1:
            return out[0]
        t.values = out
        return t
    return t


def _cm_escapes(body: list, in_loop: bool = False) -> bool:
    """BODY can leave the with-statement by return / break / continue"""
    for st in body:
        if isinstance(st, ast.Return) or (isinstance(st, (ast.Break, ast.Continue)) and not in_loop):
            return True
        if isinstance(st, (ast.FunctionDef, ast.AsyncFunctionDef, ast.ClassDef)):
            continue
        loop = isinstance(st, (ast.For, ast.AsyncFor, ast.While))
        for field in ("body", "orelse", "finalbody"):
            blk = getattr(st, field, None)
            if isinstance(blk, list) and blk and isinstance(blk[0], ast.stmt) and _cm_escapes(blk, in_loop or (loop and field == "body")):
                return True
        if any(_cm_escapes(h.body, in_loop) for h in getattr(st, "handlers", [])) or any(_cm_escapes(c.body, in_loop) for c in getattr(st, "cases", [])):
            return True
    return False


def _cm_conv(stmts: list, mode: str) -> list:
    """the statements of an __exit__ body (already specialised for the scenario) without `return`: in scenario "exc" a false
    result is a bare `raise` (the exception goes on), a true one ends the handler; in scenario "norm" the result is ignored"""
    out: list = []
    for i, st in enumerate(stmts):
        if isinstance(st, ast.Return):
            v = _cm_fold(st.value) if st.value is not None else ast.Constant(None)
            effects = any(isinstance(x, (ast.Call, ast.Await, ast.NamedExpr)) for x in ast.walk(v))
            if mode == "norm":
                return out + ([ast.copy_location(ast.Expr(v), st)] if effects else [])
            if isinstance(v, ast.Constant):
                return out + ([] if v.value else [ast.copy_location(ast.Raise(None, None), st)])
            return out + [ast.copy_location(ast.If(ast.UnaryOp(ast.Not(), v), [ast.copy_location(ast.Raise(None, None), st)], []), st)]
        if isinstance(st, ast.If):
            st.test = _cm_fold(st.test)
            rest = stmts[i + 1:]
            if isinstance(st.test, ast.Constant):
                return out + _cm_conv((st.body if st.test.value else st.orelse) + rest, mode)
            if not any(isinstance(x, ast.Return) for s in st.body + st.orelse for x in _walk_stmt_no_nested(s)):
                for x in ast.walk(st):
                    if isinstance(x, (ast.If, ast.While, ast.IfExp)):
                        x.test = _cm_fold(x.test)
                out.append(st)
                continue
            b = _cm_conv(st.body + [clone(x) for x in rest], mode)
            o = _cm_conv(st.orelse + rest, mode)
            if not b and not o:
                if any(isinstance(x, (ast.Call, ast.Await, ast.NamedExpr)) for x in ast.walk(st.test)):
                    out.append(ast.copy_location(ast.Expr(st.test), st))
                return out
            if not b:
                b, o, st.test = o, [], _cm_fold(ast.copy_location(ast.UnaryOp(ast.Not(), st.test), st.test))
            return out + [ast.copy_location(ast.If(st.test, b, o), st)]
        if any(isinstance(x, ast.Return) for x in _walk_stmt_no_nested(st)):
            raise _GiveUp("return inside a loop / try / with of __exit__")
        if isinstance(st, ast.Expr) and isinstance(st.value, ast.Constant):
            continue
        if isinstance(st, ast.Pass):
            continue
        out.append(st)
    if mode == "exc":
        out.append(ast.Raise(None, None))          # falling off the end returns None: the exception goes on
    return out


def _cm_isinstance(t: ast.expr) -> tuple[ast.expr, bool] | None:
    """t is `isinstance(<the caught exception>, T)` or its negation -> (T, polarity)"""
    pol = True
    while isinstance(t, ast.UnaryOp) and isinstance(t.op, ast.Not):
        t, pol = t.operand, not pol
    if isinstance(t, ast.Call) and chain(t.func) == "isinstance" and len(t.args) == 2 and not t.keywords \
            and isinstance(t.args[0], ast.Name) and t.args[0].id.startswith(_CM_EXC):
        return t.args[1], pol
    return None


def _cm_is_reraise(stmts: list) -> bool:
    return len(stmts) == 1 and isinstance(stmts[0], ast.Raise) and stmts[0].exc is None


def _cm_stable_args(node: ast.AST, w: ast.With, exprs: list) -> bool:
    """each expression denotes the same object when the with-statement is left as when it was entered: literals, names and
    attribute chains that nothing inside the with-statement rebinds"""
    stored = {x.id for st in w.body for x in ast.walk(st) if isinstance(x, ast.Name) and isinstance(x.ctx, (ast.Store, ast.Del))}
    stored |= {x.name for st in w.body for x in ast.walk(st) if isinstance(x, ast.ExceptHandler) and x.name}
    stored_attrs = {x.attr for x in ast.walk(node) if isinstance(x, ast.Attribute) and isinstance(x.ctx, (ast.Store, ast.Del))}
    for e in exprs:
        e = strip_cast(e)
        if isinstance(e, ast.Constant):
            continue
        if not _simple_value(e) or isinstance(e, ast.Lambda):
            return False
        while isinstance(e, ast.Attribute):
            if e.attr in stored_attrs:
                return False
            e = e.value
        if e.id in stored:
            return False
    return True


def _cm_class_parts(fi: FuncInfo, k, call: ast.Call) -> tuple[dict, FuncInfo | None, FuncInfo]:
    """(field -> constructor argument, __enter__ or None for the inherited `return self`, __exit__) of a new private manager class"""
    repo = _REPO[0]
    ex, en, init = k.lookup("__exit__"), k.lookup("__enter__"), k.lookup("__init__")
    if ex is None or ex.is_async or not _is_new(repo, ex) or (en is not None and not _is_new(repo, en)) or (init is not None and not _is_new(repo, init)):
        raise _GiveUp("not a new manager class")
    if any(m.cls is not k for m in (ex, en, init) if m is not None):
        raise _GiveUp("manager methods inherited")
    if k.all_subclasses():
        raise _GiveUp("manager class has subclasses")
    for m in (ex, en, init):
        if m is not None and (m.decorators or not _names_agree(fi.module, m.module, m.node)):
            raise _GiveUp("manager method decorated / reads other globals")
    fields: dict[str, ast.expr] = {}
    if init is not None:
        bound = _bind_call(ast.Call(ast.Attribute(call.func, "__init__", ast.Load()), call.args, call.keywords), init)
        if bound is None:
            raise _GiveUp("constructor arguments not bound")
        a = init.node.args
        allp = a.posonlyargs + a.args
        for p_, dv in zip(allp[len(allp) - len(a.defaults):], a.defaults):
            bound.setdefault(p_.arg, dv)
        for p_, dv in zip(a.kwonlyargs, a.kw_defaults):
            if dv is not None:
                bound.setdefault(p_.arg, dv)
        me = init.params()[0]
        for st in init.node.body:
            if isinstance(st, ast.Expr) and isinstance(st.value, ast.Constant):
                continue
            t = st.targets[0] if isinstance(st, ast.Assign) and len(st.targets) == 1 else st.target if isinstance(st, ast.AnnAssign) and st.value is not None else None
            v = strip_cast(st.value) if t is not None else None
            if not (isinstance(t, ast.Attribute) and isinstance(t.value, ast.Name) and t.value.id == me and t.attr not in fields
                    and ((isinstance(v, ast.Name) and v.id in bound and v.id != me) or isinstance(v, ast.Constant))):
                raise _GiveUp("__init__ does more than store its arguments")
            fields[t.attr] = bound[v.id] if isinstance(v, ast.Name) else v
    else:
        rf = _record_fields(fi.module, k)
        if rf is None:
            if call.args or call.keywords or any(b.split(".")[-1] not in ("object", "AbstractContextManager", "ABC") for b in k.base_names):
                raise _GiveUp("construction of the manager not understood")
        else:
            order, defaults = rf
            if any(isinstance(x, ast.Starred) for x in call.args) or any(kw.arg is None or kw.arg not in order for kw in call.keywords) or len(call.args) > len(order):
                raise _GiveUp("constructor arguments not bound")
            fields = dict(defaults)
            fields.update(zip(order, call.args))
            fields.update({kw.arg: kw.value for kw in call.keywords})
            if set(fields) != set(order):
                raise _GiveUp("constructor arguments not bound")
    # a field written anywhere else is not the constructor argument any more
    for m in k.methods.values():
        if m is init:
            continue
        for x in ast.walk(m.node):
            if isinstance(x, ast.Attribute) and isinstance(x.ctx, (ast.Store, ast.Del)):
                raise _GiveUp("the manager keeps state of its own")
    if en is None and not any(b.split(".")[-1] == "AbstractContextManager" for b in k.base_names):
        raise _GiveUp("no __enter__")
    return fields, en, ex


def _cm_instantiate(m: FuncInfo, fields: dict, extra: dict[str, ast.AST], taken: set[str]) -> list:
    """a copy of m's body with `self.<field>` replaced by the constructor argument, the other parameters by `extra`, and its own
    locals kept apart from the caller's"""
    fn = clone(m.node)
    me = m.params()[0]
    a = fn.args
    params = [x.arg for x in a.posonlyargs + a.args + a.kwonlyargs]
    if a.kwarg is not None or any(p not in extra for p in params[1:]):
        raise _GiveUp("manager method parameters not understood")
    if a.vararg is not None and a.vararg.arg in {x.id for x in ast.walk(fn) if isinstance(x, ast.Name)}:
        raise _GiveUp("manager method reads *args")
    if any(isinstance(x, (ast.FunctionDef, ast.AsyncFunctionDef, ast.Lambda, ast.ClassDef, ast.Yield, ast.YieldFrom, ast.Await, ast.Global, ast.Nonlocal))
           for st in fn.body for x in ast.walk(st)):
        raise _GiveUp("manager method shape")
    locals_ = {x.id for st in fn.body for x in ast.walk(st) if isinstance(x, ast.Name) and isinstance(x.ctx, (ast.Store, ast.Del))}
    locals_ |= {x.name for st in fn.body for x in ast.walk(st) if isinstance(x, ast.ExceptHandler) and x.name}
    if locals_ & set(params):
        raise _GiveUp("manager method rebinds a parameter")
    mapping = {}
    for n_ in sorted(locals_):
        new_ = n_
        while new_ in taken:
            new_ += "_cm"
        taken.add(new_)
        if new_ != n_:
            mapping[n_] = new_

    class _F(ast.NodeTransformer):
        def visit_Attribute(self, n):
            if isinstance(n.value, ast.Name) and n.value.id == me and isinstance(n.ctx, ast.Load) and n.attr in fields:
                return ast.copy_location(clone(fields[n.attr]), n)
            self.generic_visit(n)
            return n

        def visit_Name(self, n):
            if n.id == me:
                raise _GiveUp("the manager object itself is used")
            return n

        def visit_ExceptHandler(self, n):
            self.generic_visit(n)
            if n.name in mapping:
                n.name = mapping[n.name]
            return n
    body = [_F().visit(st) for st in fn.body]
    body = [_Rename(mapping, extra).visit(st) for st in body]
    return body


def _cm_tag(e: ast.AST, **tags) -> ast.AST:
    for k_, v in tags.items():
        setattr(e, k_, v)
    return e


class _CmExcAtoms(ast.NodeTransformer):
    """`issubclass(type(e), T)` -> `isinstance(e, T)` (the same test for an exception instance)"""

    def visit_Call(self, n):
        self.generic_visit(n)
        if chain(n.func) == "issubclass" and len(n.args) == 2 and not n.keywords and getattr(n.args[0], "_c10_typeof", None):
            return ast.copy_location(ast.Call(ast.Name("isinstance", ast.Load()), [ast.Name(n.args[0]._c10_typeof, ast.Load()), n.args[1]], []), n)
        return n


def _desugar_class_manager(fi: FuncInfo, node: ast.AST, w: ast.With, k, taken: set[str]) -> list:
    item = w.items[0]
    call = item.context_expr
    fields, en, ex = _cm_class_parts(fi, k, call)
    if not _cm_stable_args(node, w, list(fields.values())):
        raise _GiveUp("constructor arguments may change while the with-statement runs")
    pre: list = []
    if en is not None:
        eb = _cm_instantiate(en, fields, {}, taken) if not (item.optional_vars is not None and any(
            isinstance(x, ast.Return) and isinstance(x.value, ast.Name) and x.value.id == en.params()[0] for x in ast.walk(en.node))) else None
        if eb is None:
            raise _GiveUp("`as` binds the manager object")
        eb = [st for st in eb if not (isinstance(st, ast.Expr) and isinstance(st.value, ast.Constant)) and not isinstance(st, ast.Pass)]
        last = eb[-1] if eb and isinstance(eb[-1], ast.Return) else None
        if last is not None:
            eb = eb[:-1]
        if any(isinstance(x, ast.Return) for st in eb for x in ast.walk(st)):
            raise _GiveUp("__enter__ returns from several places")
        pre = eb
        val = last.value if last is not None and last.value is not None else ast.Constant(None)
        if item.optional_vars is not None:
            pre.append(ast.copy_location(ast.Assign([item.optional_vars], val), w))
        elif any(isinstance(x, ast.Call) for x in ast.walk(val)):
            pre.append(ast.copy_location(ast.Expr(val), w))
    elif item.optional_vars is not None:
        raise _GiveUp("`as` binds the manager object")
    a = ex.node.args
    eparams = [x.arg for x in (a.posonlyargs + a.args)[1:]]
    if len(eparams) > 3 or a.kwonlyargs:
        raise _GiveUp("__exit__ signature")
    used = {x.id for x in ast.walk(ex.node) if isinstance(x, ast.Name)}
    escapes = _cm_escapes(w.body)
    if not (set(eparams) & used):
        # the exit part does not look at how BODY ended: when it never asks for the exception to be swallowed it is a `finally`
        rets = [x for x in ast.walk(ex.node) if isinstance(x, ast.Return)]
        if all(x.value is None or (isinstance(x.value, ast.Constant) and not x.value.value) for x in rets):
            fin = _cm_conv(_cm_instantiate(ex, fields, {p: ast.Constant(None) for p in eparams}, taken), "norm")
            return pre + ([ast.copy_location(ast.Try(w.body, [], [], fin), w)] if fin else w.body)
    ev = _CM_EXC
    while ev in taken:
        ev += "_"
    taken.add(ev)
    none3 = {p: ast.Constant(None) for p in eparams}
    norm_part = _cm_conv(_cm_instantiate(ex, fields, none3, taken), "norm")
    exc3: dict[str, ast.AST] = {}
    for i, p in enumerate(eparams):
        if i == 0:
            exc3[p] = _cm_tag(ast.Call(ast.Name("type", ast.Load()), [ast.Name(ev, ast.Load())], []), _c10_notnone=True, _c10_truthy=True, _c10_typeof=ev)
        elif i == 1:
            exc3[p] = _cm_tag(ast.Name(ev, ast.Load()), _c10_notnone=True)
        else:
            exc3[p] = ast.Attribute(ast.Name(ev, ast.Load()), "__traceback__", ast.Load())

    class _Tagged(_Rename):
        def visit_Name(self, n):
            if n.id in self.subst and isinstance(n.ctx, ast.Load):
                src = self.subst[n.id]
                new = clone(src)
                for t_ in ("_c10_notnone", "_c10_truthy", "_c10_typeof"):
                    if hasattr(src, t_):
                        setattr(new, t_, getattr(src, t_))
                return ast.copy_location(new, n)
            return n
    def make_raw() -> list:
        raw = _cm_instantiate(ex, fields, {p: ast.Name(p, ast.Load()) for p in eparams}, set(taken))
        return [_CmExcAtoms().visit(_Tagged({}, exc3).visit(st)) for st in raw]

    def type_tests(stmts: list) -> list[ast.Call]:
        return [x for st in stmts for x in ast.walk(st) if isinstance(x, ast.Call) and _cm_isinstance(x) is not None]
    # one `except T` clause per exception type the exit part asks about (`isinstance(e, T)` is pure and e is not rebound, so reading
    # the exit part once with the answer "yes" under `except T` and once with "no" under the clause after it is the same program)
    kinds: list[ast.expr] = []
    for c in type_tests(make_raw()):
        if not any(norm(c.args[1]) == norm(k_) for k_ in kinds):
            kinds.append(c.args[1])
    if len(kinds) > 3:
        raise _GiveUp("the exit part distinguishes many exception types")
    if norm_part and escapes:
        raise _GiveUp("the exit part has work to do when BODY returns")

    def specialised(answers: dict[str, bool]) -> list:
        raw = make_raw()
        holder = ast.Module(raw, [])

        class _A(ast.NodeTransformer):
            def visit_Call(self, n):
                self.generic_visit(n)
                if _cm_isinstance(n) is not None and norm(n.args[1]) in answers:
                    return ast.copy_location(ast.Constant(answers[norm(n.args[1])]), n)
                return n
        _A().visit(holder)
        return _cm_conv(holder.body, "exc")
    handlers = []
    answers: dict[str, bool] = {}
    for k_ in [*kinds, None]:
        if k_ is not None:
            part = specialised({**answers, norm(k_): True})
            answers[norm(k_)] = False
        else:
            part = specialised(answers)
        named = any(isinstance(x, ast.Name) and x.id == ev for st in part for x in ast.walk(st))
        htype = clone(k_) if k_ is not None else ast.Name("BaseException", ast.Load())
        handlers.append(ast.copy_location(ast.ExceptHandler(htype, ev if named else None, part or [ast.copy_location(ast.Pass(), w)]), w))
    while handlers and _cm_is_reraise(handlers[-1].body):
        handlers.pop()
    if not handlers and not norm_part:
        return pre + w.body
    if not handlers:
        # only work after a normal end: BODY, then that work (BODY cannot leave by return / break / continue here)
        return pre + w.body + norm_part
    return pre + [ast.copy_location(ast.Try(w.body, handlers, norm_part, []), w)]


def _desugar_generator_manager(fi: FuncInfo, node: ast.AST, w: ast.With, t: FuncInfo, taken: set[str]) -> list:
    item = w.items[0]
    call = item.context_expr
    b = _bind_call(call, t)
    if b is None or t.is_async or not _names_agree(fi.module, t.module, t.node):
        raise _GiveUp("call of the generator manager not bound")
    fn = clone(t.node)
    set_parents(fn)
    a = fn.args
    if a.vararg or a.kwarg:
        raise _GiveUp("generator manager takes *args")
    allp = a.posonlyargs + a.args
    for p_, dv in zip(allp[len(allp) - len(a.defaults):], a.defaults):
        b.setdefault(p_.arg, dv)
    for p_, dv in zip(a.kwonlyargs, a.kw_defaults):
        if dv is not None:
            b.setdefault(p_.arg, dv)
    params = [x.arg for x in allp + a.kwonlyargs]
    is_method = t.cls is not None and "staticmethod" not in t.decorator_names()
    if is_method:
        if not (isinstance(call.func, ast.Attribute) and isinstance(call.func.value, ast.Name) and params):
            raise _GiveUp("receiver of the generator manager")
        b[params[0]] = call.func.value
    if set(b) != set(params) or not _cm_stable_args(node, w, list(b.values())):
        raise _GiveUp("arguments of the generator manager may change while the with-statement runs")
    ys = [x for x in ast.walk(fn) if isinstance(x, (ast.Yield, ast.YieldFrom))]
    if len(ys) != 1 or not isinstance(ys[0], ast.Yield) or not isinstance(parent(ys[0]), ast.Expr):
        raise _GiveUp("generator manager without exactly one plain yield statement")
    if any(isinstance(x, (ast.Return, ast.FunctionDef, ast.AsyncFunctionDef, ast.Lambda, ast.ClassDef, ast.Await, ast.Global, ast.Nonlocal)) for st in fn.body for x in ast.walk(st)):
        raise _GiveUp("generator manager shape")
    ystmt = parent(ys[0])
    tail_empty = True
    cur = ystmt
    for anc in ancestors(ystmt):
        blk = next((getattr(anc, f) for f in ("body", "orelse", "finalbody") if isinstance(getattr(anc, f, None), list) and any(x is cur for x in getattr(anc, f))), None)
        if blk is None or isinstance(anc, (ast.For, ast.AsyncFor, ast.While, ast.ExceptHandler)) or (isinstance(anc, ast.Try) and blk is not anc.body):
            raise _GiveUp("yield inside a loop / handler / finally")
        if blk[-1] is not cur or (isinstance(anc, ast.Try) and anc.orelse):
            tail_empty = False
        if anc is fn:
            break
        cur = anc
    if _cm_escapes(w.body) and not tail_empty:
        raise _GiveUp("the generator manager has work to do after the yield when BODY returns")
    locals_ = {x.id for st in fn.body for x in ast.walk(st) if isinstance(x, ast.Name) and isinstance(x.ctx, (ast.Store, ast.Del))}
    locals_ |= {x.name for st in fn.body for x in ast.walk(st) if isinstance(x, ast.ExceptHandler) and x.name}
    if locals_ & set(params):
        raise _GiveUp("generator manager rebinds a parameter")
    mapping = {}
    for n_ in sorted(locals_):
        new_ = n_
        while new_ in taken:
            new_ += "_cm"
        taken.add(new_)
        if new_ != n_:
            mapping[n_] = new_
    for x in ast.walk(fn):
        if isinstance(x, ast.ExceptHandler) and x.name in mapping:
            x.name = mapping[x.name]
    marker = "yield_cm_here_"
    ystmt.value = ast.Name(marker, ast.Load())
    yval = ys[0].value
    body = [_Rename(mapping, b).visit(st) for st in fn.body]
    yval = _Rename(mapping, b).visit(yval) if yval is not None else None
    repl: list = []
    if item.optional_vars is not None:
        repl.append(ast.copy_location(ast.Assign([item.optional_vars], yval if yval is not None else ast.Constant(None)), w))
    elif yval is not None and any(isinstance(x, ast.Call) for x in ast.walk(yval)):
        repl.append(ast.copy_location(ast.Expr(yval), w))
    repl += w.body
    holder = ast.Module(body, [])

    def put(st):
        if isinstance(st, ast.Expr) and isinstance(st.value, ast.Name) and st.value.id == marker:
            return repl
        return None
    if not _rewrite_blocks(holder, put):
        raise _GiveUp("yield not found")
    return [st for st in holder.body if not (isinstance(st, ast.Expr) and isinstance(st.value, ast.Constant))]


def _desugar_new_managers(fi: FuncInfo, node: ast.AST) -> bool:
    """every `with` over a NEW private context manager in node written out (see above); AnalysisError when one cannot be"""
    repo = _REPO[0]
    if repo is None or not any(isinstance(x, ast.With) for x in walk_no_nested(node)):
        return False
    taken = _names(node) | {x.arg for x in ast.walk(node) if isinstance(x, ast.arg)}

    def manager(e: ast.AST):
        e = strip_cast(e)
        if not isinstance(e, ast.Call):
            return None
        f = e.func
        k = _class_of(fi.module, f) if isinstance(f, (ast.Name, ast.Attribute)) else None
        if k is not None and k.lookup("__exit__") is not None and _is_new(repo, k.lookup("__exit__")):
            return ("class", k)
        t = None
        if isinstance(f, ast.Name):
            t = repo.resolve_name(fi.module, f.id)
            t = t if isinstance(t, FuncInfo) and t.cls is None and t.module.functions.get(t.name) is t else None
        elif isinstance(f, ast.Attribute) and isinstance(f.value, ast.Name) and f.value.id in ("self", "cls") and fi.cls is not None:
            t = fi.cls.lookup(f.attr)
            if t is not None and sum(1 for c in repo.all_classes() if f.attr in c.methods) != 1:
                t = None
        if t is not None and _is_new(repo, t) and [_last(d) for d in t.decorator_names()] == ["contextmanager"]:
            return ("gen", t)
        return None

    def fn(st):
        if not isinstance(st, ast.With) or not any(manager(i.context_expr) is not None for i in st.items):
            return None
        if len(st.items) > 1:
            # `with A, B: BODY` is `with A: with B: BODY`
            inner = ast.copy_location(ast.With(st.items[1:], st.body), st)
            return [ast.copy_location(ast.With(st.items[:1], [inner]), st)]
        kind, what = manager(st.items[0].context_expr)
        try:
            if kind == "class":
                return _desugar_class_manager(fi, node, st, what, taken)
            return _desugar_generator_manager(fi, node, st, what, taken)
        except _GiveUp as e:
            raise AnalysisError(f"undecided: {fi.qualname} uses the new context manager `{norm(st.items[0].context_expr)}`, which cannot be written out as "
                                f"try / except / finally ({e}); it may swallow exceptions or do work on exit that the path rules would not see") from None
    changed = False
    for _ in range(4):
        set_parents(node)
        if not _rewrite_blocks(node, fn):
            break
        changed = True
        ast.fix_missing_locations(node)
    return changed


_QUIET_CALLS = (*_BOOL_BUILTINS, "len")


def _fold_row_scans(fi: FuncInfo, node: ast.AST) -> bool:  # noqa: C901, PLR0915
    """A first-match scan of an ordered literal table of (lazy predicate, value ..) rows is written as the cascade it computes:

        ROWS = ((lambda: P1, V1), (f2, V2), ...)                      if P1:      X = ELT[V1]
        X = next((ELT for pred, v in ROWS if pred()), D)      ->      elif f2():  X = ELT[V2]
                                                                      else:       X = D        (no D: raise StopIteration)

    Exact because: the table is a display built right before the scan (or inside it), rows are tried in order and the scan stops at the
    first predicate that holds (same laziness); a parameter-less lambda reads its free names when it is called, which is where its body
    now stands (no walrus / yield / await inside); the other row elements and D are names, attribute reads, literals (evaluating them
    where the row is chosen instead of where the table is built gives the same object as long as the predicates tried before only ask
    questions: checked).  When the statement that follows is `if X is [not] None: ..` and every value is known to be None / not None,
    that statement is decided per row and moves into the branches (X written as the row's value).  A scan of this form that does not
    meet the conditions is answered `undecided`, never judged as written."""
    occ: dict[str, list[ast.Name]] = {}
    for x in ast.walk(node):
        if isinstance(x, ast.Name):
            occ.setdefault(x.id, []).append(x)
    params = {x.arg for x in ast.walk(node) if isinstance(x, ast.arg)}
    changed = [False]

    def undecided(why: str):
        raise AnalysisError(f"undecided: {fi.qualname} picks a value by a first-match scan over a table of rows that cannot be written out ({why})")

    def quiet(p: ast.expr) -> bool:
        for x in ast.walk(p):
            if isinstance(x, (ast.Await, ast.Yield, ast.YieldFrom, ast.NamedExpr)):
                return False
            if isinstance(x, ast.Call) and not (chain(x.func) in _QUIET_CALLS or (
                    isinstance(x.func, ast.Attribute) and x.func.attr in ("done", "cancelled") and not x.args and not x.keywords)):
                return False
        return True

    def not_none(v: ast.expr) -> bool | None:
        v = strip_cast(v)
        if isinstance(v, ast.Lambda):
            return True
        if isinstance(v, ast.Constant):
            return v.value is not None
        if isinstance(v, ast.Attribute) and isinstance(v.value, ast.Name) and v.value.id == "self" and fi.cls is not None \
                and isinstance(fi.cls.lookup(v.attr), FuncInfo) and not fi.cls.lookup(v.attr).decorators:
            return True
        if isinstance(v, ast.Attribute) and v.attr in _FUTURE_METHODS:
            return True
        return None

    def scan(st, prev, nxt):
        if not (isinstance(st, ast.Assign) and len(st.targets) == 1 and isinstance(st.targets[0], ast.Name)):
            return None
        call = strip_cast(st.value)
        if not (isinstance(call, ast.Call) and chain(call.func) == "next" and not call.keywords and 1 <= len(call.args) <= 2
                and isinstance(call.args[0], ast.GeneratorExp)):
            return None
        g = call.args[0]
        if len(g.generators) != 1 or g.generators[0].is_async or len(g.generators[0].ifs) != 1:
            return None
        gen = g.generators[0]
        test = gen.ifs[0]
        if not (isinstance(gen.target, (ast.Tuple, ast.List)) and all(isinstance(t, ast.Name) for t in gen.target.elts)
                and isinstance(test, ast.Call) and isinstance(test.func, ast.Name) and not test.args and not test.keywords):
            return None
        names = [t.id for t in gen.target.elts]
        if len(set(names)) != len(names) or test.func.id not in names:
            return None
        pcol = names.index(test.func.id)
        x_name = st.targets[0].id
        it = strip_cast(gen.iter)
        table, drop_prev = it, False
        if isinstance(it, ast.Name):
            stores = [o for o in occ.get(it.id, []) if isinstance(o.ctx, (ast.Store, ast.Del))]
            if not (isinstance(prev, ast.Assign) and len(prev.targets) == 1 and isinstance(prev.targets[0], ast.Name) and prev.targets[0].id == it.id
                    and it.id not in params and len(stores) == 1 and it.id != x_name):
                undecided("the table is not a display bound once right before the scan")
            table = strip_cast(prev.value)
            drop_prev = len(occ.get(it.id, [])) == 2
        if not isinstance(table, (ast.Tuple, ast.List)):
            return None
        # from here on the statement IS a row scan: either written out or undecided
        if not table.elts or len(table.elts) > 12:
            undecided("empty or very long table")
        if any(isinstance(x, ast.Name) and x.id == test.func.id for x in ast.walk(g.elt)) or x_name in names:
            undecided("the predicate itself is part of the result")
        default = call.args[1] if len(call.args) == 2 else None
        if default is not None and (isinstance(default, ast.Starred) or not _simple_value(default)):
            undecided("the default is computed")
        tests, values, eager_reads = [], [], default is not None and isinstance(strip_cast(default), ast.Attribute)
        for row in table.elts:
            row = strip_cast(row)
            if not (isinstance(row, (ast.Tuple, ast.List)) and len(row.elts) == len(names) and not any(isinstance(e, ast.Starred) for e in row.elts)):
                undecided("a row is not a display of the scanned width")
            pe = strip_cast(row.elts[pcol])
            if isinstance(pe, ast.Lambda):
                a = pe.args
                if a.args or a.posonlyargs or a.kwonlyargs or a.vararg or a.kwarg:
                    undecided("a predicate takes parameters")
                if any(isinstance(x, (ast.NamedExpr, ast.Yield, ast.YieldFrom, ast.Await)) for x in ast.walk(pe.body)):
                    undecided("a predicate binds names / suspends")
                tests.append(pe.body)
            elif _simple_value(pe) and not isinstance(pe, ast.Constant):
                eager_reads = eager_reads or isinstance(pe, ast.Attribute)
                tests.append(ast.copy_location(ast.Call(pe, [], []), pe))
            else:
                undecided("a predicate is neither a parameter-less lambda nor a plain callable")
            sub = {}
            for k, e in enumerate(row.elts):
                if k == pcol:
                    continue
                if not _simple_value(e):
                    undecided("a row value is computed")
                eager_reads = eager_reads or isinstance(strip_cast(e), ast.Attribute)
                sub[names[k]] = e
            values.append(_Rename({}, sub).visit(clone(g.elt)))
        if eager_reads and not all(quiet(t) for t in tests):
            undecided("a predicate may change what a row value reads")
        leaves = [*values, default]
        branch, used = None, 0
        if isinstance(nxt, ast.If):
            t = strip_cast(nxt.test)
            if isinstance(t, ast.Compare) and len(t.ops) == 1 and isinstance(t.ops[0], (ast.Is, ast.IsNot)) and _is_none(t.comparators[0]) \
                    and isinstance(strip_cast(t.left), ast.Name) and strip_cast(t.left).id == x_name \
                    and not any(isinstance(o, ast.Name) and o.id == x_name and isinstance(o.ctx, (ast.Store, ast.Del)) for o in ast.walk(nxt)) \
                    and all(v is None or not_none(v) is not None for v in leaves):
                some, none = (nxt.body, nxt.orelse) if isinstance(t.ops[0], ast.IsNot) else (nxt.orelse, nxt.body)
                branch, used = (some, none), 1

        x_local = x_name not in params and branch is not None and all(
            o is st.targets[0] or any(a is nxt for a in ancestors(o)) for o in occ.get(x_name, []))

        def leaf(v: ast.expr | None) -> list:
            if v is None:
                return [ast.copy_location(ast.Raise(ast.Call(ast.Name("StopIteration", ast.Load()), [], []), None), st)]
            out = [ast.copy_location(ast.Assign([ast.Name(x_name, ast.Store())], clone(v)), st)]
            if branch is not None:
                chosen = branch[0] if not_none(v) else branch[1]
                stored = {o.id for b in chosen for o in ast.walk(b) if isinstance(o, ast.Name) and isinstance(o.ctx, (ast.Store, ast.Del))}
                plain = not isinstance(strip_cast(v), ast.Lambda) and not (_names(v) & stored)
                if plain and x_local:
                    # X is read nowhere else: with its value written in place the binding itself is dead
                    out = []
                out += [(_Rename({}, {x_name: v}).visit(clone(b)) if plain else clone(b)) for b in chosen]
            return out or [ast.copy_location(ast.Pass(), st)]
        last_always = isinstance(strip_cast(tests[-1]), ast.Constant) and strip_cast(tests[-1]).value is True
        tail = leaf(values[-1]) if last_always else [ast.copy_location(ast.If(clone(tests[-1]), leaf(values[-1]), leaf(default)), st)]
        for t, v in reversed(list(zip(tests[:-1], values[:-1]))):
            tail = [ast.copy_location(ast.If(clone(t), leaf(v), tail), st)]
        return tail, drop_prev, used

    def block(stmts: list) -> list:
        out: list = []
        i = 0
        while i < len(stmts):
            st = stmts[i]
            if not isinstance(st, (ast.FunctionDef, ast.AsyncFunctionDef, ast.ClassDef)):
                for f in ("body", "orelse", "finalbody"):
                    v = getattr(st, f, None)
                    if isinstance(v, list) and v and isinstance(v[0], ast.stmt):
                        setattr(st, f, block(v))
                for h in getattr(st, "handlers", None) or []:
                    h.body = block(h.body)
                r = scan(st, out[-1] if out else None, stmts[i + 1] if i + 1 < len(stmts) else None)
                if r is not None:
                    new, drop_prev, used = r
                    if drop_prev:
                        out.pop()
                    out.extend(new)
                    changed[0] = True
                    i += 1 + used
                    continue
            out.append(st)
            i += 1
        return out
    node.body = block(node.body)
    return changed[0]


def _view(ctx: Ctx, fi: FuncInfo) -> FuncInfo:
    """fi as the rules read it - a private copy on which only behaviour-preserving rewrites are made: `with suppress(E)` written as
    try / except E: pass; every `for` over a filtered generator expression / map / filter pipeline or over a call of a generator
    helper expanded in place; every eagerly consumed comprehension statement written as the loop it runs; NEW helpers that became
    directly called by that inlined; every record-holding local replaced by one local per field; every first-match scan over a
    literal table of (lazy predicate, value) rows written as the if-cascade it computes (_fold_row_scans); every worklist loop over a
    fresh reversed copy (`stack = list(reversed(S))` / `while stack: x = stack.pop()`) written as `for x in list(S)` (_explicit_loops G)."""
    _use(ctx)
    store = ctx.__dict__.setdefault("_c10_views", {})
    hit = store.get(id(fi.node))
    if hit is not None and hit[0] is fi.node:
        return hit[1]
    view = fi
    try:
        view = _build_view(ctx, fi)
    except AnalysisError:
        raise
    except (AttributeError, TypeError, ValueError, KeyError, IndexError, RecursionError) as e:
        ctx.note(f"view of {fi.qualname} not built ({type(e).__name__}: {e}); the rules read the function as written")
    store[id(fi.node)] = (fi.node, view)
    store[id(view.node)] = (view.node, view)
    return view


def _build_view(ctx: Ctx, fi: FuncInfo) -> FuncInfo:
    view = fi
    node = clone(fi.node)
    set_parents(node)
    node.__dict__["_c10_origin"] = fi.node
    changed_any = False
    if node.decorator_list:
        composed = _compose_decorated(fi, clone(fi.node))
        if composed is not None:
            node = composed
            ast.fix_missing_locations(node)
            set_parents(node)
            node.__dict__["_c10_origin"] = fi.node
            changed_any = True
    for round_ in range(3):
        tmp = FuncInfo(fi.name, fi.qualname, node, fi.module, fi.cls)
        changed = False
        if any(isinstance(x, ast.Call) and chain(x.func) == "next" and x.args and isinstance(x.args[0], ast.GeneratorExp) for x in walk_no_nested(node)) \
                and _fold_row_scans(fi, node):
            changed = True
            ast.fix_missing_locations(node)
            set_parents(node)
        if _inline_new_helpers(fi, node):
            changed = True
            ast.fix_missing_locations(node)
            set_parents(node)
        if _desugar_new_managers(fi, node):
            changed = True
            ast.fix_missing_locations(node)
            set_parents(node)
        if _inline_properties(fi, node):
            changed = True
            ast.fix_missing_locations(node)
            set_parents(node)
        if any(isinstance(x, ast.Attribute) and x.attr in _FUTURE_METHODS and not (isinstance(parent(x), ast.Call) and parent(x).func is x)
               for x in walk_no_nested(node)) and _late_bind_collected_methods(node):
            changed = True
            ast.fix_missing_locations(node)
            set_parents(node)
        if any(isinstance(x, ast.While) or (isinstance(x, ast.For) and isinstance(strip_cast(x.iter), ast.Call) and chain(strip_cast(x.iter).func) in ("range", "enumerate"))
               for x in walk_no_nested(node)) and _explicit_loops(fi, node):
            changed = True
            ast.fix_missing_locations(node)
            set_parents(node)
        if _devirtualise(fi, node):
            changed = True
            ast.fix_missing_locations(node)
            set_parents(node)
            if _inline_new_helpers(fi, node):
                ast.fix_missing_locations(node)
                set_parents(node)
        if _desugar_matches(fi, node):
            changed = True
            ast.fix_missing_locations(node)
            set_parents(node)
            if _inline_new_helpers(fi, node):
                ast.fix_missing_locations(node)
                set_parents(node)
        if _may_hold_record(tmp) and _scalarise_records(fi, node):
            changed = True
            _fold_constant_tests(node)
            ast.fix_missing_locations(node)
            set_parents(node)
        if any((isinstance(x, ast.For) and isinstance(strip_cast(x.iter), (ast.GeneratorExp, ast.Call, ast.Name))) or
               (isinstance(x, ast.Expr) and _consumed_whole(x.value) is not None) or (isinstance(x, ast.With) and _suppressed(x) is not None)
               for x in walk_no_nested(node)):
            expanded = _fuse_filtered_snapshots(node, tmp)
            for _ in range(4):
                set_parents(node)
                tmp = FuncInfo(fi.name, fi.qualname, node, fi.module, fi.cls)
                taken = _names(node) | {x.arg for x in ast.walk(node) if isinstance(x, ast.arg)}

                def fn(st, tmp=tmp, node=node, taken=taken):
                    if isinstance(st, ast.With) and _suppressed(st) is not None:
                        # `with suppress(E): BODY` is `try: BODY` / `except E: pass` (contextlib.suppress does nothing else)
                        types = _suppressed(st)
                        h = ast.ExceptHandler(types[0] if len(types) == 1 else ast.Tuple(list(types), ast.Load()), None, [ast.copy_location(ast.Pass(), st)])
                        return [ast.copy_location(ast.Try(st.body, [ast.copy_location(h, st)], [], []), st)]
                    if isinstance(st, ast.Expr) and _consumed_whole(st.value) is not None:
                        g = _as_genexp(tmp, _consumed_whole(st.value), taken, eager=True)
                        if g is None:
                            return None
                        v = "elt_cx"
                        while v in taken:
                            v += "_"
                        taken.add(v)
                        loop = ast.copy_location(ast.For(ast.Name(v, ast.Store()), g, [ast.copy_location(ast.Pass(), st)], [], None), st)
                        return _expand_genexp(node, loop, g)
                    if not isinstance(st, ast.For) or st.orelse:
                        return None
                    it = strip_cast(st.iter)
                    if isinstance(it, ast.Call) and _last(chain(it.func)) in ("map", "filter", "filterfalse"):
                        g = _as_genexp(tmp, it, taken)
                        return _expand_genexp(node, st, g) if g is not None else None
                    if isinstance(it, ast.GeneratorExp) and any(g.ifs for g in it.generators):
                        return _expand_genexp(node, st, it)
                    if isinstance(it, ast.Call):
                        t, supported = _generator_target(ctx, tmp, it)
                        r = _expand_gencall(node, st, it, t) if supported else None
                        if t is not None and r is None:
                            raise AnalysisError(f"undecided: {fi.qualname} iterates the generator helper {t.qualname} in a shape that cannot be expanded "
                                                "(several yield points, try/with/return in the generator, break/continue in the loop body)")
                        return r
                    return None
                if not _rewrite_blocks(node, fn):
                    break
                expanded = True
            if expanded:
                changed = True
                ast.fix_missing_locations(node)
                set_parents(node)
                if _inline_new_helpers(fi, node):
                    ast.fix_missing_locations(node)
                    set_parents(node)
        if not changed:
            break
        changed_any = True
    if changed_any:
        ast.fix_missing_locations(node)
        set_parents(node)
        node.__dict__["_c10_origin"] = fi.node
        view = FuncInfo(fi.name, fi.qualname, node, fi.module, fi.cls)
    return view


def _may_hold_record(fi: FuncInfo) -> bool:
    """some local of fi is bound to a display / constructor call (cheap test before the function is copied)"""
    for x in walk_no_nested(fi.node):
        v = None
        if isinstance(x, ast.Assign) and len(x.targets) == 1 and isinstance(x.targets[0], ast.Name):
            v = strip_cast(x.value)
        elif isinstance(x, ast.AnnAssign) and isinstance(x.target, ast.Name) and x.value is not None:
            v = strip_cast(x.value)
        if isinstance(v, (ast.Tuple, ast.Dict)) or (isinstance(v, ast.Call) and _record_fields(fi.module, _class_of(fi.module, v.func)) is not None):
            return True
    return False


def _impl(ctx: Ctx, name: str) -> FuncInfo:
    impl = [f for f in ctx.repo.module(RC).all_functions if f.qualname == f"RequestCache.{name}" and not any("overload" in d for d in f.decorator_names())]
    ctx.anchor(impl, f"RequestCache.{name}")
    return impl[-1]


def _removals(fi: FuncInfo) -> list[tuple[ast.AST, ast.AST | None, str]]:
    """every way an entry leaves the table in fi: (site, key, 'pop' | 'del') for T.pop(key[, default]) and `del T[key]`"""
    return [(p, arg(p, 0, "key"), "pop") for p in _tcalls(fi, "pop")] + [(d, t.slice, "del") for d, t in _tdeletes(fi)]


def _is_var(fi: FuncInfo, e: ast.AST | None, var: str | None) -> bool:
    """e is the local `var` (or a single-assignment alias of it)"""
    if e is None or var is None:
        return False
    e = strip_cast(e)
    if isinstance(e, ast.Name) and e.id == var:
        return True
    r = resolve(fi, e)
    if isinstance(r, ast.Name) and r.id == var:
        return True
    leaves = _value_leaves(fi, e)
    return bool(leaves) and all(isinstance(x, ast.Name) and x.id == var for x in leaves)


def _claimed_vars(ctx: Ctx, fi: FuncInfo, site: ast.AST, key: ast.AST | None, how: str) -> list[str]:
    """locals that hold the cache removed at `site`: the result of T.pop(key), or - for `del T[key]` - a read `T[key]` /
    `T.get(key)` of the same key that is completed on every path to the removal"""
    cfg = ctx.cfg(fi)
    out = []
    if how == "pop":
        st = enclosing_stmt(site)
        if isinstance(st, ast.Assign) and len(st.targets) == 1 and isinstance(st.targets[0], ast.Name) and strip_cast(st.value) is site:
            out.append(st.targets[0].id)
        elif isinstance(st, ast.AnnAssign) and isinstance(st.target, ast.Name) and st.value is not None and strip_cast(st.value) is site:
            out.append(st.target.id)
        return out
    if key is None:
        return out
    for n in walk_no_nested(fi.node):
        if not (isinstance(n, ast.Assign) and len(n.targets) == 1 and isinstance(n.targets[0], ast.Name)):
            continue
        v = strip_cast(n.value)
        read = None
        if isinstance(v, ast.Subscript) and _is_table(fi, v.value):
            read = v.slice
        elif isinstance(v, ast.Call) and isinstance(v.func, ast.Attribute) and v.func.attr == "get" and _is_table(fi, v.func.value) and len(v.args) == 1:
            read = v.args[0]
        if read is None or not _same_val(fi, read, key) or len(local_defs(fi, n.targets[0].id)) != 1:
            continue
        dn = cfg.nodes_for(n)
        if dn and all(cfg.must_complete(sn, dn) for sn in cfg.nodes_for(site)):
            out.append(n.targets[0].id)
    return out


def _pop_via_helper(ctx: Ctx, fi: FuncInfo) -> bool:
    """pop() hands the removal to a private method (`return self._claim(identifier)` / `cache = self._take(prefix, number)`):
    the same three facts are decided across the call - the helper removes exactly the identifier built from pop's
    (number, prefix) and lets the KeyError out; the removed cache's timeout task is cancelled on every path after the removal
    (in the helper, or by pop on the helper's result); pop returns that cache."""
    cfg = ctx.cfg(fi)
    found = False
    for c in calls(fi):
        ch = chain(c.func) or ""
        m = fi.cls.lookup(ch[5:]) if fi.cls is not None and ch.startswith("self.") and ch.count(".") == 1 else None
        if m is None or m.node is fi.node or m.is_async or m.cls is not fi.cls:
            continue
        m = _view(ctx, m)
        rem = _removals(m)
        b = _bind_call(c, m)
        if not rem or b is None:
            continue
        found = True
        mc = ctx.cfg(m)
        num, pre = fi.params()[2], fi.params()[1]
        qnum = next((k for k, v in b.items() if _denotes(fi, v, num)), "?")
        qpre = next((k for k, v in b.items() if _denotes(fi, v, pre, (pre + ".name",))), "?")

        def key_ok(key, m=m, b=b, qnum=qnum, qpre=qpre, num=num, pre=pre) -> bool:
            leaves = _value_leaves(m, key) if key is not None else []
            return bool(leaves) and all(_ident_call_ok(fi, b[x.id], num, pre) if isinstance(x, ast.Name) and x.id in b and not local_defs(m, x.id)
                                        else _ident_call_ok(m, x, qnum, qpre) for x in leaves)
        # the variable of pop that receives the helper's result
        st = enclosing_stmt(c)
        outer = st.targets[0].id if isinstance(st, ast.Assign) and len(st.targets) == 1 and isinstance(st.targets[0], ast.Name) and strip_cast(st.value) is c else None
        returned_directly = isinstance(st, ast.Return) and st.value is not None and strip_cast(st.value) is c
        for p, key, how in rem:
            vars_ = _claimed_vars(ctx, m, p, key, how)
            inner = [n for x in calls(m, "self.cancel_pending_task") if any(_is_var(m, arg(x, 0, "name"), v) for v in vars_) for n in mc.nodes_for(x)]
            in_helper = bool(vars_) and bool(inner) and all(mc.always_followed_by(pn, inner) for pn in mc.nodes_for(p))
            rets = [r for r in walk_no_nested(m.node) if isinstance(r, ast.Return) and not _is_none(r.value)]
            gives = bool(rets) and all(any(_is_var(m, r.value, v) for v in vars_) or strip_cast(resolve(m, r.value)) is p for r in rets)
            outer_c = [n for x in calls(fi, "self.cancel_pending_task") if _is_var(fi, arg(x, 0, "name"), outer) for n in cfg.nodes_for(x)]
            by_caller = gives and outer is not None and bool(outer_c) and all(cfg.always_followed_by(cn, outer_c) for cn in cfg.nodes_for(c)) \
                and mc.exit not in mc.reach(cut_nodes=[n for r in rets for n in mc.nodes_for(r)])
            ctx.check(in_helper or by_caller, "pop-cancels", m, p, "after _identifiers.pop(id) every normal path cancels that cache's timeout task",
                      "a claimed request keeps its timeout task: the timeout fires after the response was handled")
            raises = (how == "del" or (len(p.args) == 1 and not p.keywords)) and not _swallowed(ctx, m, p) and not _swallowed(ctx, fi, c)
            ctx.check(key_ok(key) and raises, "pop-cancels", m, p,
                      "pop removes exactly _create_identifier(number, prefix) and raises KeyError when absent",
                      "pop uses a different identifier or silently tolerates a missing cache (a late response would find a default)")
            back = returned_directly or any(isinstance(r, ast.Return) and r.value is not None and _is_var(fi, r.value, outer) for r in walk_no_nested(fi.node))
            ctx.check(gives and back, "pop-cancels", m, p, "pop returns the removed cache", "pop does not return the removed cache")
    return found


def _swallowed(ctx: Ctx, fi: FuncInfo, site: ast.AST) -> bool:
    """a KeyError raised at `site` is caught inside fi by a handler from which the function can still end normally (a handler that
    only re-raises - `except KeyError: raise` / `raise KeyError(..) from None` - lets the caller see it)"""
    h = _catching_handler(site)
    if h is None:
        return False
    cfg = ctx.cfg(fi)
    hn = [n for n in cfg.nodes_for(h) if n.kind == "handler"]
    return not hn or cfg.exit in cfg.reach(hn)


def rule_pop(ctx: Ctx) -> None:
    # overloads: the real implementation is the definition without @overload
    fi = _view(ctx, _impl(ctx, "pop"))
    cfg = ctx.cfg(fi)
    if not _removals(fi) and _pop_via_helper(ctx, fi):
        return
    rem = ctx.anchor(_removals(fi), "_identifiers.pop in pop")
    for p, key, how in rem:
        vars_ = _claimed_vars(ctx, fi, p, key, how)
        cancels = [c for c in calls(fi, "self.cancel_pending_task") if any(_is_var(fi, arg(c, 0, "name"), v) for v in vars_)]
        cn = [n for c in cancels for n in cfg.nodes_for(c)]
        ok = bool(vars_) and bool(cn) and all(cfg.always_followed_by(pn, cn) for pn in cfg.nodes_for(p))
        ctx.check(ok, "pop-cancels", fi, p, "after _identifiers.pop(id) every normal path cancels that cache's timeout task",
                  "a claimed request keeps its timeout task: the timeout fires after the response was handled")
        # a missing identifier must raise KeyError: one-argument dict.pop and `del` do; pop with a default only below a
        # test that the key is registered
        raises = how == "del" or (len(p.args) == 1 and not p.keywords) or \
            any(_present_fact(fi, f, lambda e: key is not None and _same_val(fi, e, key)) for f in _facts(fi, cfg, p))
        raises = raises and not _swallowed(ctx, fi, p)
        ctx.check(_ident_call_ok(fi, key, fi.params()[2], fi.params()[1]) and raises, "pop-cancels", fi, p,
                  "pop removes exactly _create_identifier(number, prefix) and raises KeyError when absent",
                  "pop uses a different identifier or silently tolerates a missing cache (a late response would find a default)")
        rets = [r for r in walk_no_nested(fi.node) if isinstance(r, ast.Return) and r.value is not None and any(_is_var(fi, r.value, v) for v in vars_)]
        ctx.check(bool(rets), "pop-cancels", fi, p, "pop returns the removed cache", "pop does not return the removed cache")


def _scheduled(fi: FuncInfo, c: ast.Call) -> tuple[ast.AST, list[ast.expr], dict[str, ast.expr]] | None:
    """What `register_task(name, task, *args, delay=.., **kwargs)` will call when the delay is over: (callable, positional arguments,
    keyword arguments) - for a plain callable with trailing arguments, for `partial(f, a, ..)` and for `lambda: f(a, ..)`."""
    t = arg(c, 1, "task")
    if t is None or any(isinstance(a, ast.Starred) for a in c.args) or any(k.arg is None for k in c.keywords):
        return None
    pos = list(c.args[2:])
    kw = {k.arg: k.value for k in c.keywords if k.arg not in ("name", "task", "delay", "interval", "ignore")}
    t = strip_cast(resolve(fi, t))
    if isinstance(t, ast.Call) and _last(chain(t.func)) == "partial" and t.args and not any(isinstance(a, ast.Starred) for a in t.args) \
            and all(k.arg is not None for k in t.keywords):
        return t.args[0], list(t.args[1:]) + pos, {**{k.arg: k.value for k in t.keywords}, **kw}
    if isinstance(t, ast.Lambda) and not pos and not kw and not (t.args.args or t.args.posonlyargs or t.args.vararg or t.args.kwonlyargs or t.args.kwarg) \
            and isinstance(t.body, ast.Call) and not any(isinstance(a, ast.Starred) for a in t.body.args) and all(k.arg is not None for k in t.body.keywords):
        return t.body.func, list(t.body.args), {k.arg: k.value for k in t.body.keywords}
    return t, pos, kw


def _timeout_binding(ctx: Ctx, fi: FuncInfo) -> tuple[str, dict[str, tuple[FuncInfo, ast.AST, str]]]:
    """How _on_timeout is handed its cache: add() registers `register_task(cache, self._on_timeout, *args, delay=..)`, so the
    parameter of _on_timeout that receives add's cache is the expired cache (whatever its position), and any other
    parameter stands for the expression add passes for it.  -> (cache parameter, {other parameter: (add, expression, add's cache)})"""
    ps = fi.params()[1:]
    try:
        af, acache, _ = _add_body(ctx)
    except AnalysisError:
        return ps[0], {}
    for c in calls(af, "self.register_task"):
        sch = _scheduled(af, c)
        if sch is None or rchain(af, sch[0]) != "self._on_timeout":
            continue
        extra = sch[1]
        named = {k: v for k, v in sch[2].items() if k in ps}
        bound = dict(zip(ps, extra)) | named
        q = next((k for k, v in bound.items() if _is_var(af, v, acache)), None)
        if q is not None:
            return q, {k: (af, v, acache) for k, v in bound.items() if k != q}
    return ps[0], {}


def _unregister_scan(ctx: Ctx, fi: FuncInfo, cache: str, depth: int = 2, handed: dict | None = None) -> dict:
    """Where fi takes the identifier of `cache` out of the table, and which of fi's nodes can be reached while it may still
    be registered.  A call `self.m(.., cache, ..)` of a method that cannot end normally with the identifier still registered
    unregisters it as well (decision/action split: the helper may report what it found; only its effect matters here)."""
    cfg = ctx.cfg(fi)

    def is_key(e) -> bool:
        # a parameter that the registration in add() fills with the identifier it stored under is that identifier
        leaves = _value_leaves(fi, e)
        return bool(leaves) and all(
            _ident_call_ok(handed[x.id][0], handed[x.id][1], f"{handed[x.id][2]}.number", f"{handed[x.id][2]}.prefix")
            if isinstance(x, ast.Name) and handed and x.id in handed and not local_defs(fi, x.id)
            else _ident_call_ok(fi, x, f"{cache}.number", f"{cache}.prefix") for x in leaves)
    rem3 = _removals(fi)
    removals = [(fi, p, key is not None and is_key(key)) for p, key, _ in rem3]
    # `del T[id]` / one-argument T.pop(id) raise KeyError exactly when the identifier is absent: where that KeyError is caught
    # inside the function, leaving the removal by its exception edge is the outcome "not registered"
    absent_exc = {n for p, _, how in rem3 if (how == "del" or (len(p.args) == 1 and not p.keywords)) and _catching_handler(p, ("KeyError", "LookupError")) is not None
                  for n in cfg.nodes_for(p)}
    done = [n for p, _, _ in rem3 for n in cfg.nodes_for(p)]
    if depth > 0 and fi.cls is not None:
        for c in calls(fi):
            ch = chain(c.func) or ""
            m = fi.cls.lookup(ch[5:]) if ch.startswith("self.") and ch.count(".") == 1 else None
            if m is None or m.node is fi.node or m.is_async or m.cls is not fi.cls:
                continue
            b = _bind_call(c, m) or {}
            q = next((k for k, v in b.items() if _is_var(fi, v, cache)), None)
            if q is None:
                continue
            m = _view(ctx, m)
            sub = _unregister_scan(ctx, m, q, depth - 1)
            removals += sub["removals"]
            if sub["removals"] and ctx.cfg(m).exit not in sub["registered"]:
                done += cfg.nodes_for(c)

    probes = _probe_handlers(fi, is_key)

    def absent_edge(a, b, lab) -> bool:
        # leaving a test with the outcome "this identifier is not registered"
        if lab == "exc" and a in absent_exc:
            return True
        if b.kind == "handler" and any(b.ast is h for h in probes):
            return True
        return a.kind == "cond" and lab in (True, False) and (_absent_fact(fi, fact_of(a.ast, lab), is_key)
                                                              or _has_fact(fi, fact_of(a.ast, lab), "self", f"{cache}.prefix", f"{cache}.number"))
    return {"removals": removals, "registered": cfg.reach(cut_out_normal=done, cut_edge=absent_edge)}


def rule_on_timeout(ctx: Ctx) -> None:
    fi = _view(ctx, _impl(ctx, "_on_timeout"))
    cfg = ctx.cfg(fi)
    cache, handed = _timeout_binding(ctx, fi)
    ucalls = [c for c in calls(fi) if chain(c.func) == f"{cache}.on_timeout"]
    ctx.check(len(ucalls) == 1 and not any(isinstance(a, (ast.For, ast.While)) for a in ancestors(ucalls[0])) if ucalls else False,
              "timeout-unregisters-first", fi, fi.node, "cache.on_timeout() is called exactly once", "the timeout callback is called more or less than once")
    # removal of the identifier:  T.pop(id) / T.pop(id, default) / del T[id], here or in a helper that is handed the cache
    scan = _unregister_scan(ctx, fi, cache, handed=handed)
    ctx.anchor(scan["removals"], "_identifiers.pop in _on_timeout")
    for f2, p, ok in scan["removals"]:
        ctx.check(ok, "timeout-unregisters-first", f2, p,
                  "the expired cache's own identifier is removed", "_on_timeout removes a different identifier")
    for u in ucalls:
        for un in cfg.nodes_for(u):
            ctx.check(un not in scan["registered"], "timeout-unregisters-first", fi, u, "identifier removed (or already absent) before the user callback runs",
                      "on_timeout runs while the identifier is still registered: a pop from inside the callback, or a late response, resolves the request a second time")
    sets = _completion_sites(fi)
    ctx.floor("timeout-unregisters-first.futures", sum(len(alts) for _, alts in sets), 2)
    visited = False
    for s, alts in sets:
        fs = _facts(fi, cfg, s)
        base = alts[0]
        one_future = all(_same_value(fi, a, base) for a in alts)
        # `not future.done()` before the call, or the EAFP spelling of the same test: completing a done (or cancelled) future raises
        # InvalidStateError and changes nothing, and that error is swallowed right there
        # (the try has to sit inside the loop that hands out the futures: swallowed around the whole loop, the first done future would
        # end the traversal)
        h = _catching_handler(s, ("InvalidStateError",))
        binders = _site_kind(fi, base, {cache: "cache"})[1]
        eafp = h is not None and bool(binders) and any(a is binders[0] for a in ancestors(h))
        ok = one_future and (any(_done_fact(fi, f, base) for f in fs) or eafp)
        un = [n for u in ucalls for n in cfg.nodes_for(u)]
        after = all(cfg.must_complete(sn, un) for sn in cfg.nodes_for(s))
        ctx.check(ok and after, "timeout-unregisters-first", fi, s, "managed future completed only if not done, after the callback",
                  "a tied future is completed twice or before the timeout callback", [str(f) for f in fs])
        kind, loops = _site_kind(fi, base, {cache: "cache"})
        visited = visited or (kind == "future" and _complete(loops))
    ctx.check(visited, "timeout-unregisters-first", fi, fi.node, "every managed future is visited", "not all futures tied to the cache are completed on timeout")
    # the futures completed are the ones tied to the cache when the callback has returned: whatever the traversal iterates is read from
    # cache.managed_futures after cache.on_timeout() - a copy / selection computed from the list before the callback misses every future
    # the callback ties to its cache (register_future) and every timeout value it sets; the timer fires only once
    un = [n for u in ucalls for n in cfg.nodes_for(u)]
    stale: list[ast.stmt] = []
    seen_loops: set[int] = set()
    for s, alts in sets:
        for l in _site_kind(fi, alts[0], {cache: "cache"})[1]:
            if id(l) in seen_loops:
                continue
            seen_loops.add(id(l))
            its = [l.iter] if isinstance(l, (ast.For, ast.AsyncFor)) else [g.iter for g in getattr(l, "generators", [])]
            for it in its:
                stale += [st for st in _derived_before(fi, cfg, it, un) if not any(st is x for x in stale)]
    if un and sets:
        ctx.check(not stale, "timeout-completes-tied-futures", fi, stale[0] if stale else fi.node,
                  "the futures completed on timeout are read from cache.managed_futures after cache.on_timeout() returned",
                  "_on_timeout completes a copy of cache.managed_futures computed before cache.on_timeout() ran: a future the callback ties to "
                  "its cache (register_future) is never completed - the timeout fires only once, it stays pending forever - and a timeout "
                  "value the callback sets is ignored")


def _derived_before(fi: FuncInfo, cfg, e: ast.AST, after: list, depth: int = 4) -> list[ast.stmt]:
    """assignments feeding e whose value is computed from a managed-futures list (a copy, a selection, a length - anything but a plain
    alias of the live list) on some path that has not completed one of the `after` nodes"""
    if depth <= 0:
        return []
    out: list[ast.stmt] = []
    bound = {x.id for x in ast.walk(e) if isinstance(x, ast.Name) and isinstance(x.ctx, ast.Store)}
    for x in ast.walk(e):
        if not (isinstance(x, ast.Name) and isinstance(x.ctx, ast.Load)) or x.id in bound or x.id in fi.params():
            continue
        for st, val, _ in local_defs(fi, x.id):
            if val is None or isinstance(st, (ast.For, ast.AsyncFor)):
                continue
            v = strip_cast(val)
            reads_list = any(isinstance(y, ast.Attribute) and y.attr in _managed_names() for y in ast.walk(v))
            if reads_list and not _simple_value(v):
                if not all(cfg.must_complete(n, after) for n in cfg.nodes_for(st)):
                    out.append(st)
            else:
                out += _derived_before(fi, cfg, v, after, depth - 1)
    return out


def _canon(fi: FuncInfo, e: ast.AST, depth: int = 3) -> str:
    """text of e with single-assignment aliases followed, a name unpacked from a plain local written as that local's component
    (`future, value = entry` makes `future` the same as `entry[0]`)"""
    e = strip_cast(resolve(fi, e))
    if isinstance(e, ast.Name) and depth > 0 and e.id not in fi.params():
        d = local_defs(fi, e.id)
        if len(d) == 1 and d[0][1] is not None and d[0][2] is not None and isinstance(strip_cast(d[0][1]), ast.Name) \
                and isinstance(d[0][0], ast.Assign) and not any(isinstance(x, ast.Starred) for t in d[0][0].targets for x in ast.walk(t)):
            return f"{_canon(fi, d[0][1], depth - 1)}[{d[0][2]}]"
    if isinstance(e, ast.Subscript) and isinstance(const_value(e.slice), int) and not isinstance(const_value(e.slice), bool) and depth > 0:
        return f"{_canon(fi, e.value, depth - 1)}[{const_value(e.slice)}]"
    if isinstance(e, ast.Attribute) and depth > 0:
        return f"{_canon(fi, e.value, depth - 1)}.{e.attr}"
    return norm(e)


def _same_value(fi: FuncInfo, a: ast.AST, b: ast.AST) -> bool:
    """same expression after following single-assignment aliases (`future, value = entry_f, entry_v`) and unpackings"""
    return norm(a) == norm(b) or norm(resolve(fi, a)) == norm(resolve(fi, b)) or _canon(fi, a) == _canon(fi, b)


def _done_fact(fi: FuncInfo, f: Fact, fut: ast.AST) -> bool:
    """the fact `not <fut>.done()`"""
    return _state_call_fact(fi, f, fut, ("done",)) is False


def _callee_alts(fi: FuncInfo, f: ast.AST, depth: int = 4) -> list[ast.AST]:
    """What a callee expression can denote: a callable picked by a conditional expression, from ALL definitions of a local,
    from a dict / tuple literal dispatch table (the set of its values) or by getattr with constant names."""
    f = strip_cast(f)
    if depth <= 0:
        return [f]
    if isinstance(f, ast.IfExp):
        return _callee_alts(fi, f.body, depth) + _callee_alts(fi, f.orelse, depth)
    if isinstance(f, ast.BoolOp):
        return [x for v in f.values for x in _callee_alts(fi, v, depth)]
    if isinstance(f, ast.Name):
        defs = local_defs(fi, f.id)
        if defs and f.id not in fi.params() and all(v is not None and idx is None for _, v, idx in defs):
            return [x for _, v, _ in defs for x in _callee_alts(fi, v, depth - 1)]
        return [f]
    table = None
    if isinstance(f, ast.Subscript):
        table = resolve(fi, f.value)
    elif isinstance(f, ast.Call) and isinstance(f.func, ast.Attribute) and f.func.attr == "get" and f.args:
        table = resolve(fi, f.func.value)
        if isinstance(table, ast.Dict) and len(f.args) == 2:
            return [x for v in [*table.values, f.args[1]] for x in _callee_alts(fi, v, depth - 1)]
    if isinstance(table, ast.Dict) and table.values and all(k is not None for k in table.keys):
        return [x for v in table.values for x in _callee_alts(fi, v, depth - 1)]
    if isinstance(table, (ast.Tuple, ast.List)) and isinstance(f, ast.Subscript) and table.elts and not any(isinstance(x, ast.Starred) for x in table.elts):
        return [x for v in table.elts for x in _callee_alts(fi, v, depth - 1)]
    if isinstance(f, ast.Call) and chain(f.func) == "getattr" and len(f.args) == 2 and not f.keywords:
        names = [const_value(x) for x in _value_leaves(fi, f.args[1])]
        if names and all(isinstance(n, str) for n in names):
            return [ast.Attribute(value=f.args[0], attr=n, ctx=ast.Load()) for n in names]
    return [f]


def _receiver(c: ast.Call, a: ast.Attribute) -> ast.AST:
    """the future a completion acts on: `<future>.set_result(v)`, or the first argument of the unbound `Future.set_result(<future>, v)`"""
    if (chain(a.value) or "").split(".")[-1] == "Future" and c.args and not isinstance(c.args[0], ast.Starred):
        return c.args[0]
    return a.value


def _method_uses(fi: FuncInfo, c: ast.Call) -> list[tuple[str, ast.AST, int]]:
    """(method name, the object it is invoked on, number of further positional arguments) for every method the call may invoke:
    `obj.m(..)`, the unbound `Future.m(obj, ..)`, `methodcaller("m", ..)(obj)`, and the same through a local alias, a conditional
    expression or a dispatch table"""
    out = []
    for a in _callee_alts(fi, c.func):
        if isinstance(a, ast.Attribute):
            r = _receiver(c, a)
            out.append((a.attr, r, len(c.args) - (0 if r is a.value else 1)))
        elif isinstance(a, ast.Call) and _last(chain(a.func)) == "methodcaller" and a.args and not isinstance(a.args[0], ast.Starred) \
                and len(c.args) == 1 and not c.keywords and not isinstance(c.args[0], ast.Starred):
            names = [const_value(x) for x in _value_leaves(fi, a.args[0])]
            if names and all(isinstance(n, str) for n in names):
                out += [(n, c.args[0], len(a.args) - 1) for n in names]
    return out


def _completion_sites(fi: FuncInfo) -> list[tuple[ast.Call, list[ast.AST]]]:
    """calls that complete a future: (call, the future of every `set_result` / `set_exception` method the call may invoke)"""
    out = []
    for c in calls(fi):
        alts = [r for m, r, _ in _method_uses(fi, c) if m in ("set_result", "set_exception")]
        if alts:
            out.append((c, alts))
    return out


def _cancel_sites(fi: FuncInfo) -> list[tuple[ast.Call, ast.AST]]:
    """calls that cancel a future: (call, the future), whatever the spelling of the call"""
    return [(c, r) for c in calls(fi) for m, r, n in _method_uses(fi, c) if m == "cancel" and n == 0]


def _noop_edge(fi: FuncInfo, f: Fact, fut: ast.AST) -> bool:
    """the outcome f of a test says that cancelling `fut` would do nothing: it is done / cancelled already, or there is no future"""
    if _state_call_fact(fi, f, fut, ("done", "cancelled")) is True:
        return True
    if f.op == "is" and f.pos and _is_none(f.right) and _same_value(fi, f.left, fut):
        return True
    return f.op == "truthy" and not f.pos and _same_value(fi, f.left, fut)


def _nonempty_guard(fi: FuncInfo, f: Fact, loops: list[ast.AST]) -> bool:
    """the condition only skips a traversal that would visit nothing: `if <seq>:` / `if len(<seq>):` / `if len(<seq>) > 0:` about the
    very sequence one of the loops walks"""
    seqs = [l.iter for l in loops if isinstance(l, (ast.For, ast.AsyncFor))]
    e = f.left
    if f.op == "lt" and f.pos and const_value(f.left) == 0:            # 0 < len(seq)
        e = f.right
    elif f.op == "eq" and not f.pos and const_value(f.right) == 0:     # len(seq) != 0
        e = f.left
    elif not (f.op == "truthy" and f.pos):
        return False
    e = strip_cast(e)
    if isinstance(e, ast.Call) and chain(e.func) == "len" and len(e.args) == 1:
        e = e.args[0]
    # a mapping is empty exactly when its values() / items() / keys() are: `if table:` before `for c in table.values():`
    views = [strip_cast(q).func.value for q in seqs if isinstance(strip_cast(q), ast.Call) and isinstance(strip_cast(q).func, ast.Attribute)
             and strip_cast(q).func.attr in ("values", "items", "keys") and not strip_cast(q).args and not strip_cast(q).keywords]
    return any(_same_value(fi, e, q) for q in seqs + views)


def _cancels_each(ctx: Ctx, fi: FuncInfo, c: ast.Call, fut: ast.AST, loops: list[ast.AST], ignore=()) -> bool:
    """Inside the loop that hands out the futures, no iteration gets back to the loop head without having passed the cancel call
    c (or another cancel of the same future) - except by a test outcome that says the future is done already.  Decided on the
    CFG, so it holds for compound guards, early `continue`s and nested ifs alike.  Where the innermost binder is not a loop
    statement (a comprehension inside a larger expression) the conditions on the way to the call are judged instead."""
    cfg = ctx.cfg(fi)
    inner = loops[0] if loops else None
    if not isinstance(inner, (ast.For, ast.AsyncFor)):
        guards = [f for f in facts_at(cfg, c) if not any(f.atom is x for x in ignore)]
        return _only_done_guards(fi, guards, fut)
    heads = [n for n in cfg.nodes_for(inner) if n.kind == "loop"]
    same = [n for c2, r2 in _cancel_sites(fi) if _same_value(fi, r2, fut) and any(a is inner for a in ancestors(c2)) for n in cfg.nodes_for(c2)]
    starts = [v for h in heads for v, lab in h.succ if lab is True]

    def skip(u, v, lab) -> bool:
        return u.kind == "cond" and lab in (True, False) and u.ast is not None and _noop_edge(fi, fact_of(u.ast, lab), fut)
    r = cfg.reach(starts, cut_nodes=same, cut_edge=skip, follow_exc=False)
    return bool(heads) and bool(same) and not any(h in r for h in heads)


def _delay_leaves(ctx: Ctx, fi: FuncInfo, e: ast.AST, bind: dict[str, str], depth: int = 5) -> list[str]:
    """Source texts (parameters of helpers substituted by the caller's arguments) of the values a delay expression can take."""
    e = strip_cast(e)
    if depth <= 0:
        return [norm(e)]
    if isinstance(e, ast.IfExp):
        return _delay_leaves(ctx, fi, e.body, bind, depth) + _delay_leaves(ctx, fi, e.orelse, bind, depth)
    if isinstance(e, ast.BoolOp):
        # `a or b` / `a and b` evaluates to one of its operands
        return [x for v in e.values for x in _delay_leaves(ctx, fi, v, bind, depth)]
    if isinstance(e, ast.Name) and e.id not in fi.params():
        out = []
        for _, v, idx in local_defs(fi, e.id):
            out += _delay_leaves(ctx, fi, v, bind, depth - 1) if v is not None and idx is None else ["?"]
        return out or [e.id]
    # a value picked from a dict / tuple display (dispatch table): any of its values
    table = None
    if isinstance(e, ast.Subscript):
        table = strip_cast(resolve(fi, e.value))
    elif isinstance(e, ast.Call) and isinstance(e.func, ast.Attribute) and e.func.attr == "get" and 1 <= len(e.args) <= 2 and not e.keywords:
        table = strip_cast(resolve(fi, e.func.value))
        if isinstance(table, ast.Dict) and all(k is not None for k in table.keys):
            return [x for v in [*table.values, *(e.args[1:] or [ast.Constant(None)])] for x in _delay_leaves(ctx, fi, v, bind, depth - 1)]
        table = None
    if isinstance(table, ast.Dict) and table.values and all(k is not None for k in table.keys):
        return [x for v in table.values for x in _delay_leaves(ctx, fi, v, bind, depth - 1)]
    if isinstance(table, (ast.Tuple, ast.List)) and table.elts and not any(isinstance(x, ast.Starred) for x in table.elts):
        return [x for v in table.elts for x in _delay_leaves(ctx, fi, v, bind, depth - 1)]
    if isinstance(e, ast.Call) and chain(e.func) is not None and ctx.repo.resolve_call(fi, e):
        # a helper (method, static method, module function, or a method of a private state-holder object kept in an attribute:
        # `self._state.delay_for(cache, cache.timeout_delay)`) that selects the delay: its return values, with parameters
        # bound to our arguments
        out = []
        for tgt in ctx.repo.resolve_call(fi, e):
            if not isinstance(tgt, FuncInfo) or tgt.is_async or tgt.name == "__init__":
                return ["?"]
            b = _bind_call(e, tgt)
            if b is None:
                return ["?"]
            b2 = {k: _subst_expr(v, bind) for k, v in b.items()}
            rets = [r for r in walk_no_nested(tgt.node) if isinstance(r, ast.Return)]
            for r in rets:
                out += _delay_leaves(ctx, tgt, r.value, b2, depth - 1) if r.value is not None else ["None"]
        return out or ["?"]
    return [_subst_expr(x, bind) for x in (_value_leaves(fi, e) if isinstance(e, ast.Attribute) else [e])]


def _subst(text: str, bind: dict[str, str]) -> str:
    return bind.get(text, text)


def _subst_expr(e: ast.AST, bind: dict[str, str]) -> str:
    # `<param>.attr` / `<param>` of a helper, written in the caller's terms
    if isinstance(e, ast.Attribute) and isinstance(e.value, ast.Name) and e.value.id in bind:
        return f"{bind[e.value.id]}.{e.attr}"
    if isinstance(e, ast.Name) and e.id in bind:
        return bind[e.id]
    return norm(e)


def _lock_manager(e: ast.AST) -> bool:
    """e is `self.<m>()` for a @contextmanager method of RequestCache whose one yield sits inside `with self.lock:` (the body of the
    caller's with-statement then runs with the lock held, and the lock is released when it is left)"""
    repo = _REPO[0]
    if not (repo is not None and isinstance(e, ast.Call) and not e.args and not e.keywords and (chain(e.func) or "").startswith("self.") and (chain(e.func) or "").count(".") == 1):
        return False
    k = repo.try_cls("RequestCache", RC)
    m = k.lookup(e.func.attr) if k is not None else None
    if m is None or not any(_last(d) == "contextmanager" for d in m.decorator_names()):
        return False
    ys = [x for x in walk_no_nested(m.node) if isinstance(x, (ast.Yield, ast.YieldFrom))]
    return len(ys) == 1 and isinstance(ys[0], ast.Yield) and any(
        isinstance(a, ast.With) and any(chain(i.context_expr) == "self.lock" for i in a.items) for a in ancestors(ys[0])) \
        and not any(isinstance(a, (ast.For, ast.While, ast.AsyncFor)) for a in ancestors(ys[0]))


def _holds_lock(n: ast.AST) -> bool:
    """n runs with self.lock held: inside `with self.lock:`, or inside the try of `self.lock.acquire()` / `try: .. finally: self.lock.release()`"""
    cur = n
    for a in ancestors(n):
        if isinstance(a, (ast.With, ast.AsyncWith)) and any(chain(i.context_expr) == "self.lock" or _lock_manager(i.context_expr) for i in a.items):
            return True
        if isinstance(a, ast.Try) and any(cur is b for b in a.body) and any(
                isinstance(x, ast.Expr) and isinstance(x.value, ast.Call) and chain(x.value.func) == "self.lock.release" for x in a.finalbody):
            blk = next((getattr(parent(a), f) for f in ("body", "orelse", "finalbody") if isinstance(getattr(parent(a), f, None), list)
                        and any(x is a for x in getattr(parent(a), f))), None) if parent(a) is not None else None
            i = next((k for k, x in enumerate(blk) if x is a), 0) if blk else 0
            prev = blk[i - 1] if blk and i > 0 else None
            if isinstance(prev, ast.Expr) and isinstance(prev.value, ast.Call) and chain(prev.value.func) == "self.lock.acquire" \
                    and not prev.value.args and not prev.value.keywords:
                return True
        if isinstance(a, (ast.FunctionDef, ast.AsyncFunctionDef, ast.Lambda)):
            return False
        cur = a
    return False


def _add_body(ctx: Ctx) -> tuple[FuncInfo, str, bool]:
    """The function that does add()'s work, the name the offered cache has there, and whether its caller already holds the
    lock: add itself, or - when add no longer touches the table and only hands the cache on (`with self.lock: return
    self._add_locked(cache)`) - the one private method it hands it to, provided add returns that method's result."""
    fi = _view(ctx, _impl(ctx, "add"))
    cache = fi.params()[1]
    if _table_stores(fi) or fi.cls is None:
        return fi, cache, False
    cands = []
    for c in calls(fi):
        ch = chain(c.func) or ""
        m = fi.cls.lookup(ch[5:]) if ch.startswith("self.") and ch.count(".") == 1 else None
        if m is None or m.node is fi.node or m.is_async or m.cls is not fi.cls:
            continue
        b = _bind_call(c, m) or {}
        q = next((k for k, v in b.items() if _is_var(fi, v, cache)), None)
        if q is not None and _table_stores(_view(ctx, m)):
            cands.append((c, _view(ctx, m), q))
    if len(cands) != 1:
        return fi, cache, False
    c, m, q = cands[0]
    cfg = ctx.cfg(fi)
    # add's result is the helper's result on every path that ends normally
    rets = [r for r in walk_no_nested(fi.node) if isinstance(r, ast.Return) and r.value is not None and strip_cast(resolve(fi, r.value)) is c]
    rn = [n for r in rets for n in cfg.nodes_for(r)]
    if not rets or cfg.exit in cfg.reach(cut_nodes=rn, follow_exc=False):
        return fi, cache, False
    return m, q, _holds_lock(c)


def _bool_only_field(fi: FuncInfo, attr: str) -> bool:
    """every assignment to an attribute `.<attr>` anywhere in the file stores the constant True or False (closed world of a private flag of
    the class): the field only ever holds a bool, so `flag is True` / `flag is not True` say the same as `flag` / `not flag`"""
    seen = False
    for n in ast.walk(fi.module.tree):
        tgts = n.targets if isinstance(n, ast.Assign) else [n.target] if isinstance(n, (ast.AnnAssign, ast.AugAssign, ast.NamedExpr)) else \
            [n.target] if isinstance(n, (ast.For, ast.AsyncFor, ast.comprehension)) else \
            [i.optional_vars for i in n.items if i.optional_vars is not None] if isinstance(n, (ast.With, ast.AsyncWith)) else []
        for t in tgts:
            for x in ast.walk(t):
                if isinstance(x, ast.Attribute) and x.attr == attr and isinstance(x.ctx, ast.Store):
                    if not (isinstance(n, (ast.Assign, ast.AnnAssign)) and x is t and isinstance(getattr(n, "value", None), ast.Constant)
                            and isinstance(n.value.value, bool)):
                        return False
                    seen = True
        if isinstance(n, ast.Call) and chain(n.func) == "setattr":
            return False
    return seen


def _flag_fact(fi: FuncInfo, f: Fact, attr: str, pos: bool) -> bool:
    """f says that `self.<attr>` (read directly or held in a single-assignment local) is true (pos) / false (not pos): the plain test, and -
    for a field that only ever holds a bool - the comparisons with True / False a `match` over the flag desugars to"""
    if f.op == "truthy":
        o = (f.left, f.pos)
    else:
        o = _bool_outcome(f)
        if o is None or not _bool_only_field(fi, attr):
            return False
    return o[1] is pos and chain(strip_cast(resolve(fi, o[0]))) == f"self.{attr}"


def rule_add(ctx: Ctx) -> None:
    fi, cache, outer_lock = _add_body(ctx)
    cfg = ctx.cfg(fi)

    def shut(f: Fact, pos: bool) -> bool:
        return _flag_fact(fi, f, "_shutdown", pos)

    def locked(n) -> bool:
        return outer_lock or _holds_lock(n)

    stores_ = _table_stores(fi)
    ctx.anchor(stores_, "_identifiers[...] = cache in add")
    sts = [st for st, _, _ in stores_]

    def kept_fact(f: Fact, sd: ast.Call) -> bool:
        # `<table>.setdefault(id, cache) is cache`: the entry now in the table is the offered cache (it was free, and is stored)
        if not (f.op == "is" and f.pos):
            return False
        return any(strip_cast(resolve(fi, a)) is sd and _is_var(fi, b, cache) for a, b in ((f.left, f.right), (f.right, f.left)))
    setdefaults = [st for st in sts if isinstance(st, ast.Call) and isinstance(st.func, ast.Attribute) and st.func.attr == "setdefault"]

    def stored_edge(u, v, lab) -> bool:
        """leaving a statement with the cache stored: the normal way out of a store; for setdefault (which never replaces an entry)
        the outcome `result is cache` of a test of its result"""
        if lab == "exc":
            return False
        if u.kind == "cond" and lab in (True, False) and u.ast is not None and any(kept_fact(fact_of(u.ast, lab), sd) for sd in setdefaults):
            return True
        return any(u in cfg.nodes_for(st) for st in sts if st not in setdefaults)
    stored_starts = [v for n in cfg.nodes for v, lab in n.succ if stored_edge(n, v, lab)]
    for st, key, value in stores_:
        fs = _facts(fi, cfg, st)
        not_shut = any(shut(f, False) for f in fs)
        free = any(_absent_fact(fi, f, lambda e: _same_val(fi, e, key)) or _has_fact(fi, f, "self", f"{cache}.prefix", f"{cache}.number") for f in fs) \
            or _absent_on_every_path(ctx, fi, st, lambda e: _same_val(fi, e, key))
        if st in setdefaults and not free:
            # setdefault keeps a live entry; what has to be shown instead is that add goes on only when its own cache is the entry
            free = any(n.kind == "cond" and lab in (True, False) and kept_fact(fact_of(n.ast, lab), st) for n in cfg.nodes for _, lab in n.succ)
        ident = _ident_call_ok(fi, key, f"{cache}.number", f"{cache}.prefix")
        ctx.check(not_shut and free and locked(st) and ident and _is_var(fi, value, cache), "add-gates", fi, st,
                  "store dominated by not _shutdown and identifier not in _identifiers, under the lock, keyed by _create_identifier(number, prefix)",
                  f"a cache can be added after shutdown / over a live identifier / outside the lock (not_shutdown={not_shut} free={free} locked={locked(st)} ident={ident})",
                  [str(f) for f in fs])
        regs = [c for c in calls(fi, "self.register_task") if _is_var(fi, arg(c, 0, "name"), cache) and _scheduled(fi, c) is not None
                and rchain(fi, _scheduled(fi, c)[0]) == "self._on_timeout" and arg(c, None, "delay") is not None
                and any(_is_var(fi, a, cache) for a in [*_scheduled(fi, c)[1], *_scheduled(fi, c)[2].values()])]
        rn = [n for c in regs for n in cfg.nodes_for(c)]
        ok = bool(rn) and bool(stored_starts) and cfg.exit not in cfg.reach(stored_starts, cut_nodes=rn, follow_exc=False)
        ctx.check(ok, "add-gates", fi, st, "every registered cache gets its timeout task register_task(cache, _on_timeout, cache, delay=..)",
                  "a cache is stored without a timeout task: it is never resolved if no response arrives")
        for c in regs:
            leaves = _delay_leaves(ctx, fi, arg(c, None, "delay"), {})
            ok_d = f"{cache}.timeout_delay" in leaves
            ctx.check(ok_d, "add-gates", fi, c, "timeout delay is the cache's timeout_delay (or the passthrough override)",
                      "the timeout task is not scheduled with the cache's own timeout_delay", [f"delay values: {sorted(set(leaves))}"])
    # success is reported only after the store: every other way out (shutdown, duplicate) returns None.  A returned local
    # (result variable) is judged by its definitions: each one that is not None must itself come after the store.
    def after_store(x: ast.AST) -> bool:
        return all(cfg.must_pass_edges(n, stored_edge) for n in cfg.nodes_for(x))

    def unstored_sources(r: ast.Return) -> list[ast.AST]:
        v = strip_cast(r.value) if r.value is not None else None
        if _is_none(v):
            return []
        if isinstance(v, ast.Name) and v.id not in fi.params():
            defs = local_defs(fi, v.id)
            if defs and all(val is not None and idx is None for _, val, idx in defs):
                return [st for st, val, _ in defs if not _is_none(strip_cast(val)) and not after_store(st)]
        return [] if after_store(r) else [r]
    for r in [r for r in walk_no_nested(fi.node) if isinstance(r, ast.Return)]:
        fs = _facts(fi, cfg, r)
        bad = unstored_sources(r)
        if any(shut(f, True) for f in fs):
            ctx.check(not bad, "add-gates", fi, r, "add after shutdown returns None", "add after shutdown reports success")
        elif any(_present_fact(fi, f) or _has_fact(fi, Fact(f.op, f.left, f.right, not f.pos, f.atom), "self", f"{cache}.prefix", f"{cache}.number") for f in fs):
            ctx.check(not bad, "add-gates", fi, r, "duplicate add returns None", "duplicate add reports success")
        elif not after_store(r):
            ctx.check(not bad, "add-gates", fi, r, "add returns None unless the cache was stored", "add reports success without having stored the cache")
    # the shutdown branch cancels the futures tied to the refused cache
    cancels = []
    for c, fut in _cancel_sites(fi):
        if any(shut(f, True) for f in _facts(fi, cfg, c)):
            kind, loops = _site_kind(fi, fut, {cache: "cache"})
            if kind == "future" and _complete(loops) and _cancels_each(ctx, fi, c, fut, loops, ignore=[f.atom for f in _facts(fi, cfg, loops[-1])]):
                cancels.append((c, loops))
    ctx.check(bool(cancels), "add-gates", fi, fi.node, "futures of a cache refused at shutdown are cancelled",
              "futures tied to a cache that is refused after shutdown are left pending forever")
    if cancels:
        # no way through add that is possible while _shutdown is set gets to the end without passing such a loop
        ln = [n for _, loops in cancels for n in cfg.nodes_for(loops[-1])]
        r = _reach_assuming(cfg, fi, lambda f: shut(f, False), cut_nodes=ln, follow_exc=False)
        ctx.check(cfg.exit not in r, "add-gates", fi, cancels[0][0], "every refusal at shutdown passes the loop that cancels the tied futures",
                  "a path refuses the cache at shutdown without cancelling its futures")
    # ... and only there: while the table accepts requests, the offered cache may be the outstanding one itself (re-add) or
    # share its futures with it; a tied future is resolved by the response or the timeout, never by a refused add
    for c in calls(fi):
        alts = [r for m, r, _ in _method_uses(fi, c) if m in ("cancel", "set_result", "set_exception")]
        if alts and any(_site_kind(fi, r, {cache: "cache"})[0] == "future" for r in alts):
            ctx.check(any(shut(f, True) for f in _facts(fi, cfg, c)), "add-gates", fi, c,
                      "add resolves futures of the offered cache only when it refuses the cache at shutdown",
                      "add cancels / completes the managed futures of a cache it refuses (or stores) while not shut down: when that cache is the "
                      "outstanding request itself, or shares its futures, the outstanding request's futures are resolved without response or timeout")
    # NumberCache.__init__
    ni = _view(ctx, ctx.repo.method("NumberCache", "__init__", RC))
    cfgn = ctx.cfg(ni)
    p = ni.params()
    for st, t in stores(ni, ["self._prefix", "self._number"]):
        fs = _facts(ni, cfgn, st)
        ok = any(_has_fact(ni, f, p[1], p[2], p[3]) for f in fs)
        ctx.check(ok, "duplicate-guard", ni, st, "NumberCache construction dominated by not request_cache.has(prefix, number)",
                  "a second request can take a (prefix, number) identity that is still outstanding", [str(f) for f in fs])
    _find_unclaimed(ctx)
    # has / get use the same identifier construction (directly, or by handing (prefix, number) unchanged to the other one)
    direct = {}
    for name in ("has", "get"):
        f2 = _view(ctx, _impl(ctx, name))
        cs = [c for c in calls(f2) if call_name(c) == "_create_identifier"]
        direct[name] = (f2, cs)
    for name, other in (("has", "get"), ("get", "has")):
        f2, cs = direct[name]
        ok = bool(cs) and all(_ident_call_ok(f2, c, f2.params()[2], f2.params()[1]) for c in cs)
        if not cs and direct[other][1]:
            dl = [c for c in calls(f2, f"self.{other}") if _denotes(f2, arg(c, 0, "prefix"), f2.params()[1], (f2.params()[1] + ".name",))
                  and _denotes(f2, arg(c, 1, "number"), f2.params()[2])]
            ok = bool(dl)
        ctx.check(ok, "duplicate-guard", f2, f2.node, f"{name} keys by _create_identifier(number, prefix)", f"{name} builds a different identifier than add")
    ci = _ident_fn(fi)
    ctx.anchor(ci, "RequestCache._create_identifier")
    pnum, ppre = _ident_roles(ci)
    rets = [r for r in walk_no_nested(ci.node) if isinstance(r, ast.Return)]
    parts = _string_parts(_fold_named_constants(ci, resolve(ci, rets[0].value))) if len(rets) == 1 and rets[0].value is not None else None
    vals = [v for k, v in parts or [] if k == "val"]
    # both components enter the string exactly once, with a separator between them that cannot be part of a number
    # (without one, ('a1', 2) and ('a', 12) would share an identity)
    sep = parts is not None and len(parts) >= 3 and any(k == "lit" and v and not any(ch.isdigit() or ch == "-" for ch in v)
                                                        for k, v in parts[parts.index(("val", vals[0])) + 1:parts.index(("val", vals[-1]))]) \
        if len(vals) == 2 and vals[0] != vals[1] else False
    ok = parts is not None and sorted(vals) == sorted([ppre, pnum]) and bool(sep)
    ctx.check(ok, "duplicate-guard", ci, ci.node, "identifier = f'{prefix}:{number}'", "identifier no longer determined by (prefix, number)")


def _has_fact(fi: FuncInfo, f: Fact, recv: str, prefix: str, number: str) -> bool:
    """fact `not <recv>.has(prefix, number)`  (also spelled `<recv>.get(prefix, number) is None` / `not <recv>.get(..)`)"""
    free = (f.op == "truthy" and not f.pos) or (f.op == "is" and f.pos and _is_none(f.right))
    if not free:
        return False
    c = resolve(fi, f.left)
    if not (isinstance(c, ast.Call) and chain(c.func) in (f"{recv}.has", f"{recv}.get")):
        return False
    if f.op == "is" and chain(c.func) != f"{recv}.get":
        return False
    a0, a1 = arg(c, 0, "prefix"), arg(c, 1, "number")
    return a0 is not None and a1 is not None and prefix in (norm(a0), norm(resolve(fi, a0))) and number in (norm(a1), norm(resolve(fi, a1)))


def _accepting_iter(fu: FuncInfo, it: ast.AST, recv: str, prefix: str) -> bool:
    """the first element the iterable hands out (every element, for the filters) passed the test `not <recv>.has(prefix, element)`:
    a generator expression filtered by it, filter / filterfalse with such a predicate, or dropwhile(<in use>, ..) whose first
    element is the first one the predicate rejects.  Predicates may be lambdas, partial(<recv>.has, prefix), bound methods."""
    g = strip_cast(resolve(fu, it))
    if isinstance(g, ast.GeneratorExp) and isinstance(g.elt, ast.Name):
        last = g.generators[-1]
        return isinstance(last.target, ast.Name) and last.target.id == g.elt.id and \
            any(_has_fact(fu, f, recv, prefix, g.elt.id) for c in last.ifs for f in _atoms_with_polarity(c, True))
    if isinstance(g, ast.Call) and len(g.args) == 2 and not g.keywords and not any(isinstance(a, ast.Starred) for a in g.args):
        kind = _last(chain(g.func))
        if kind in ("filter", "filterfalse", "dropwhile") and not _is_none(g.args[0]):
            x = "element_"
            while x in _names(fu.node):
                x += "_"
            test = _apply_callable(fu, g.args[0], ast.Name(x, ast.Load()))
            return any(_has_fact(fu, f, recv, prefix, x) for f in _atoms_with_polarity(test, kind == "filter"))
    return False


def _accepting_next(fu: FuncInfo, val: ast.AST | None, recv: str, prefix: str) -> tuple[bool, bool]:
    """val is `next(<accepting iterable>[, None])`: an accepted number, or the default -> (recognised, has a None default)"""
    val = strip_cast(val) if val is not None else None
    if not (isinstance(val, ast.Call) and chain(val.func) == "next" and 1 <= len(val.args) <= 2 and not val.keywords
            and not any(isinstance(a, ast.Starred) for a in val.args)):
        return False, False
    if len(val.args) == 2 and not _is_none(val.args[1]):
        return False, False
    return _accepting_iter(fu, val.args[0], recv, prefix), len(val.args) == 2


def _next_accepted(fu: FuncInfo, v: str, recv: str, prefix: str) -> tuple[bool, bool]:
    """Every definition of v is `next(<accepting iterable>[, None])`: v is an accepted number or the default.
    -> (recognised, has a None default)"""
    defs = local_defs(fu, v)
    if not defs or v in fu.params():
        return False, False
    default = False
    for _, val, idx in defs:
        known, d = _accepting_next(fu, val, recv, prefix) if idx is None else (False, False)
        if not known:
            return False, False
        default = default or d
    return True, default


def _free_numbers_only(ctx: Ctx, fu: FuncInfo, recv: str, prefix: str, depth: int = 2) -> tuple[bool, bool]:
    """(every number that leaves fu was accepted by the outcome `not <recv>.has(prefix, number)` of a test made after the number's
    last assignment, fu can also end normally with None instead of a number).  A number may come from a generator filtered by that
    test, or from a helper - a search loop that returns from inside - for which the same holds with its parameters bound to
    (recv, prefix); a None it may hand back has to be excluded before the number is passed on."""
    cfg = ctx.cfg(fu)
    rets = [r for r in walk_no_nested(fu.node) if isinstance(r, ast.Return)]
    ok = bool(rets)
    accept_all = []
    settled = []          # returns of a value that a filtering generator / a helper already accepted, and returns of None
    for r in rets:
        v = strip_cast(r.value) if r.value is not None else None
        if _is_none(v):
            continue
        not_none = isinstance(v, ast.Name) and any(f.op == "is" and not f.pos and _is_none(f.right) and isinstance(f.left, ast.Name) and f.left.id == v.id
                                                   for f in _facts(fu, cfg, r))
        if isinstance(v, ast.Call) and chain(v.func) == "next":
            # `return next(<accepting iterable>)`: exhaustion raises StopIteration here - whatever becomes of it, no number is returned
            known, default = _accepting_next(fu, v, recv, prefix)
            ok = ok and known and not default
            settled += cfg.nodes_for(r)
            continue
        sources = [v] if isinstance(v, ast.Call) else [strip_cast(val) if val is not None and idx is None else None for _, val, idx in local_defs(fu, v.id)] \
            if isinstance(v, ast.Name) and v.id not in fu.params() else []
        if sources and all(isinstance(x, ast.Call) and chain(x.func) != "next" for x in sources) and depth > 0:
            # handed over by a helper: the same question about the helper
            good = True
            for x in sources:
                tg = _targets(ctx, fu, x)
                h = _view(ctx, tg[0][0]) if len(tg) == 1 and not tg[0][0].is_async and tg[0][0].node is not fu.node else None
                bound = _bind_call(x, h) if h is not None else None
                if bound is None and h is not None and h.cls is not None and isinstance(x.func, ast.Attribute):
                    bound = _bind_call(x, h)
                if h is None or bound is None:
                    good = False
                    break
                if "classmethod" in h.decorator_names() and isinstance(x.func, ast.Attribute):
                    pass          # _bind_call skipped the bound class already
                q_recv = next((k for k, e in bound.items() if isinstance(strip_cast(e), ast.Name) and strip_cast(e).id == recv), None)
                q_pre = next((k for k, e in bound.items() if isinstance(strip_cast(e), ast.Name) and strip_cast(e).id == prefix), None)
                if q_recv is None or q_pre is None or local_defs(h, q_recv) or local_defs(h, q_pre) or local_defs(fu, recv) or local_defs(fu, prefix):
                    good = False
                    break
                sub_ok, sub_none = _free_numbers_only(ctx, h, q_recv, q_pre, depth - 1)
                good = good and sub_ok and (not sub_none or not_none)
            if good:
                settled += cfg.nodes_for(r)
                continue
        if not isinstance(v, ast.Name):
            ok = False
            continue
        known, default = _next_accepted(fu, v.id, recv, prefix)
        if known:
            ok = ok and (not default or not_none)
            settled += cfg.nodes_for(r)
            continue
        accept = [(n, lab) for n in cfg.nodes if n.kind == "cond" for lab in (True, False) if _has_fact(fu, fact_of(n.ast, lab), recv, prefix, v.id)]
        accept_all += accept

        def cut(a, b, lab, accept=accept):
            return any(a is n and lab is l for n, l in accept)
        defs = [n for st, _, _ in local_defs(fu, v.id) for n in cfg.nodes_for(st)]
        starts = [cfg.entry] + [s for d in defs for s, lab in d.succ if lab != "exc"]
        reach = cfg.reach(starts, cut_edge=cut)
        ok = ok and bool(accept) and not any(n in reach for n in cfg.nodes_for(r))
    # ways to the normal exit without an accepted number: `return None` / falling off the end
    none_nodes = [n for r in rets if _is_none(strip_cast(r.value) if r.value is not None else None) for n in cfg.nodes_for(r)]
    r0 = cfg.reach(cut_edge=lambda a, b, lab: any(a is n and lab is l for n, l in accept_all), cut_nodes=settled + none_nodes)
    falls_off = cfg.exit in r0
    gives_none = falls_off or any(n in cfg.reach() for n in none_nodes)
    return ok, gives_none


def _find_unclaimed(ctx: Ctx) -> None:
    """RandomNumberCache.find_unclaimed_identifier: a number leaves the function only through the outcome `not has(prefix, number)`
    of a test made after the number's last assignment; every other way out raises."""
    fu = _view(ctx, ctx.repo.method("RandomNumberCache", "find_unclaimed_identifier", RC))
    p = fu.params()
    ok, gives_none = _free_numbers_only(ctx, fu, p[1], p[2])
    # exhaustion raises: no normal exit without an accepted number
    ctx.check(ok and not gives_none, "duplicate-guard", fu, fu.node, "random identifier accepted only if not in use; exhaustion raises",
              "find_unclaimed_identifier can return a number that is in use")


def _delegate(ctx: Ctx, fi: FuncInfo, has_anchor) -> tuple[FuncInfo, ast.Call | None]:
    """fi, or - when fi lacks the construct (has_anchor(fi) is empty) and exactly one method of its class that fi calls on
    every normal path has it - that method and the call: the anchor function became a thin delegation."""
    if has_anchor(fi) or fi.cls is None:
        return fi, None
    cfg = ctx.cfg(fi)
    cands = []
    for c in calls(fi):
        ch = chain(c.func) or ""
        m = fi.cls.lookup(ch[5:]) if ch.startswith("self.") and ch.count(".") == 1 else None
        if m is None or m.node is fi.node or m.cls is not fi.cls:
            continue
        m = _view(ctx, m)
        if has_anchor(m) and cfg.exit not in cfg.reach(cut_nodes=cfg.nodes_for(c), follow_exc=False):
            cands.append((m, c))
    return cands[0] if len(cands) == 1 else (fi, None)


def rule_shutdown(ctx: Ctx) -> None:
    outer = _view(ctx, _impl(ctx, "shutdown"))
    fi, via = _delegate(ctx, outer, lambda f: [s for s, t in stores(f, "self._shutdown") if const_value(s.value) is True])
    cfg = ctx.cfg(fi)

    def locked(n):
        return _holds_lock(n) or (via is not None and _holds_lock(via))
    flag = [s for s, t in stores(fi, "self._shutdown") if const_value(s.value) is True]
    cancel_all = _effect_sites(ctx, fi, lambda f: calls(f, "self.cancel_all_pending_tasks"))
    clears = _effect_sites(ctx, fi, _table_clears)
    # <future>.cancel() for every future of every cache in the table, whatever the loop / comprehension spelling
    fut_cancel = []
    ordered = []          # what has to happen before the table is cleared: the cancel loop, or the eager copy it walks
    # a loop that drains the table entry by entry both reads every cache and leaves the table empty
    drain_like = [w for w in walk_no_nested(fi.node) if _drain_items(fi, w)]
    drains = [w for w in drain_like if _complete([w])]
    for c, fut in _cancel_sites(fi):
        kind, loops = _site_kind(fi, fut, {})
        if kind == "future" and _complete(loops) and _cancels_each(ctx, fi, c, fut, loops, ignore=[x for w in drains for x in ast.walk(w.test)]):
            # nothing but the traversal itself decides whether the loop over the futures is entered
            outer_guards = [f for f in facts_at(cfg, loops[0]) if not any(f.atom is x for w in drains for x in ast.walk(w.test))] \
                if isinstance(loops[0], (ast.For, ast.AsyncFor)) else []
            if all(_nonempty_guard(fi, f, loops) for f in outer_guards):
                fut_cancel.append(c)
                ordered.append(_snapshot_stmt(fi, loops) or c)
    # tied futures of outstanding caches end in exactly one way at shutdown: cancelled.  Completing them with the value / exception
    # chosen for a timeout reports a timeout that never happened (on_timeout did not run) to whoever awaits them.
    for c, alts in _completion_sites(fi):
        ctx.check(not any(_site_kind(fi, r, {})[0] == "future" for r in alts), "shutdown", fi, c,
                  "shutdown does not complete futures tied to outstanding caches with a value",
                  "RequestCache.shutdown completes a future tied to a still outstanding cache with set_result / set_exception (as if the request "
                  "had timed out) instead of cancelling it: after shutdown tied futures must be cancelled, and no timeout has fired")
    reads = _tcalls(fi, "values") + _tcalls(fi, "items") + [st for w in drains for st in _drain_items(fi, w)]
    if not clears and not drain_like and (_tcalls(fi, "popitem") or _tcalls(fi, "pop")) and flag and cancel_all:
        raise AnalysisError("undecided: RequestCache.shutdown empties _identifiers entry by entry (pop / popitem) in a way that is not recognised")
    clears = clears + drains
    ok = bool(flag) and bool(cancel_all) and bool(clears) and bool(fut_cancel) and bool(reads) and all(locked(x) for x in flag + cancel_all + clears + fut_cancel + reads)
    ctx.check(ok, "shutdown", fi, fi.node, "shutdown: flag, cancel all tasks, cancel every tied future, clear table - all under the lock",
              "shutdown leaves timeouts armed, futures pending or the table populated")
    if ok:
        # order: flag before cancel; futures cancelled before the table is cleared
        fn = [n for s in flag for n in cfg.nodes_for(s)]
        ctx.check(all(cfg.must_complete(n, fn) for c in cancel_all for n in cfg.nodes_for(c)), "shutdown", fi, cancel_all[0],
                  "_shutdown set before tasks are cancelled", "tasks are cancelled before the shutdown flag is set: a callback can re-add")
        cl = [n for c in clears if c not in drains for n in cfg.nodes_for(c)]
        emptied = [v for w in drains for n in cfg.nodes if n.kind == "cond" and any(n.ast is x for x in ast.walk(w.test)) for v, lab in n.succ if lab is False]
        after_clear = cfg.reach([v for n in cl for v, lab in n.succ] + emptied)
        ctx.check(not any(n in after_clear for x in reads + ordered for n in cfg.nodes_for(x)), "shutdown", fi, clears[0],
                  "tied futures are cancelled before the table is cleared", "the table is cleared before the tied futures are cancelled (nothing left to cancel)")
    clr = _view(ctx, _impl(ctx, "clear"))
    ok = bool(_effect_sites(ctx, clr, lambda f: calls(f, "self.cancel_all_pending_tasks"))) and bool(_effect_sites(ctx, clr, _table_clears))
    ctx.check(ok, "shutdown", clr, clr.node, "clear cancels all timeout tasks and empties the table", "clear leaves timeout tasks armed")


def _effect_sites(ctx: Ctx, fi: FuncInfo, finder, depth: int = 2) -> list[ast.AST]:
    """Where fi performs an effect: the sites finder(fi) itself, and calls `self.m(..)` of a method m of the same class
    that performs the effect on every path to its normal exit (shutdown reusing clear(), an extracted step)."""
    out = list(finder(fi))
    if depth <= 0 or fi.cls is None:
        return out
    for c in calls(fi):
        ch = chain(c.func) or ""
        if not (ch.startswith("self.") and ch.count(".") == 1):
            continue
        m = fi.cls.lookup(ch[5:])
        if m is None or m.node is fi.node or m.is_async or m.cls is not fi.cls:
            continue
        m = _view(ctx, m)
        sub = _effect_sites(ctx, m, finder, depth - 1)
        if not sub:
            continue
        mc = ctx.cfg(m)
        sn = [n for x in sub for n in mc.nodes_for(x)]
        if sn and mc.exit not in mc.reach(cut_nodes=sn, follow_exc=False):
            out.append(c)
    return out


def _snapshot_stmt(fi: FuncInfo, loops: list[ast.For]) -> ast.stmt | None:
    """The assignment that copies the table's caches eagerly (list / tuple / sorted / list comprehension) into the local the
    outermost loop walks: the traversal then no longer depends on the table.  None for live views and lazy generators."""
    if not loops or not isinstance(loops[-1], (ast.For, ast.AsyncFor)):
        return None
    it = strip_cast(loops[-1].iter)
    if not isinstance(it, ast.Name):
        return None
    d = local_defs(fi, it.id)
    if len(d) != 1 or d[0][1] is None or d[0][2] is not None:
        return None
    v = strip_cast(d[0][1])
    eager = isinstance(v, ast.ListComp) or (isinstance(v, ast.Call) and chain(v.func) in ("list", "tuple", "sorted"))
    reads_table = any(isinstance(x, ast.Call) and isinstance(x.func, ast.Attribute) and x.func.attr in ("values", "items") and _is_table(fi, x.func.value)
                      for x in ast.walk(v))
    return d[0][0] if eager and reads_table else None


def _only_reached_from(ctx: Ctx, fi: FuncInfo, rc, depth: int = 3) -> bool:
    """fi is a NEW private function / method of RequestCache's own module (not part of the reviewed code) that is only ever called from
    RequestCache's methods or from other such helpers, and never passed around as a value: an extracted step of RequestCache"""
    try:
        from ..localnames import load_table
        table = load_table().get(RC) or {}
    except Exception:  # noqa: BLE001
        return False
    if fi.module is not rc.module or fi.qualname in table or not fi.name.startswith("_") or fi.name.startswith("__") and fi.name != "__call__" or depth <= 0:
        return False
    name = fi.name
    if fi.name == "__call__":
        return False
    sites = list(ctx.repo.callers_of_name(name))
    if not sites:
        return False
    for m, caller, c in sites:
        if caller is None or not (caller.cls is rc or caller.node is fi.node or _only_reached_from(ctx, caller, rc, depth - 1)):
            return False
    # every mention of the name is one of those calls
    callee_ids = {id(c.func) for _, _, c in sites}
    for mod in ctx.repo.modules.values():
        for x in ast.walk(mod.tree):
            if ((isinstance(x, ast.Attribute) and x.attr == name) or (isinstance(x, ast.Name) and x.id == name and isinstance(x.ctx, ast.Load))) \
                    and id(x) not in callee_ids:
                return False
    return True


def rule_who(ctx: Ctx) -> None:
    repo = ctx.repo
    rc = repo.cls("RequestCache", RC)
    n = 0
    for m, fi, a in repo.attribute_uses("_identifiers"):
        n += 1
        ctx.check(fi is not None and (fi.cls is rc or _only_reached_from(ctx, fi, rc)), "table-writers", fi or m.relpath, enclosing_stmt(a),
                  "_identifiers used only inside RequestCache", "the identifier table is accessed from outside RequestCache")
    ctx.floor("table-writers", n, 8)
    rf = _view(ctx, _retrieve_wrapper(ctx))
    cfg = ctx.cfg(rf)
    pops = [c for c in calls(rf) if call_name(c) == "pop"]
    fcalls = _handler_calls(rf)
    ctx.anchor(fcalls, "the call of the decorated handler in retrieve_cache's wrapper")
    if not pops:
        claims = _claim_helper_calls(ctx, rf, fcalls)
        if claims:
            return _late_response_via_helper(ctx, rf, claims, fcalls)
    ctx.check(bool(pops), "late-response", rf, rf.node, "retrieve_cache claims the cache with request_cache.pop",
              "retrieve_cache no longer pops the cache: the same request can be answered twice and its timeout still fires")
    for p in pops:
        ok = _keyerror_path_ok(ctx, rf, p, fcalls)
        ctx.check(ok, "late-response", rf, p, "retrieve_cache: missing cache -> KeyError -> handler not called, returns None",
                  "a response without an outstanding request reaches the handler (or raises)")
        a0, a1 = arg(p, 0, "prefix"), arg(p, 1, "number")
        ok2 = a0 is not None and a1 is not None and norm(resolve(rf, a0)) == "cache_class.name" and _payload_identifier(rf, a1)
        ctx.check(ok2, "late-response", rf, p, "cache matched by (cache_class.name, payload.identifier)", "retrieve_cache matches on something else")
    for c in fcalls:
        def popped(v) -> bool:
            if any(strip_cast(resolve(rf, v)) is p for p in pops):
                return True
            # looked up with get() under the very key that is then popped (the pop, checked below to complete before the handler
            # runs, removes and returns that same object)
            g = strip_cast(resolve(rf, v))
            if isinstance(g, ast.Call) and isinstance(g.func, ast.Attribute) and g.func.attr == "get" and not g.keywords and len(g.args) == 2 \
                    and any(isinstance(p.func, ast.Attribute) and _same_value(rf, p.func.value, g.func.value) and len(p.args) == 2 and not p.keywords
                            and all(_same_value(rf, x, y) for x, y in zip(p.args, g.args)) for p in pops):
                return True
            return isinstance(v, ast.Name) and any(st is enclosing_stmt(p) and val is not None and strip_cast(val) is p
                                                   for st, val, _ in local_defs(rf, v.id) for p in pops)
        ok = any(k.arg == "cache" and popped(k.value) for k in c.keywords)
        pn = [n for p in pops for n in cfg.nodes_for(p)]
        ok = ok and all(cfg.must_complete(n, pn) for n in cfg.nodes_for(c))
        ctx.check(ok, "late-response", rf, c, "handler runs only after a successful pop, with the popped cache", "handler can run without a claimed cache")
    _never_handed_back(ctx, rf, pops)
    _pop_census(ctx)


def _never_handed_back(ctx: Ctx, fi: FuncInfo, sources: list[ast.Call]) -> None:
    """A cache that retrieve_cache claimed stays claimed: nothing in the wrapper (or its claim helper) registers it again.  A popped
    cache had its timeout task cancelled and its handler started; `add`ing it back (e.g. when the handler raises) makes the
    request outstanding a second time - a retransmitted response is handled again and a fresh timeout fires for a request that
    was already claimed."""
    bad = []
    for c in calls(fi):
        if not any(m == "add" for m, _, _ in _method_uses(fi, c)):
            continue
        vals = [a.value if isinstance(a, ast.Starred) else a for a in c.args] + [k.value for k in c.keywords]
        if any(any(x is p for p in sources) for v in vals for x in _value_leaves(fi, v)):
            bad.append(c)
    ctx.check(not bad, "late-response", fi, bad[0] if bad else fi.node, "retrieve_cache never registers the claimed cache again",
              "retrieve_cache hands the cache it popped back to the request cache with add(): a request that was already claimed by a response "
              "(timeout task cancelled, handler started) becomes outstanding again - it can be claimed a second time and its timeout fires "
              "although it was claimed")


def _retrieve_wrapper(ctx: Ctx) -> FuncInfo:
    """the closure of retrieve_cache that runs per message: the reviewed name, else the innermost closure(s) under retrieve_cache"""
    m = ctx.repo.module("ipv8/lazy_community.py")
    named = [f for f in m.all_functions if f.qualname == "retrieve_cache.decorator.wrapper"]
    if named:
        return named[0]
    inner = [f for f in m.all_functions if f.qualname.startswith("retrieve_cache.")
             and not any(isinstance(x, (ast.FunctionDef, ast.AsyncFunctionDef)) and x is not f.node for x in ast.walk(f.node))]
    if len(inner) != 1:
        # wherever it lives now (a callable decorator object, a module-level factory): the one function of the module that calls the
        # handler it decorates - a parameter of a function around it - with a `cache=` argument
        inner = [f for f in m.all_functions if any(any(k.arg == "cache" for k in c.keywords) for c in _handler_calls(f))]
    ctx.anchor(len(inner) == 1, "function retrieve_cache.decorator.wrapper in ipv8/lazy_community.py")
    return inner[0]


def _handler_calls(rf: FuncInfo) -> list[ast.Call]:
    """calls of the decorated handler in the per-message wrapper: the callee is a parameter of a function around the wrapper (the
    reviewed name is `func`)"""
    outer = set()
    for sc in _scopes(rf)[1:]:
        a = sc.args
        outer |= {x.arg for x in a.posonlyargs + a.args + a.kwonlyargs}
    own = set(rf.params()) | {n.id for n in walk_no_nested(rf.node) if isinstance(n, ast.Name) and isinstance(n.ctx, ast.Store)}
    return [c for c in calls(rf) if isinstance(c.func, ast.Name) and c.func.id not in own and (c.func.id in outer or c.func.id == "func")]


def _payload_identifier(rf: FuncInfo, e: ast.AST) -> bool:
    """e is `<payload>.identifier` where <payload> is taken from the wrapper's payload arguments"""
    e = resolve(rf, e)
    if not (isinstance(e, ast.Attribute) and e.attr == "identifier"):
        return False
    if norm(e.value) == "payload":
        return True
    var = rf.node.args.vararg.arg if rf.node.args.vararg else None
    return var is not None and all(isinstance(x, ast.Subscript) and chain(x.value) == var for x in _value_leaves(rf, e.value))


def _catching_handler(site: ast.AST, exc: tuple[str, ...] = ("KeyError", "LookupError", "Exception", "BaseException")) -> ast.ExceptHandler | None:
    """the handler that receives a KeyError raised at site: innermost enclosing try (site in its body), first matching clause"""
    cur = site
    for a in ancestors(site):
        if isinstance(a, ast.Try) and any(cur is b for b in a.body):
            for h in a.handlers:
                types = [None] if h.type is None else [chain(t) for t in (h.type.elts if isinstance(h.type, ast.Tuple) else [h.type])]
                if any(t is None or t in exc or (t or "").split(".")[-1] in exc for t in types):
                    return h
        if isinstance(a, (ast.FunctionDef, ast.AsyncFunctionDef, ast.Lambda)):
            return None
        cur = a
    return None


def _none_after(ctx: Ctx, fi: FuncInfo, start_nodes: list, forbidden: list[ast.AST], quiet=None) -> bool:
    """From start_nodes on: no forbidden call is reached, nothing is raised on purpose, and every return reached gives None
    (or a value for which quiet(value) holds: "nothing was claimed").  A returned local has, besides such values, only
    definitions that can neither precede nor follow start_nodes."""
    def is_quiet(v) -> bool:
        return _is_none(v) or (quiet is not None and v is not None and bool(quiet(v)))
    cfg = ctx.cfg(fi)
    r = cfg.reach(start_nodes)
    if any(n in r for c in forbidden for n in cfg.nodes_for(c)):
        return False
    for n in r:
        if isinstance(n.ast, ast.Raise) and n.kind == "stmt":
            return False
        if not (isinstance(n.ast, ast.Return) and n.kind == "stmt"):
            continue
        v = strip_cast(n.ast.value) if n.ast.value is not None else None
        if is_quiet(v):
            continue
        if not isinstance(v, ast.Name) or v.id in fi.params():
            return False
        defs = local_defs(fi, v.id)
        if not any(val is not None and idx is None and is_quiet(strip_cast(val)) for _, val, idx in defs):
            return False
        for st, val, idx in defs:
            if val is not None and idx is None and is_quiet(strip_cast(val)):
                continue
            dn = cfg.nodes_for(st)
            if any(d in r for d in dn) or any(s in cfg.reach(dn) for s in start_nodes):
                return False
    return True


def _keyerror_path_ok(ctx: Ctx, fi: FuncInfo, p: ast.Call, forbidden: list[ast.AST], quiet=None) -> bool:
    """A response whose cache is missing ends quietly: the KeyError of the pop is caught and that path returns None without
    reaching the handler - or the pop is only reached when `<same receiver>.has(<same key>)` / `.get(..) is not None` holds,
    and the other outcome of that test returns None without reaching the handler."""
    cfg = ctx.cfg(fi)
    h = _catching_handler(p)
    if h is not None:
        hn = [n for n in cfg.nodes_for(h) if n.kind == "handler"]
        return bool(hn) and _none_after(ctx, fi, hn, forbidden, quiet)
    if not isinstance(p.func, ast.Attribute):
        return False
    for f in _facts(fi, cfg, p):
        t = resolve(fi, f.left)
        registered = isinstance(t, ast.Call) and isinstance(t.func, ast.Attribute) and _same_value(fi, t.func.value, p.func.value) \
            and len(t.args) == len(p.args) == 2 and not t.keywords and not p.keywords and all(_same_value(fi, x, y) for x, y in zip(t.args, p.args)) \
            and ((t.func.attr == "has" and f.op == "truthy" and f.pos) or
                 (t.func.attr == "get" and ((f.op == "truthy" and f.pos) or (f.op == "is" and not f.pos and _is_none(f.right)))))
        if not registered:
            continue
        other = [v for n in cfg.nodes if n.kind == "cond" and n.ast is f.atom for v, lab in n.succ if lab is (not _edge_label(f))]
        if other and _none_after(ctx, fi, other, forbidden, quiet):
            return True
    return False


def _edge_label(f: Fact) -> bool:
    """the outcome of evaluating f.atom under which the fact f holds"""
    return fact_of(f.atom, True).pos == f.pos


def _scopes(fi: FuncInfo) -> list[ast.AST]:
    """fi's own function node and the function nodes that lexically enclose it, innermost first (a view stands for its original)"""
    node = fi.node.__dict__.get("_c10_origin", fi.node)
    return [node] + [a for a in ancestors(node) if isinstance(a, (ast.FunctionDef, ast.AsyncFunctionDef))]


def _scope_binding(scope: ast.AST, name: str) -> list[ast.AST]:
    """what `name` is bound to in the function `scope` itself: nested function definitions and values of plain assignments;
    [None] entries stand for bindings that are not understood (parameters, loop targets ..)"""
    out: list = []
    a = scope.args
    if name in {x.arg for x in a.posonlyargs + a.args + a.kwonlyargs} | ({a.vararg.arg} if a.vararg else set()) | ({a.kwarg.arg} if a.kwarg else set()):
        return [None]
    for n in walk_no_nested(scope):
        if isinstance(n, (ast.FunctionDef, ast.AsyncFunctionDef)) and n is not scope and n.name == name:
            out.append(n)
        elif isinstance(n, ast.Name) and n.id == name and isinstance(n.ctx, (ast.Store, ast.Del)):
            p_ = parent(n)
            if isinstance(p_, ast.Assign) and len(p_.targets) == 1 and p_.targets[0] is n:
                out.append(p_.value)
            elif isinstance(p_, ast.AnnAssign) and p_.target is n and p_.value is not None:
                out.append(p_.value)
            else:
                out.append(None)
    return out


def _targets(ctx: Ctx, fi: FuncInfo, call: ast.Call) -> list[tuple[FuncInfo, dict[str, ast.expr]]]:
    """The functions of this repository a call may run, each with what its receiver's attributes stand for: what the engine
    resolves, a function defined in a lexically enclosing function (closures next to each other), and the `__call__` of a
    private callable object `name = K(args)` bound once in fi or an enclosing function (its `self.x` is the constructor
    argument that K.__init__ stores there)."""
    try:
        tg = [(t, {}) for t in ctx.repo.resolve_call(fi, call) if isinstance(t, FuncInfo)]
    except Exception:  # noqa: BLE001
        tg = []
    f = call.func
    if tg and not (len(tg) == 1 and tg[0][0].name == "__init__") or not isinstance(f, ast.Name):
        return tg
    for scope in _scopes(fi):
        b = _scope_binding(scope, f.id)
        if not b:
            continue
        if len(b) != 1 or b[0] is None:
            return []
        v = b[0]
        if isinstance(v, (ast.FunctionDef, ast.AsyncFunctionDef)):
            info = getattr(v, "_info", None)
            return [(info, {})] if isinstance(info, FuncInfo) else []
        v = strip_cast(v)
        if isinstance(v, ast.Call):
            k = _class_of(fi.module, v.func)
            m = k.lookup("__call__") if k is not None else None
            if m is None:
                return []
            init = k.lookup("__init__")
            fields: dict[str, ast.expr] = {}
            if init is not None:
                bound = _bind_call(ast.Call(ast.Attribute(v.func, "__init__", ast.Load()), v.args, v.keywords), init)
                if bound is None:
                    return []
                for st, t in stores(init, lambda c_: c_.startswith("self.") and c_.count(".") == 1):
                    if isinstance(st, (ast.Assign, ast.AnnAssign)) and st.value is not None and isinstance(strip_cast(st.value), ast.Name) \
                            and strip_cast(st.value).id in bound and not local_defs(init, strip_cast(st.value).id):
                        fields[t.attr] = bound[strip_cast(st.value).id]
                # a field stored more than once (or elsewhere in the class) is not the constructor argument any more
                for meth in k.methods.values():
                    for st, t in stores(meth, lambda c_: c_.startswith("self.") and c_.count(".") == 1):
                        if meth is not init or sum(1 for _, t2 in stores(init, "self." + t.attr)) > 1:
                            fields.pop(t.attr, None)
            return [(m, fields)]
        return []
    return tg


def _claim_helper_calls(ctx: Ctx, rf: FuncInfo, fcalls: list[ast.Call]) -> list[tuple[ast.Call, FuncInfo, dict]]:
    """calls in the wrapper to a helper (same module) that does the request_cache.pop"""
    out = []
    for c in calls(rf):
        if c in fcalls:
            continue
        tg = _targets(ctx, rf, c)
        if len(tg) == 1 and tg[0][0].module is rf.module and tg[0][0].node is not rf.node and any(call_name(x) == "pop" for x in calls(tg[0][0])):
            out.append((c, tg[0][0], tg[0][1]))
    return out


def _pop_results(fi: FuncInfo, e: ast.AST | None, pops: list[ast.Call]) -> bool:
    """every value of e that is not None is the result of one of the pop calls"""
    if e is None:
        return False
    leaves = [x for x in _value_leaves(fi, e) if not _is_none(x)]
    return bool(leaves) and all(any(x is p for p in pops) for x in leaves)


def _component(fi: FuncInfo, e: ast.AST, results: dict) -> tuple[ast.Call, object] | None:
    """e is one component of the result of a call listed in `results` (id(call) -> (.., .., shape of the result)): a name unpacked
    from it, or `.field` / `[index]` of the one local that holds it -> (call, field)"""
    e = strip_cast(e)

    def held(x) -> ast.Call | None:
        if not isinstance(x, ast.Name) or x.id in fi.params():
            return None
        d = local_defs(fi, x.id)
        v = strip_cast(d[0][1]) if len(d) == 1 and d[0][1] is not None and d[0][2] is None else None
        return v if isinstance(v, ast.Call) and id(v) in results else None

    def field(call, k):
        shape = results[id(call)][2]
        if isinstance(k, int) and not isinstance(k, bool):
            if shape[0] == "tuple":
                return k % shape[1] if -shape[1] <= k < shape[1] else None
            if shape[0] == "class" and shape[3]:
                return shape[2][k] if -len(shape[2]) <= k < len(shape[2]) else None
            return None
        if isinstance(k, str) and (shape[0] == "dict" and k in shape[1] or shape[0] == "class" and k in shape[2]):
            return k
        return None
    if isinstance(e, ast.Name) and e.id not in fi.params():
        d = local_defs(fi, e.id)
        if len(d) == 1 and d[0][1] is not None and d[0][2] is not None:
            v = strip_cast(d[0][1])
            call = v if isinstance(v, ast.Call) and id(v) in results else held(v)
            f = field(call, d[0][2]) if call is not None else None
            return (call, f) if f is not None else None
        r = resolve(fi, e)
        return _component(fi, r, results) if r is not e else None
    if isinstance(e, ast.Attribute) and held(strip_cast(e.value)) is not None:
        call = held(strip_cast(e.value))
        f = field(call, e.attr) if results[id(call)][2][0] == "class" else None
        return (call, f) if f is not None else None
    if isinstance(e, ast.Subscript) and held(strip_cast(e.value)) is not None and const_value(e.slice) is not NOCONST:
        call = held(strip_cast(e.value))
        k = const_value(e.slice)
        f = field(call, k) if (results[id(call)][2][0] != "class" or isinstance(k, int)) else None
        return (call, f) if f is not None else None
    return None


def _late_response_via_helper(ctx: Ctx, rf: FuncInfo, claims: list[tuple[ast.Call, FuncInfo]], fcalls: list[ast.Call]) -> None:
    """The pop lives in a helper that reports the outcome (the claimed cache, or None after KeyError); the wrapper acts on it."""
    cfg = ctx.cfg(rf)
    good: list[ast.Call] = []
    always: set[int] = set()                          # claim calls that end normally only with the cache they popped
    flagged: dict[int, tuple] = {}          # claim call -> (flag component, cache component, shape) of its result pair / object
    for c, h, fields in claims:
        h = _view(ctx, h)
        pops = [x for x in calls(h) if call_name(x) == "pop"]
        b = _bind_call(c, h) if isinstance(c.func, ast.Attribute) or h.name != "__call__" else \
            _bind_call(ast.Call(ast.Attribute(c.func, "__call__", ast.Load()), c.args, c.keywords), h)
        b = b or {}
        recv = h.params()[0] if h.name == "__call__" and h.cls is not None and h.params() else None

        def up(e, h=h, b=b, fields=fields, recv=recv) -> str:
            # the helper's expression written in the wrapper's terms (its parameters replaced by the call's arguments, the
            # attributes of a callable object by the constructor arguments they hold)
            e = resolve(h, e)
            root, path = e, []
            while isinstance(root, ast.Attribute):
                path.append(root.attr)
                root = root.value
            if isinstance(root, ast.Name) and root.id == recv and path and path[-1] in fields and not local_defs(h, root.id):
                return ".".join([norm(fields[path[-1]]), *reversed(path[:-1])])
            if isinstance(root, ast.Name) and root.id in b and not local_defs(h, root.id):
                return norm(resolve(rf, b[root.id])) + norm(e)[len(root.id):]
            return norm(e)
        # every value the helper returns is None or the cache it popped - or a (flag, cache) pair whose flag is True only
        # together with the popped cache
        rets = [r for r in walk_no_nested(h.node) if isinstance(r, ast.Return) and not _is_none(r.value)]
        quiet = None
        hc = ctx.cfg(h)
        if pops and rets and all(_pop_results(h, r.value, pops) for r in rets):
            good.append(c)
            if all(not any(_is_none(x) for x in _value_leaves(h, r.value)) for r in rets) \
                    and hc.exit not in hc.reach(cut_nodes=[n for r in rets for n in hc.nodes_for(r)]):
                always.add(id(c))
        elif pops and rets and all(_record_value(h, r.value) is not None for r in rets) and len({_record_value(h, r.value)[0] for r in rets}) == 1:
            # a result object / pair: some component is a constant flag that is True only together with the popped cache in another
            recs = [dict(_record_value(h, r.value)[1]) for r in rets]
            shape = _record_value(h, rets[0].value)[0]
            names = list(recs[0])
            for i, j in ((i, j) for i in names for j in names if i != j):
                if all(isinstance(const_value(e[i]), bool) for e in recs) and any(const_value(e[i]) is True for e in recs) and \
                        all(_pop_results(h, e[j], pops) for e in recs if const_value(e[i]) is True):
                    good.append(c)
                    flagged[id(c)] = (i, j, shape)

                    def quiet(v, i=i, h=h, shape=shape) -> bool:
                        rec = _record_value(h, v)
                        return rec is not None and rec[0] == shape and const_value(dict(rec[1])[i]) is False
                    break
        for p in pops:
            ok = _keyerror_path_ok(ctx, h, p, [], quiet)
            if not ok and _catching_handler(p) is None and not h.is_async:
                # the helper lets the KeyError out: it arrives at the call in the wrapper, which has to end quietly from there
                ok = _catching_handler(c) is not None and _keyerror_path_ok(ctx, rf, c, fcalls)
            ctx.check(ok, "late-response", h, p, "retrieve_cache: missing cache -> KeyError -> handler not called, returns None",
                      "a response without an outstanding request reaches the handler (or raises)")
            a0, a1 = arg(p, 0, "prefix"), arg(p, 1, "number")
            r1 = resolve(h, a1) if a1 is not None else None
            ok2 = a0 is not None and up(a0) == "cache_class.name" and isinstance(r1, ast.Attribute) and r1.attr == "identifier"
            ctx.check(ok2, "late-response", h, p, "cache matched by (cache_class.name, payload.identifier)", "retrieve_cache matches on something else")
        _never_handed_back(ctx, h, pops)
    _never_handed_back(ctx, rf, [c for c, _, _ in claims])
    ctx.check(bool(good), "late-response", rf, rf.node, "retrieve_cache claims the cache with request_cache.pop",
              "retrieve_cache no longer pops the cache: the same request can be answered twice and its timeout still fires")
    for c in fcalls:
        fs = _facts(rf, cfg, c)
        ok = False
        for k in c.keywords:
            if k.arg != "cache":
                continue
            from_claim = _pop_results(rf, k.value, [g for g in good if id(g) not in flagged])
            claimed = any((f.op == "is" and not f.pos and _is_none(f.right) and _same_value(rf, f.left, k.value))
                          or (f.op == "truthy" and f.pos and _same_value(rf, f.left, k.value)) for f in fs)
            ok = ok or (from_claim and claimed)
            # a claim that can only end normally with the popped cache needs no test of its result
            lv = _value_leaves(rf, k.value)
            ok = ok or (bool(lv) and all(any(x is g for g in good) and id(x) in always for x in lv))
            # `found, cache = helper(..)` / `claim = helper(..)` .. `claim.cache`: the cache component, used where the flag
            # component of the same result is known to be true
            comp = _component(rf, k.value, flagged)
            if comp is not None and comp[1] == flagged[id(comp[0])][1]:
                want = (comp[0], flagged[id(comp[0])][0])
                ok = ok or any(f.op == "truthy" and f.pos and _component(rf, f.left, flagged) == want for f in fs)
        ctx.check(ok, "late-response", rf, c, "handler runs only after a successful pop, with the popped cache", "handler can run without a claimed cache")
    _pop_census(ctx)


def _pop_census(ctx: Ctx) -> None:
    repo = ctx.repo
    # informative census of request_cache.pop sites
    census = {"guarded-by-has/get": 0, "try-keyerror": 0, "in-handler-or-callback": 0}
    for m, fi, c in repo.callers_of_name("pop"):
        ch = chain(c.func) or ""
        if not ch.endswith("request_cache.pop") or fi is None:
            continue
        cfg = ctx.cfg(fi)
        fs = facts_at(cfg, c)
        if any(isinstance(f.left, ast.Call) and (chain(f.left.func) or "").endswith(("request_cache.has", "request_cache.get")) for f in fs) or \
                any(f.op == "truthy" and f.pos and isinstance(resolve(fi, f.left), ast.Call) and (chain(resolve(fi, f.left).func) or "").endswith("request_cache.get") for f in fs):
            census["guarded-by-has/get"] += 1
        elif any(isinstance(a, ast.Try) and any(chain(h.type) in ("KeyError", "Exception") for h in a.handlers) for a in ancestors(c)):
            census["try-keyerror"] += 1
        else:
            census["in-handler-or-callback"] += 1
    ctx.extra["request_cache_pop_census"] = census
    ctx.note(f"request_cache.pop call sites (informative, not judged): {census}")


def run(ctx: Ctx) -> None:
    rule_pop(ctx)
    rule_on_timeout(ctx)
    rule_add(ctx)
    rule_shutdown(ctx)
    rule_who(ctx)
    ctx.assume("a cancelled asyncio task never runs its body; TaskManager.cancel_pending_task cancels the named task (C11 checks its gates)")
    ctx.assume("pop/expiry inside one event-loop iteration: order is asyncio's; not decided")


WITNESSES = [
    {"name": "pop does not cancel timeout", "file": RC, "rule": "pop-cancels",
     "old": "            cache = self._identifiers.pop(identifier)\n            self.cancel_pending_task(cache)\n            return cache",
     "new": "            cache = self._identifiers.pop(identifier)\n            return cache"},
    {"name": "pop tolerates missing cache", "file": RC, "rule": "pop-cancels",
     "old": "            cache = self._identifiers.pop(identifier)\n            self.cancel_pending_task(cache)",
     "new": "            cache = self._identifiers.pop(identifier, None)\n            self.cancel_pending_task(cache)"},
    {"name": "timeout callback before unregister", "file": RC, "rule": "timeout-unregisters-first",
     "old": "        if identifier in self._identifiers:\n            self._identifiers.pop(identifier)\n\n        cache.on_timeout()\n",
     "new": "        cache.on_timeout()\n        if identifier in self._identifiers:\n            self._identifiers.pop(identifier)\n"},
    {"name": "timeout completes a snapshot taken before the callback", "file": RC, "rule": "timeout-completes-tied-futures",
     "old": "        cache.on_timeout()\n\n        for future, on_timeout in cache.managed_futures:\n",
     "new": "        pending = list(cache.managed_futures)\n        cache.on_timeout()\n\n        for future, on_timeout in pending:\n"},
    {"name": "future completed even if done", "file": RC, "rule": "timeout-unregisters-first",
     "old": "            if not future.done():\n                if isinstance(on_timeout, Exception):",
     "new": "            if future is not None:\n                if isinstance(on_timeout, Exception):"},
    {"name": "add after shutdown allowed", "file": RC, "rule": "add-gates",
     "old": "            if self._shutdown:\n                self._logger.warning(\"Dropping %s due to shutdown!\", str(cache))\n                for f, _ in cache.managed_futures:\n                    f.cancel()\n                return None\n",
     "new": "            if self._shutdown:\n                self._logger.warning(\"Dropping %s due to shutdown!\", str(cache))\n"},
    {"name": "duplicate identifier overwrites", "file": RC, "rule": "add-gates",
     "old": "                self._logger.error(\"add with duplicate identifier \\\"%s\\\"\", identifier)\n                return None\n",
     "new": "                self._logger.error(\"add with duplicate identifier \\\"%s\\\"\", identifier)\n"},
    {"name": "duplicate add cancels the offered cache's futures", "file": RC, "rule": "add-gates",
     "old": "                self._logger.error(\"add with duplicate identifier \\\"%s\\\"\", identifier)\n                return None\n",
     "new": "                self._logger.error(\"add with duplicate identifier \\\"%s\\\"\", identifier)\n                for f, _ in cache.managed_futures:\n"
            "                    f.cancel()\n                return None\n"},
    {"name": "timeout task only for overridden caches", "file": RC, "rule": "add-gates",
     "old": "            self.register_task(cache, self._on_timeout, cache, delay=timeout_delay)\n",
     "new": "            if timeout_delay < 3600:\n                self.register_task(cache, self._on_timeout, cache, delay=timeout_delay)\n"},
    {"name": "number cache construction unchecked", "file": RC, "rule": "duplicate-guard",
     "old": "        if request_cache.has(prefix, number):\n            msg = f\"This number is already in use '{number}'\"\n            raise RuntimeError(msg)\n",
     "new": "        if request_cache.has(prefix, number):\n            self._logger.warning(\"This number is already in use '%s'\", number)\n"},
    {"name": "identifier ignores prefix", "file": RC, "rule": "duplicate-guard",
     "old": "        return f\"{prefix}:{number}\"", "new": "        return f\"{number}\""},
    {"name": "shutdown forgets futures", "file": RC, "rule": "shutdown",
     "old": "            for cache in self._identifiers.values():\n                # Cancel all managed futures, and suppress the CancelledErrors\n                for future, _ in cache.managed_futures:\n                    future.cancel()\n",
     "new": ""},
    {"name": "shutdown flag after cancel", "file": RC, "rule": "shutdown",
     "old": "                self._shutdown = True\n                tasks = self.cancel_all_pending_tasks()\n",
     "new": "                tasks = self.cancel_all_pending_tasks()\n                self._shutdown = True\n"},
    {"name": "shutdown completes valued futures instead of cancelling", "file": RC, "rule": "shutdown",
     "old": "                for future, _ in cache.managed_futures:\n                    future.cancel()\n            self._identifiers.clear()",
     "new": "                for future, value in cache.managed_futures:\n                    if value is None or future.done():\n"
            "                        future.cancel()\n                    else:\n                        future.set_result(value)\n"
            "            self._identifiers.clear()"},
    {"name": "shutdown cancels only some futures", "file": RC, "rule": "shutdown",
     "old": "                for future, _ in cache.managed_futures:\n                    future.cancel()\n            self._identifiers.clear()",
     "new": "                for future, value in cache.managed_futures:\n                    if value is None or future.done():\n"
            "                        future.cancel()\n            self._identifiers.clear()"},
    {"name": "retrieve_cache hands the claimed cache back when the handler raises", "file": "ipv8/lazy_community.py", "rule": "late-response",
     "old": "                return func(self, peer_or_addr, *payloads, cache=cache)\n",
     "new": "                try:\n                    return func(self, peer_or_addr, *payloads, cache=cache)\n                except ValueError:\n"
            "                    self.request_cache.add(cache)\n                    raise\n"},
    {"name": "retrieve_cache uses get", "file": "ipv8/lazy_community.py", "rule": "late-response",
     "old": "                cache = cast(\"RequestCache\", self.request_cache).pop(cache_class.name,  # type: ignore[attr-defined]\n                                                                     payload.identifier)  # type: ignore[attr-defined]",
     "new": "                cache = cast(\"RequestCache\", self.request_cache).get(cache_class.name,  # type: ignore[attr-defined]\n                                                                     payload.identifier)  # type: ignore[attr-defined]"},
    {"name": "foreign writer of _identifiers", "file": "ipv8/peerdiscovery/community.py", "rule": "table-writers",
     "old": "        cache.finish()\n", "new": "        cache.finish()\n        self.request_cache._identifiers.pop(\"x\", None)\n"},
]
