"""C10 - Each outstanding request is resolved exactly once."""
from __future__ import annotations

import ast

from ..core import Ctx
from ..match import Fact, _atoms_with_polarity, arg, call_name, calls, fact_of, facts_at, local_defs, rchain, resolve, same_resolved, stores
from ..model import (NOCONST, AnalysisError, FuncInfo, ancestors, chain, clone, const_value, enclosing_stmt, norm, parent,
                     set_parents, strip_cast, walk_no_nested)

LEVEL = "other"
EXPLANATION = (
    "Pairing discipline inside RequestCache, each as a dominance / post-dominance fact on the function's CFG: pop removes "
    "the identifier and then cancels that cache's timeout task on every path; _on_timeout unregisters the identifier "
    "before the user callback runs and completes each managed future only when it is not done; add stores only when not "
    "shut down and the identifier is free, under the lock, and always registers the timeout task for that same cache; "
    "NumberCache.__init__ / find_unclaimed_identifier refuse numbers in use; shutdown sets the flag, cancels tasks and "
    "futures and clears the table under the lock; all five operations build the identifier through _create_identifier; "
    "_identifiers is private to RequestCache; retrieve_cache turns a missing cache into a no-op; add resolves futures of "
    "the offered cache only when it refuses the cache at shutdown. Constructs are recognised by what they compute (all "
    "definitions of a local, decision tags, dispatch tables, private signatures bound at the call site) and followed into "
    "private helpers and generator helpers. Same-iteration races of pop and expiry are asyncio scheduling semantics and are "
    "not decided."
)

RC = "ipv8/requestcache.py"
TABLE = "self._identifiers"


# ------------------------------------------------------------------------------------ recognisers (semantic, not textual)
def _is_table(fi: FuncInfo, e: ast.AST | None) -> bool:
    """e denotes the identifier table: `self._identifiers` itself or a local alias of it.  An alias is only the same
    dict while the attribute is not rebound in this function (the table is only ever mutated in place)."""
    if e is None:
        return False
    if chain(strip_cast(e)) == TABLE:
        return True
    if rchain(fi, e) != TABLE:
        return False
    return not stores(fi, TABLE)


def _tcalls(fi: FuncInfo, meth: str) -> list[ast.Call]:
    """calls `<table>.<meth>(...)` where <table> is self._identifiers or an alias of it"""
    return [c for c in calls(fi) if isinstance(c.func, ast.Attribute) and c.func.attr == meth and _is_table(fi, c.func.value)]


def _tstores(fi: FuncInfo) -> list[ast.Assign]:
    """statements `<table>[key] = value`"""
    out = []
    for n in walk_no_nested(fi.node):
        if isinstance(n, ast.Assign) and len(n.targets) == 1 and isinstance(n.targets[0], ast.Subscript) and _is_table(fi, n.targets[0].value):
            out.append(n)
    return out


def _table_stores(fi: FuncInfo) -> list[tuple[ast.AST, ast.AST, ast.AST]]:
    """every spelling that puts an entry into the table: (site, key, value) for `T[k] = v`, `T.__setitem__(k, v)`,
    `T.setdefault(k, v)` and `T.update({k: v})`"""
    out = [(st, st.targets[0].slice, st.value) for st in _tstores(fi)]
    for c in _tcalls(fi, "__setitem__") + _tcalls(fi, "setdefault"):
        if len(c.args) == 2 and not c.keywords:
            out.append((c, c.args[0], c.args[1]))
    for c in _tcalls(fi, "update"):
        d = strip_cast(c.args[0]) if len(c.args) == 1 and not c.keywords else None
        if isinstance(d, ast.Dict) and len(d.keys) == 1 and d.keys[0] is not None:
            out.append((c, d.keys[0], d.values[0]))
        else:
            out.append((c, ast.Constant(None), ast.Constant(None)))      # an update whose entries are not spelled out: judged as unknown key
    return out


def _tdeletes(fi: FuncInfo) -> list[tuple[ast.Delete, ast.Subscript]]:
    """statements `del <table>[key]`"""
    return [(n, t) for n in walk_no_nested(fi.node) if isinstance(n, ast.Delete) for t in n.targets
            if isinstance(t, ast.Subscript) and _is_table(fi, t.value)]


def _value_leaves(fi: FuncInfo, e: ast.AST, depth: int = 5) -> list[ast.AST]:
    """The expressions a value can come from: both arms of a conditional expression and ALL definitions of a local name
    (a parameter that is rebound contributes itself and its rebinding values).  Unknown definitions leave the name itself."""
    e = strip_cast(e)
    if depth <= 0:
        return [e]
    if isinstance(e, ast.IfExp):
        return _value_leaves(fi, e.body, depth) + _value_leaves(fi, e.orelse, depth)
    if isinstance(e, ast.Name):
        defs = local_defs(fi, e.id)
        out: list[ast.AST] = [e] if (e.id in fi.params() or not defs) else []
        for _, v, idx in defs:
            if v is None or idx is not None:
                out.append(e)
            else:
                out += _value_leaves(fi, v, depth - 1)
        return out
    if isinstance(e, ast.Attribute) and isinstance(strip_cast(e.value), ast.Name) and strip_cast(e.value).id not in fi.params() \
            and local_defs(fi, strip_cast(e.value).id):
        # `<alias>.attr` where the alias has several (equal) definitions: the attribute of each value
        bases = _value_leaves(fi, e.value, depth - 1)
        if all(chain(b) is not None and not isinstance(b, ast.Call) for b in bases):
            return [ast.Attribute(value=b, attr=e.attr, ctx=ast.Load()) for b in bases]
    return [e]


def _denotes(fi: FuncInfo, e: ast.AST | None, primary: str, also: tuple[str, ...] = ()) -> bool:
    """every value e can take is the expression `primary` (or one of `also`), and `primary` is among them"""
    if e is None:
        return False
    texts = {norm(x) for x in _value_leaves(fi, e)}
    return primary in texts and texts <= {primary, *also}


def _bind_call(call: ast.Call, tgt: FuncInfo) -> dict[str, ast.expr] | None:
    """parameter name -> argument expression of a call to tgt (bound receiver skipped); None when it cannot be told"""
    a = tgt.node.args
    pos = [x.arg for x in a.posonlyargs + a.args]
    if tgt.cls is not None and "staticmethod" not in tgt.decorator_names() and isinstance(call.func, ast.Attribute):
        pos = pos[1:]
    if any(isinstance(x, ast.Starred) for x in call.args) or any(k.arg is None for k in call.keywords) or len(call.args) > len(pos):
        return None
    out = dict(zip(pos, call.args))
    for k in call.keywords:
        if k.arg in out:
            return None
        out[k.arg] = k.value
    return out


def _ident_fn(fi: FuncInfo) -> FuncInfo | None:
    """the function that builds the identifier string, as a method of fi's class or a function of fi's module"""
    ci = fi.cls.lookup("_create_identifier") if fi.cls is not None else None
    return ci or fi.module.functions.get("_create_identifier")


def _ident_roles(ci: FuncInfo) -> tuple[str | None, str | None]:
    """(number parameter, prefix parameter) of _create_identifier: by name; for other names by the order in which they
    enter the reviewed '<prefix>:<number>' string; else by the reviewed positions (number, prefix)."""
    ps = ci.params()
    if ci.cls is not None and "staticmethod" not in ci.decorator_names():
        ps = ps[1:]
    if "number" in ps and "prefix" in ps:
        return "number", "prefix"
    rets = [r for r in walk_no_nested(ci.node) if isinstance(r, ast.Return) and r.value is not None]
    parts = _string_parts(resolve(ci, rets[0].value)) if len(rets) == 1 else None
    vals = [v for k, v in parts or [] if k == "val"]
    if len(vals) == 2 and len(ps) == 2 and set(vals) == set(ps):
        return vals[1], vals[0]
    return (ps[0], ps[1]) if len(ps) >= 2 else (None, None)


def _ident_call_ok(fi: FuncInfo, e: ast.AST, num: str, pre: str) -> bool:
    """e is (on every definition that reaches it) `_create_identifier(..)` with the number parameter bound to `num` and the
    prefix parameter bound to `pre`, whatever the argument order / keyword spelling of the private signature.  Where `pre`
    is the caller's own prefix parameter, the class form `pre.name` is the same identity (has/get/pop convert it that way)."""
    ci = _ident_fn(fi)
    if ci is None or e is None:
        return False
    pnum, ppre = _ident_roles(ci)
    leaves = _value_leaves(fi, e)
    for x in leaves:
        if not (isinstance(x, ast.Call) and call_name(x) == "_create_identifier"):
            return False
        b = _bind_call(x, ci)
        if b is None or pnum is None:
            return False
        if not (_denotes(fi, b.get(pnum), num) and _denotes(fi, b.get(ppre), pre, (pre + ".name",) if "." not in pre else ())):
            return False
    return bool(leaves)


def _absent_fact(fi: FuncInfo, f: Fact, is_key) -> bool:
    """The fact says `key is not registered in the table`:  key not in T  /  T.get(key) is None."""
    if f.op == "in" and not f.pos:
        return _is_table(fi, f.right) and is_key(f.left)
    if f.op == "is" and f.pos and const_value(f.right) is None and isinstance(f.right, ast.Constant):
        g = resolve(fi, f.left)
        if isinstance(g, ast.Call) and isinstance(g.func, ast.Attribute) and g.func.attr == "get" and _is_table(fi, g.func.value) and g.args:
            default_none = len(g.args) == 1 and not g.keywords or (len(g.args) == 2 and isinstance(g.args[1], ast.Constant) and g.args[1].value is None)
            return default_none and is_key(g.args[0])
    return False


def _present_fact(fi: FuncInfo, f: Fact, is_key=lambda e: True) -> bool:
    """The fact says `key is registered`:  key in T  /  T.get(key) is not None."""
    return _absent_fact(fi, Fact(f.op, f.left, f.right, not f.pos, f.atom), is_key)


def _is_none(e: ast.AST | None) -> bool:
    return e is None or (isinstance(e, ast.Constant) and e.value is None)


# --- decisions carried by a local: `refusal = "shutdown" | "duplicate" | None` assigned under the real tests and examined
#     later (`if refusal == "shutdown":`).  A test of such a tag selects the assignments that can have produced the value;
#     whatever held at every one of them held on this path too.
def _const_leaves(e: ast.AST) -> list[ast.AST] | None:
    """the constant alternatives of `c1 if t else c2 ...`; None when some alternative is not a constant"""
    e = strip_cast(e)
    if isinstance(e, ast.IfExp):
        a, b = _const_leaves(e.body), _const_leaves(e.orelse)
        return None if a is None or b is None else a + b
    return [e] if const_value(e) is not NOCONST else None


def _tag_vars(fi: FuncInfo) -> dict[str, list[tuple[ast.stmt, ast.AST, object]]]:
    """locals that only ever hold constants: name -> [(assigning statement, constant expression (the site), value)]"""
    hit = fi.node.__dict__.get("_c10_tags")
    if hit is not None:
        return hit
    out: dict = {}
    names = {n.id for n in walk_no_nested(fi.node) if isinstance(n, ast.Name) and isinstance(n.ctx, ast.Store)}
    for v in sorted(names - set(fi.params())):
        alts = []
        for st, val, idx in local_defs(fi, v):
            leaves = _const_leaves(val) if val is not None and idx is None else None
            if leaves is None:
                alts = None
                break
            alts += [(st, x, const_value(x)) for x in leaves]
        if alts:
            out[v] = alts
    fi.node.__dict__["_c10_tags"] = out
    return out


def _tag_of(f: Fact, tags) -> tuple[str, Fact] | None:
    """f as a fact about a tag variable (constant on the left normalised to the right)"""
    if isinstance(f.left, ast.Name) and f.left.id in tags:
        return f.left.id, f
    if f.op == "eq" and isinstance(f.right, ast.Name) and f.right.id in tags:
        return f.right.id, Fact(f.op, f.right, f.left, f.pos, f.atom)
    return None


def _consistent(k, f: Fact) -> bool:
    """can a variable holding constant k satisfy fact f (about that variable)?  Unknown forms: yes."""
    if f.op == "truthy":
        return bool(k) is f.pos
    c = const_value(f.right) if f.right is not None else NOCONST
    if f.op == "eq" and c is not NOCONST:
        return (k == c and isinstance(k, bool) == isinstance(c, bool)) is f.pos
    if f.op == "is" and c is not NOCONST and (c is None or isinstance(c, bool)):
        return (k is c) is f.pos
    if f.op == "in" and isinstance(f.right, (ast.Tuple, ast.List, ast.Set)) and c is not NOCONST:
        return (k in c) is f.pos
    if f.op == "in" and isinstance(f.right, (ast.List, ast.Set)):
        vals = [const_value(x) for x in f.right.elts]
        if all(x is not NOCONST for x in vals):
            return (k in vals) is f.pos
    return True


def _facts(fi: FuncInfo, cfg, site, depth: int = 2) -> list[Fact]:
    """facts_at + what follows from them: tests of a tag variable bring in the facts common to all assignments of a value
    consistent with the tests; a test of a single-assignment boolean local brings in the atoms of its defining expression."""
    base = facts_at(cfg, site)
    if depth <= 0:
        return base
    out = list(base)

    def add(fs) -> None:
        for x in fs:
            if not any(x.atom is y.atom and x.pos == y.pos for y in out):
                out.append(x)
    tags = _tag_vars(fi)
    about: dict[str, list[Fact]] = {}
    for f in base:
        t = _tag_of(f, tags)
        if t is not None:
            about.setdefault(t[0], []).append(t[1])
        elif f.op == "truthy" and isinstance(f.left, ast.Name) and f.left.id not in fi.params():
            d = local_defs(fi, f.left.id)
            if len(d) == 1 and d[0][1] is not None and d[0][2] is None and isinstance(strip_cast(d[0][1]), (ast.BoolOp, ast.UnaryOp, ast.Compare)):
                add(_atoms_with_polarity(strip_cast(d[0][1]), f.pos))
    for v, fs in about.items():
        feasible = [(st, x) for st, x, k in tags[v] if all(_consistent(k, f) for f in fs)]
        if not feasible:
            continue
        per = [_facts(fi, cfg, x if isinstance(parent(x), ast.IfExp) else st, depth - 1) for st, x in feasible]
        add([x for x in per[0] if all(any(x.atom is y.atom and x.pos == y.pos for y in o) for o in per[1:])])
    return out


def _reach_assuming(cfg, fi: FuncInfo, contradicts, *, cut_nodes=(), follow_exc: bool = True) -> set:
    """Nodes reachable from the entry on paths that are feasible when no fact f with contradicts(f) ever holds: condition
    edges with such a fact are not taken, and tag variables are tracked along the path (an assignment made where a
    contradicting fact holds is not taken; a later test of the tag follows only the outcome its value allows)."""
    tags = _tag_vars(fi)
    defs_at: dict = {}
    for v, alts in tags.items():
        for st, x, k in alts:
            site = x if isinstance(parent(x), ast.IfExp) else st
            if any(contradicts(f) for f in facts_at(cfg, site)):
                continue
            for n in cfg.nodes_for(st):
                if n.ast is st:
                    defs_at.setdefault(n, {}).setdefault(v, []).append(k)
    assigned = {n for v, alts in tags.items() for st, _, _ in alts for n in cfg.nodes_for(st) if n.ast is st}
    cut_nodes = set(cut_nodes)
    seen: set = set()
    reached: set = set()
    todo = [(cfg.entry, ())]
    while todo:
        u, env = todo.pop()
        if (u, env) in seen or u in cut_nodes:
            continue
        seen.add((u, env))
        reached.add(u)
        envs = [dict(env)]
        if u in assigned:
            here = defs_at.get(u, {})
            vs = [v for v, alts in tags.items() if any(n is u for st, _, _ in alts for n in cfg.nodes_for(st))]
            for v in vs:
                envs = [{**e, v: k} for e in envs for k in here.get(v, [])]
        for e in envs:
            for w, lab in u.succ:
                if lab == "exc" and not follow_exc:
                    continue
                if u.kind == "cond" and lab in (True, False) and u.ast is not None:
                    f = fact_of(u.ast, lab)
                    if contradicts(f):
                        continue
                    t = _tag_of(f, tags)
                    if t is not None and t[0] in e and not _consistent(e[t[0]], t[1]):
                        continue
                todo.append((w, tuple(sorted(e.items(), key=lambda kv: kv[0]))))
    return reached


# --- where do the elements of an iteration come from?  kinds: cache (a value of the table / the cache parameter),
#     pair (an entry of <cache>.managed_futures), future (first component of a pair), pairs (a whole managed_futures list)
def _bind(target: ast.AST, kind: str, env: dict) -> bool:
    if isinstance(target, ast.Name):
        env[target.id] = kind
        return True
    if isinstance(target, (ast.Tuple, ast.List)) and kind == "pair" and len(target.elts) == 2 and all(isinstance(t, ast.Name) for t in target.elts):
        env[target.elts[1].id] = "other"
        env[target.elts[0].id] = "future"
        return True
    if isinstance(target, (ast.Tuple, ast.List)) and kind == "item" and len(target.elts) == 2 and all(isinstance(t, ast.Name) for t in target.elts):
        env[target.elts[0].id] = "other"
        env[target.elts[1].id] = "cache"
        return True
    return False


def _unbind(target: ast.AST, env: dict) -> None:
    for n in ast.walk(target):
        if isinstance(n, ast.Name):
            env.pop(n.id, None)


def _elem_kind(fi: FuncInfo, e: ast.AST, env: dict, depth: int = 3) -> str | None:
    e = strip_cast(e)
    if isinstance(e, ast.Name):
        if e.id in env:
            return env[e.id]
        r = resolve(fi, e)
        if r is not e:
            return _elem_kind(fi, r, env, depth - 1) if depth > 0 else None
        # `future, value = <pair>`: the first component of a pair
        d = local_defs(fi, e.id)
        if depth > 0 and len(d) == 1 and d[0][1] is not None and d[0][2] == 0 and e.id not in fi.params() \
                and _elem_kind(fi, d[0][1], env, depth - 1) == "pair":
            return "future"
        # several definitions that all denote the same kind of thing
        if depth > 0 and len(d) > 1 and e.id not in fi.params() and all(v is not None and idx is None for _, v, idx in d):
            kinds = {_elem_kind(fi, v, env, depth - 1) for _, v, _ in d}
            return kinds.pop() if len(kinds) == 1 else None
        return None
    if isinstance(e, ast.Subscript) and isinstance(e.slice, ast.Constant) and e.slice.value == 0 and _elem_kind(fi, e.value, env, depth) == "pair":
        return "future"
    if isinstance(e, ast.Attribute) and e.attr == "managed_futures" and _elem_kind(fi, e.value, env, depth) == "cache":
        return "pairs"
    return None


def _seq_kind(fi: FuncInfo, e: ast.AST, env: dict, depth: int = 4) -> str | None:
    """Kind of the elements produced by iterating e completely (None: unknown, filtered or partial)."""
    e = strip_cast(e)
    if depth <= 0:
        return None
    if isinstance(e, ast.Name) and e.id not in env:
        r = resolve(fi, e)
        return _seq_kind(fi, r, env, depth - 1) if r is not e else None
    if _elem_kind(fi, e, env) == "pairs":
        return "pair"
    if isinstance(e, (ast.List, ast.Tuple, ast.Set)) and e.elts and not any(isinstance(x, ast.Starred) for x in e.elts):
        # a literal collection of caches / of managed_futures lists (`[cache]`, `(cache.managed_futures,)`)
        kinds = {_elem_kind(fi, x, env) for x in e.elts}
        k = kinds.pop() if len(kinds) == 1 else None
        return k if k in ("cache", "pairs", "pair") else None
    if isinstance(e, ast.Call):
        c = chain(e.func)
        if c in ("list", "tuple", "iter") and len(e.args) == 1 and not e.keywords and not isinstance(e.args[0], ast.Starred):
            return _seq_kind(fi, e.args[0], env, depth - 1)
        if isinstance(e.func, ast.Attribute) and e.func.attr == "values" and not e.args and not e.keywords and _is_table(fi, e.func.value):
            return "cache"
        if isinstance(e.func, ast.Attribute) and e.func.attr == "items" and not e.args and not e.keywords and _is_table(fi, e.func.value):
            return "item"
        if c == "map" and len(e.args) == 2 and not e.keywords and _seq_kind(fi, e.args[1], env, depth - 1) == "pair":
            # map(itemgetter(0), pairs) / map(lambda p: p[0], pairs): the futures of the pairs
            f = strip_cast(resolve(fi, e.args[0]))
            if isinstance(f, ast.Call) and (chain(f.func) or "").split(".")[-1] == "itemgetter" and len(f.args) == 1 and const_value(f.args[0]) == 0:
                return "future"
            if isinstance(f, ast.Lambda) and len(f.args.args) == 1 and not f.args.defaults and \
                    _elem_kind(fi, f.body, {**env, f.args.args[0].arg: "pair"}) == "future":
                return "future"
            return None
        if c is not None and (c == "chain.from_iterable" or c.endswith(".chain.from_iterable")) and len(e.args) == 1 and not e.keywords:
            return "pair" if _seq_kind(fi, e.args[0], env, depth - 1) == "pairs" else None
        if c is not None and (c == "chain" or c.endswith("itertools.chain")) and len(e.args) == 1 and isinstance(e.args[0], ast.Starred) and not e.keywords:
            return "pair" if _seq_kind(fi, e.args[0].value, env, depth - 1) == "pairs" else None
        return None
    if isinstance(e, (ast.ListComp, ast.GeneratorExp)):
        env2 = dict(env)
        for g in e.generators:
            if g.ifs or g.is_async:
                return None
            k = _seq_kind(fi, g.iter, env2, depth - 1)
            if k is None or not _bind(g.target, k, env2):
                return None
        return _elem_kind(fi, e.elt, env2)
    return None


def _drain_items(fi: FuncInfo, w: ast.AST) -> list[ast.Assign]:
    """`while <table>: .. = <table>.popitem()`: the loop takes entries out one by one until the table is empty, so it visits
    every entry and leaves the table cleared.  -> the popitem assignments at the loop's own level ([] if w is no such loop)"""
    if not isinstance(w, ast.While) or w.orelse:
        return []
    t = strip_cast(w.test)
    if isinstance(t, ast.Call) and chain(t.func) == "len" and len(t.args) == 1:
        t = t.args[0]
    elif isinstance(t, ast.Compare) and len(t.ops) == 1 and isinstance(t.ops[0], (ast.Gt, ast.NotEq)) and const_value(t.comparators[0]) == 0 \
            and isinstance(t.left, ast.Call) and chain(t.left.func) == "len" and len(t.left.args) == 1:
        t = t.left.args[0]
    if not _is_table(fi, t):
        return []
    out = []
    for st in w.body:
        v = strip_cast(st.value) if isinstance(st, ast.Assign) and len(st.targets) == 1 else None
        if isinstance(v, ast.Call) and isinstance(v.func, ast.Attribute) and v.func.attr == "popitem" and not v.args and _is_table(fi, v.func.value):
            out.append(st)
    return out


def _site_kind(fi: FuncInfo, e: ast.AST, base_env: dict) -> tuple[str | None, list[ast.AST]]:
    """Kind of expression e at its place, from the enclosing binders (outermost first) + those binders: for-statements,
    table-draining while loops and eagerly evaluated comprehensions (`[f.cancel() for .. in ..]`)."""
    loops = [a for a in ancestors(e) if isinstance(a, (ast.For, ast.AsyncFor, ast.ListComp, ast.SetComp)) or _drain_items(fi, a)]
    loops = [l for l in loops if any(x is fi.node for x in ancestors(l))]
    env = dict(base_env)
    for l in reversed(loops):
        if isinstance(l, ast.While):
            for st in _drain_items(fi, l):
                _unbind(st.targets[0], env)
                _bind(st.targets[0], "item", env)
            continue
        if isinstance(l, (ast.ListComp, ast.SetComp)):
            for g in l.generators:
                _unbind(g.target, env)
                k = None if (g.ifs or g.is_async) else _seq_kind(fi, g.iter, env)
                if k is not None:
                    _bind(g.target, k, env)
            continue
        _unbind(l.target, env)
        k = _seq_kind(fi, l.iter, env)
        if k is not None:
            _bind(l.target, k, env)
    return _elem_kind(fi, e, env), loops


def _complete(loops: list[ast.For]) -> bool:
    """no iteration is cut short: no break / return inside, nothing in the loop's else-part"""
    return bool(loops) and not any(isinstance(x, (ast.Break, ast.Return)) for l in loops for x in ast.walk(l))


def _only_done_guards(fi: FuncInfo, facts: list[Fact], fut: ast.AST) -> bool:
    """every condition on the way to the call only skips futures for which the call is a no-op (done / cancelled / None)"""
    for f in facts:
        l = resolve(fi, f.left)
        if f.op == "truthy" and not f.pos and isinstance(l, ast.Call) and isinstance(l.func, ast.Attribute) and l.func.attr in ("done", "cancelled") \
                and _same_value(fi, l.func.value, fut) and not l.args:
            continue
        if f.op == "is" and not f.pos and _is_none(f.right) and _same_value(fi, f.left, fut):
            continue
        if f.op == "truthy" and f.pos and _same_value(fi, f.left, fut):
            continue
        return False
    return True


def _string_parts(e: ast.AST) -> list[tuple[str, str]] | None:
    """A string-building expression as [('lit', text) | ('val', source)]: f-string, '%'-format, str.format, '+'."""
    if isinstance(e, ast.Constant) and isinstance(e.value, str):
        return [("lit", e.value)] if e.value else []
    if isinstance(e, ast.JoinedStr):
        out: list[tuple[str, str]] = []
        for v in e.values:
            if isinstance(v, ast.FormattedValue):
                if v.format_spec is not None or v.conversion not in (-1, 115):
                    return None
                out.append(("val", norm(v.value)))
            else:
                p = _string_parts(v)
                if p is None:
                    return None
                out.extend(p)
        return out
    if isinstance(e, ast.Call) and chain(e.func) == "str" and len(e.args) == 1 and not e.keywords:
        return [("val", norm(e.args[0]))]
    if isinstance(e, ast.BinOp) and isinstance(e.op, ast.Add):
        # an operand of str '+' that is a plain name is a string value itself
        a, b = ([("val", x.id)] if isinstance(x, ast.Name) else _string_parts(x) for x in (e.left, e.right))
        return None if a is None or b is None else a + b
    if isinstance(e, ast.Call) and isinstance(e.func, ast.Attribute) and e.func.attr == "join" and isinstance(e.func.value, ast.Constant) \
            and isinstance(e.func.value.value, str) and len(e.args) == 1 and not e.keywords and isinstance(e.args[0], (ast.Tuple, ast.List)):
        out = []
        for i, x in enumerate(e.args[0].elts):
            px = [("val", x.id)] if isinstance(x, ast.Name) else _string_parts(x)
            if px is None or isinstance(x, ast.Starred):
                return None
            out += ([("lit", e.func.value.value)] if i and e.func.value.value else []) + px
        return out
    fmt, vals, holes = None, None, None
    if isinstance(e, ast.BinOp) and isinstance(e.op, ast.Mod) and isinstance(e.left, ast.Constant) and isinstance(e.left.value, str):
        fmt, holes = e.left.value, ("%s", "%d")
        vals = list(e.right.elts) if isinstance(e.right, ast.Tuple) else [e.right]
    elif isinstance(e, ast.Call) and isinstance(e.func, ast.Attribute) and e.func.attr == "format" and isinstance(e.func.value, ast.Constant) \
            and isinstance(e.func.value.value, str) and not e.keywords and not any(isinstance(a, ast.Starred) for a in e.args):
        fmt, holes, vals = e.func.value.value, ("{}",), list(e.args)
    if fmt is None:
        return None
    out, i, lit = [], 0, ""
    vals = list(vals)
    while i < len(fmt):
        h = next((h for h in holes if fmt.startswith(h, i)), None)
        if h is not None:
            if not vals:
                return None
            if lit:
                out.append(("lit", lit))
                lit = ""
            out.append(("val", norm(vals.pop(0))))
            i += len(h)
        elif fmt[i] in "%{}":
            return None
        else:
            lit += fmt[i]
            i += 1
    if lit:
        out.append(("lit", lit))
    return None if vals else out


# ------------------------------------------------------------------------------------ rules
# --- lazy iteration made explicit.  `for T in <generator>: BODY` runs BODY once per yielded value, interleaved with the
#     generator's own control flow, so it is the generator's code with `T = value; BODY` in place of every yield.  Rules
#     about guards / complete traversal are decided on that expanded form (a private copy; /repo's trees are never touched).
def _own_level(stmts: list, types) -> bool:
    """a statement of one of `types` that belongs to this loop level (not to a nested loop / function)"""
    for st in stmts:
        if isinstance(st, types):
            return True
        if isinstance(st, (ast.For, ast.AsyncFor, ast.While, ast.FunctionDef, ast.AsyncFunctionDef, ast.ClassDef)):
            if _own_level(getattr(st, "orelse", []), types):
                return True
            continue
        for field in ("body", "orelse", "finalbody"):
            if _own_level(getattr(st, field, None) or [], types):
                return True
        if isinstance(st, ast.Try) and any(_own_level(h.body, types) for h in st.handlers):
            return True
    return False


class _Rename(ast.NodeTransformer):
    def __init__(self, mapping: dict[str, str], subst: dict[str, ast.AST] | None = None) -> None:
        self.mapping, self.subst = mapping, subst or {}

    def visit_Name(self, n: ast.Name):
        if n.id in self.subst and isinstance(n.ctx, ast.Load):
            return ast.copy_location(clone(self.subst[n.id]), n)
        if n.id in self.mapping:
            return ast.copy_location(ast.Name(self.mapping[n.id], n.ctx), n)
        return n


def _store(t: ast.AST) -> ast.AST:
    t = clone(t)
    for x in ast.walk(t):
        if isinstance(x, (ast.Name, ast.Tuple, ast.List, ast.Starred, ast.Attribute, ast.Subscript)) and isinstance(getattr(x, "ctx", None), ast.Load):
            x.ctx = ast.Store()
    return t


def _names(node_or_list) -> set[str]:
    nodes = node_or_list if isinstance(node_or_list, list) else [node_or_list]
    return {x.id for n in nodes for x in ast.walk(n) if isinstance(x, ast.Name)}


def _rewrite_blocks(node: ast.AST, fn) -> bool:
    """replace statements s (in any block below node, not in nested functions) by fn(s) when that is not None"""
    changed = False
    blocks = [(node, f) for f in ("body", "orelse", "finalbody")] + [(h, "body") for h in getattr(node, "handlers", [])]
    for owner, field in blocks:
        blk = getattr(owner, field, None)
        if not (isinstance(blk, list) and blk and isinstance(blk[0], ast.stmt)):
            continue
        new = []
        for st in blk:
            r = None if isinstance(st, (ast.FunctionDef, ast.AsyncFunctionDef, ast.ClassDef)) else fn(st)
            if r is not None:
                new.extend(r)
                changed = True
            else:
                if not isinstance(st, (ast.FunctionDef, ast.AsyncFunctionDef, ast.ClassDef)):
                    changed = _rewrite_blocks(st, fn) or changed
                new.append(st)
        setattr(owner, field, new)
    return changed


def _expand_genexp(fn_node: ast.AST, st: ast.For, g: ast.GeneratorExp) -> list | None:
    """for T in (E for x in S if C ...): BODY   ->   for x in S: if C: ...: T = E; BODY"""
    if any(x.is_async for x in g.generators) or _own_level(st.body, (ast.Break,)):
        return None
    if any(isinstance(x, (ast.Lambda, ast.ListComp, ast.SetComp, ast.DictComp, ast.GeneratorExp, ast.NamedExpr, ast.Yield, ast.YieldFrom, ast.Await))
           for x in ast.walk(g) if x is not g):
        return None
    own = {x.id for gen in g.generators for x in ast.walk(gen.target) if isinstance(x, ast.Name)}
    outside = {x.id for x in ast.walk(fn_node) if isinstance(x, ast.Name) and not any(a is g for a in ancestors(x))}
    outside |= {a.arg for a in ast.walk(fn_node) if isinstance(a, ast.arg)} | _names(g.generators[0].iter)
    mapping = {n: n + "_gx" for n in own if n in outside}
    if any(m in outside or m in own for m in mapping.values()):
        return None
    rn = _Rename(mapping)
    gens = []
    for i, gen in enumerate(g.generators):
        it = clone(gen.iter) if i == 0 else rn.visit(clone(gen.iter))
        gens.append((rn.visit(clone(gen.target)), it, [rn.visit(clone(c)) for c in gen.ifs]))
    elt = rn.visit(clone(g.elt))
    inner = [ast.copy_location(ast.Assign([_store(st.target)], elt), st)] + clone(st.body)
    for tgt, it, ifs in reversed(gens):
        for c in reversed(ifs):
            inner = [ast.copy_location(ast.If(c, inner, []), st)]
        inner = [ast.copy_location(ast.For(tgt, it, inner, [], None), st)]
    return inner


def _generator_target(ctx: Ctx, fi: FuncInfo, call: ast.Call) -> tuple[FuncInfo | None, bool]:
    """(the one generator function of this repository that `call` invokes, its shape can be expanded)"""
    tg = [t for t in ctx.repo.resolve_call(fi, call) if isinstance(t, FuncInfo)]
    if len(tg) != 1 or tg[0].is_async or tg[0].node is fi.node:
        return None, False
    t = tg[0]
    own = list(walk_no_nested(t.node))
    if not any(isinstance(x, (ast.Yield, ast.YieldFrom)) for x in own):
        return None, False
    a = t.node.args
    if a.vararg or a.kwarg or any(d not in ("staticmethod", "classmethod") for d in t.decorator_names()):
        return t, False
    if any(isinstance(x, (ast.Return, ast.Try, ast.With, ast.AsyncWith, ast.Global, ast.Nonlocal, ast.Await, ast.NamedExpr,
                          ast.FunctionDef, ast.AsyncFunctionDef, ast.ClassDef, ast.Lambda)) and x is not t.node for x in own):
        return t, False
    for x in own:
        if isinstance(x, (ast.Yield, ast.YieldFrom)) and not isinstance(parent(x), ast.Expr):
            return t, False
    return t, True


def _expand_gencall(fn_node: ast.AST, st: ast.For, call: ast.Call, t: FuncInfo) -> list | None:
    """for T in helper(args): BODY   ->   helper's body with every `yield v` replaced by `T = v; BODY`"""
    if _own_level(st.body, (ast.Break, ast.Continue)):
        return None
    a = t.node.args
    params = [x.arg for x in a.posonlyargs + a.args + a.kwonlyargs]
    bound: dict[str, ast.AST] = {}
    pos = [x.arg for x in a.posonlyargs + a.args]
    decs = t.decorator_names()
    b = _bind_call(call, t)
    if b is None:
        return None
    if t.cls is not None and "staticmethod" not in decs:
        if not (isinstance(call.func, ast.Attribute) and pos):
            return None
        if "classmethod" not in decs:
            bound[pos[0]] = call.func.value
    bound.update(b)
    allpos = a.posonlyargs + a.args
    for p_, d in zip(allpos[len(allpos) - len(a.defaults):], a.defaults):
        bound.setdefault(p_.arg, d)
    for p_, d in zip(a.kwonlyargs, a.kw_defaults):
        if d is not None:
            bound.setdefault(p_.arg, d)
    body = clone([x for i, x in enumerate(t.node.body)
                  if not (i == 0 and isinstance(x, ast.Expr) and isinstance(x.value, ast.Constant) and isinstance(x.value.value, str))])
    stored = {x.id for n in body for x in ast.walk(n) if isinstance(x, ast.Name) and isinstance(x.ctx, (ast.Store, ast.Del))}
    caller_names = _names(fn_node) | {x.arg for x in ast.walk(fn_node) if isinstance(x, ast.arg)}
    subst: dict[str, ast.AST] = {}
    mapping: dict[str, str] = {}
    pre: list = []
    for p_ in params:
        if p_ not in bound:
            if p_ in _names(body):
                return None
            continue
        v = bound[p_]
        simple = isinstance(v, ast.Constant) or chain(v) is not None and not any(isinstance(x, (ast.Call, ast.Subscript)) for x in ast.walk(v))
        if simple and p_ not in stored:
            subst[p_] = v
        else:
            new = p_ + "_gen"
            if new in caller_names:
                return None
            mapping[p_] = new
            pre.append(ast.copy_location(ast.Assign([ast.Name(new, ast.Store())], clone(v)), st))
    for n_ in stored - set(params):
        if n_ in caller_names:
            if n_ + "_gen" in caller_names:
                return None
            mapping[n_] = n_ + "_gen"
    rn = _Rename(mapping, subst)
    body = [rn.visit(x) for x in body]
    sites = [0]

    def repl(x):
        if isinstance(x, ast.Expr) and isinstance(x.value, ast.Yield):
            sites[0] += 1
            v = x.value.value if x.value.value is not None else ast.Constant(None)
            return [ast.copy_location(ast.Assign([_store(st.target)], v), st)] + clone(st.body)
        if isinstance(x, ast.Expr) and isinstance(x.value, ast.YieldFrom):
            sites[0] += 1
            return [ast.copy_location(ast.For(_store(st.target), x.value.value, clone(st.body), [], None), st)]
        return None
    holder = ast.Module(body, [])
    _rewrite_blocks(holder, repl)
    if sites[0] != 1 or any(isinstance(x, (ast.Yield, ast.YieldFrom)) for n in holder.body for x in ast.walk(n)):
        return None          # several yield points would duplicate BODY (and the definitions of T): left alone
    return pre + holder.body


def _view(ctx: Ctx, fi: FuncInfo) -> FuncInfo:
    """fi, with every `for` over a filtered generator expression or over a call of a generator helper expanded in place"""
    store = ctx.__dict__.setdefault("_c10_views", {})
    hit = store.get(id(fi.node))
    if hit is not None and hit[0] is fi.node:
        return hit[1]
    view = fi
    if any(isinstance(x, ast.For) and isinstance(strip_cast(x.iter), (ast.GeneratorExp, ast.Call)) for x in walk_no_nested(fi.node)):
        node = clone(fi.node)
        changed = False
        for _ in range(4):
            set_parents(node)
            tmp = FuncInfo(fi.name, fi.qualname, node, fi.module, fi.cls)

            def fn(st, tmp=tmp, node=node):
                if not isinstance(st, ast.For) or st.orelse:
                    return None
                it = strip_cast(st.iter)
                if isinstance(it, ast.GeneratorExp) and any(g.ifs for g in it.generators):
                    return _expand_genexp(node, st, it)
                if isinstance(it, ast.Call):
                    t, supported = _generator_target(ctx, tmp, it)
                    r = _expand_gencall(node, st, it, t) if supported else None
                    if t is not None and r is None:
                        raise AnalysisError(f"undecided: {fi.qualname} iterates the generator helper {t.qualname} in a shape that cannot be expanded "
                                            "(several yield points, try/with/return in the generator, break/continue in the loop body)")
                    return r
                return None
            if not _rewrite_blocks(node, fn):
                break
            changed = True
        if changed:
            ast.fix_missing_locations(node)
            set_parents(node)
            view = FuncInfo(fi.name, fi.qualname, node, fi.module, fi.cls)
    store[id(fi.node)] = (fi.node, view)
    return view


def _impl(ctx: Ctx, name: str) -> FuncInfo:
    impl = [f for f in ctx.repo.module(RC).all_functions if f.qualname == f"RequestCache.{name}" and not any("overload" in d for d in f.decorator_names())]
    ctx.anchor(impl, f"RequestCache.{name}")
    return impl[-1]


def _removals(fi: FuncInfo) -> list[tuple[ast.AST, ast.AST | None, str]]:
    """every way an entry leaves the table in fi: (site, key, 'pop' | 'del') for T.pop(key[, default]) and `del T[key]`"""
    return [(p, arg(p, 0, "key"), "pop") for p in _tcalls(fi, "pop")] + [(d, t.slice, "del") for d, t in _tdeletes(fi)]


def _is_var(fi: FuncInfo, e: ast.AST | None, var: str | None) -> bool:
    """e is the local `var` (or a single-assignment alias of it)"""
    if e is None or var is None:
        return False
    e = strip_cast(e)
    if isinstance(e, ast.Name) and e.id == var:
        return True
    r = resolve(fi, e)
    if isinstance(r, ast.Name) and r.id == var:
        return True
    leaves = _value_leaves(fi, e)
    return bool(leaves) and all(isinstance(x, ast.Name) and x.id == var for x in leaves)


def _claimed_vars(ctx: Ctx, fi: FuncInfo, site: ast.AST, key: ast.AST | None, how: str) -> list[str]:
    """locals that hold the cache removed at `site`: the result of T.pop(key), or - for `del T[key]` - a read `T[key]` /
    `T.get(key)` of the same key that is completed on every path to the removal"""
    cfg = ctx.cfg(fi)
    out = []
    if how == "pop":
        st = enclosing_stmt(site)
        if isinstance(st, ast.Assign) and len(st.targets) == 1 and isinstance(st.targets[0], ast.Name) and strip_cast(st.value) is site:
            out.append(st.targets[0].id)
        elif isinstance(st, ast.AnnAssign) and isinstance(st.target, ast.Name) and st.value is not None and strip_cast(st.value) is site:
            out.append(st.target.id)
        return out
    if key is None:
        return out
    for n in walk_no_nested(fi.node):
        if not (isinstance(n, ast.Assign) and len(n.targets) == 1 and isinstance(n.targets[0], ast.Name)):
            continue
        v = strip_cast(n.value)
        read = None
        if isinstance(v, ast.Subscript) and _is_table(fi, v.value):
            read = v.slice
        elif isinstance(v, ast.Call) and isinstance(v.func, ast.Attribute) and v.func.attr == "get" and _is_table(fi, v.func.value) and len(v.args) == 1:
            read = v.args[0]
        if read is None or not same_resolved(fi, read, key) or len(local_defs(fi, n.targets[0].id)) != 1:
            continue
        dn = cfg.nodes_for(n)
        if dn and all(cfg.must_complete(sn, dn) for sn in cfg.nodes_for(site)):
            out.append(n.targets[0].id)
    return out


def _pop_via_helper(ctx: Ctx, fi: FuncInfo) -> bool:
    """pop() hands the removal to a private method (`return self._claim(identifier)` / `cache = self._take(prefix, number)`):
    the same three facts are decided across the call - the helper removes exactly the identifier built from pop's
    (number, prefix) and lets the KeyError out; the removed cache's timeout task is cancelled on every path after the removal
    (in the helper, or by pop on the helper's result); pop returns that cache."""
    cfg = ctx.cfg(fi)
    found = False
    for c in calls(fi):
        ch = chain(c.func) or ""
        m = fi.cls.lookup(ch[5:]) if fi.cls is not None and ch.startswith("self.") and ch.count(".") == 1 else None
        if m is None or m.node is fi.node or m.is_async or m.cls is not fi.cls:
            continue
        m = _view(ctx, m)
        rem = _removals(m)
        b = _bind_call(c, m)
        if not rem or b is None:
            continue
        found = True
        mc = ctx.cfg(m)
        num, pre = fi.params()[2], fi.params()[1]
        qnum = next((k for k, v in b.items() if _denotes(fi, v, num)), "?")
        qpre = next((k for k, v in b.items() if _denotes(fi, v, pre, (pre + ".name",))), "?")

        def key_ok(key, m=m, b=b, qnum=qnum, qpre=qpre, num=num, pre=pre) -> bool:
            leaves = _value_leaves(m, key) if key is not None else []
            return bool(leaves) and all(_ident_call_ok(fi, b[x.id], num, pre) if isinstance(x, ast.Name) and x.id in b and not local_defs(m, x.id)
                                        else _ident_call_ok(m, x, qnum, qpre) for x in leaves)
        # the variable of pop that receives the helper's result
        st = enclosing_stmt(c)
        outer = st.targets[0].id if isinstance(st, ast.Assign) and len(st.targets) == 1 and isinstance(st.targets[0], ast.Name) and strip_cast(st.value) is c else None
        returned_directly = isinstance(st, ast.Return) and st.value is not None and strip_cast(st.value) is c
        for p, key, how in rem:
            vars_ = _claimed_vars(ctx, m, p, key, how)
            inner = [n for x in calls(m, "self.cancel_pending_task") if any(_is_var(m, arg(x, 0, "name"), v) for v in vars_) for n in mc.nodes_for(x)]
            in_helper = bool(vars_) and bool(inner) and all(mc.always_followed_by(pn, inner) for pn in mc.nodes_for(p))
            rets = [r for r in walk_no_nested(m.node) if isinstance(r, ast.Return) and not _is_none(r.value)]
            gives = bool(rets) and all(any(_is_var(m, r.value, v) for v in vars_) or strip_cast(resolve(m, r.value)) is p for r in rets)
            outer_c = [n for x in calls(fi, "self.cancel_pending_task") if _is_var(fi, arg(x, 0, "name"), outer) for n in cfg.nodes_for(x)]
            by_caller = gives and outer is not None and bool(outer_c) and all(cfg.always_followed_by(cn, outer_c) for cn in cfg.nodes_for(c)) \
                and mc.exit not in mc.reach(cut_nodes=[n for r in rets for n in mc.nodes_for(r)])
            ctx.check(in_helper or by_caller, "pop-cancels", m, p, "after _identifiers.pop(id) every normal path cancels that cache's timeout task",
                      "a claimed request keeps its timeout task: the timeout fires after the response was handled")
            raises = (how == "del" or (len(p.args) == 1 and not p.keywords)) and _catching_handler(p) is None and _catching_handler(c) is None
            ctx.check(key_ok(key) and raises, "pop-cancels", m, p,
                      "pop removes exactly _create_identifier(number, prefix) and raises KeyError when absent",
                      "pop uses a different identifier or silently tolerates a missing cache (a late response would find a default)")
            back = returned_directly or any(isinstance(r, ast.Return) and r.value is not None and _is_var(fi, r.value, outer) for r in walk_no_nested(fi.node))
            ctx.check(gives and back, "pop-cancels", m, p, "pop returns the removed cache", "pop does not return the removed cache")
    return found


def rule_pop(ctx: Ctx) -> None:
    # overloads: the real implementation is the definition without @overload
    fi = _view(ctx, _impl(ctx, "pop"))
    cfg = ctx.cfg(fi)
    if not _removals(fi) and _pop_via_helper(ctx, fi):
        return
    rem = ctx.anchor(_removals(fi), "_identifiers.pop in pop")
    for p, key, how in rem:
        vars_ = _claimed_vars(ctx, fi, p, key, how)
        cancels = [c for c in calls(fi, "self.cancel_pending_task") if any(_is_var(fi, arg(c, 0, "name"), v) for v in vars_)]
        cn = [n for c in cancels for n in cfg.nodes_for(c)]
        ok = bool(vars_) and bool(cn) and all(cfg.always_followed_by(pn, cn) for pn in cfg.nodes_for(p))
        ctx.check(ok, "pop-cancels", fi, p, "after _identifiers.pop(id) every normal path cancels that cache's timeout task",
                  "a claimed request keeps its timeout task: the timeout fires after the response was handled")
        # a missing identifier must raise KeyError: one-argument dict.pop and `del` do; pop with a default only below a
        # test that the key is registered
        raises = how == "del" or (len(p.args) == 1 and not p.keywords) or \
            any(_present_fact(fi, f, lambda e: key is not None and same_resolved(fi, e, key)) for f in _facts(fi, cfg, p))
        ctx.check(_ident_call_ok(fi, key, fi.params()[2], fi.params()[1]) and raises, "pop-cancels", fi, p,
                  "pop removes exactly _create_identifier(number, prefix) and raises KeyError when absent",
                  "pop uses a different identifier or silently tolerates a missing cache (a late response would find a default)")
        rets = [r for r in walk_no_nested(fi.node) if isinstance(r, ast.Return) and r.value is not None and any(_is_var(fi, r.value, v) for v in vars_)]
        ctx.check(bool(rets), "pop-cancels", fi, p, "pop returns the removed cache", "pop does not return the removed cache")


def _timeout_binding(ctx: Ctx, fi: FuncInfo) -> tuple[str, dict[str, tuple[FuncInfo, ast.AST, str]]]:
    """How _on_timeout is handed its cache: add() registers `register_task(cache, self._on_timeout, *args, delay=..)`, so the
    parameter of _on_timeout that receives add's cache is the expired cache (whatever its position), and any other
    parameter stands for the expression add passes for it.  -> (cache parameter, {other parameter: (add, expression, add's cache)})"""
    ps = fi.params()[1:]
    try:
        af, acache, _ = _add_body(ctx)
    except AnalysisError:
        return ps[0], {}
    for c in calls(af, "self.register_task"):
        t = arg(c, 1, "task")
        if t is None or rchain(af, t) != "self._on_timeout" or any(isinstance(a, ast.Starred) for a in c.args):
            continue
        extra = list(c.args[2:])
        named = {k.arg: k.value for k in c.keywords if k.arg in ps}
        bound = dict(zip(ps, extra)) | named
        q = next((k for k, v in bound.items() if _is_var(af, v, acache)), None)
        if q is not None:
            return q, {k: (af, v, acache) for k, v in bound.items() if k != q}
    return ps[0], {}


def _unregister_scan(ctx: Ctx, fi: FuncInfo, cache: str, depth: int = 2, handed: dict | None = None) -> dict:
    """Where fi takes the identifier of `cache` out of the table, and which of fi's nodes can be reached while it may still
    be registered.  A call `self.m(.., cache, ..)` of a method that cannot end normally with the identifier still registered
    unregisters it as well (decision/action split: the helper may report what it found; only its effect matters here)."""
    cfg = ctx.cfg(fi)

    def is_key(e) -> bool:
        # a parameter that the registration in add() fills with the identifier it stored under is that identifier
        leaves = _value_leaves(fi, e)
        return bool(leaves) and all(
            _ident_call_ok(handed[x.id][0], handed[x.id][1], f"{handed[x.id][2]}.number", f"{handed[x.id][2]}.prefix")
            if isinstance(x, ast.Name) and handed and x.id in handed and not local_defs(fi, x.id)
            else _ident_call_ok(fi, x, f"{cache}.number", f"{cache}.prefix") for x in leaves)
    rem3 = _removals(fi)
    removals = [(fi, p, key is not None and is_key(key)) for p, key, _ in rem3]
    # `del T[id]` / one-argument T.pop(id) raise KeyError exactly when the identifier is absent: where that KeyError is caught
    # inside the function, leaving the removal by its exception edge is the outcome "not registered"
    absent_exc = {n for p, _, how in rem3 if (how == "del" or (len(p.args) == 1 and not p.keywords)) and _catching_handler(p, ("KeyError", "LookupError")) is not None
                  for n in cfg.nodes_for(p)}
    done = [n for p, _, _ in rem3 for n in cfg.nodes_for(p)]
    if depth > 0 and fi.cls is not None:
        for c in calls(fi):
            ch = chain(c.func) or ""
            m = fi.cls.lookup(ch[5:]) if ch.startswith("self.") and ch.count(".") == 1 else None
            if m is None or m.node is fi.node or m.is_async or m.cls is not fi.cls:
                continue
            b = _bind_call(c, m) or {}
            q = next((k for k, v in b.items() if _is_var(fi, v, cache)), None)
            if q is None:
                continue
            m = _view(ctx, m)
            sub = _unregister_scan(ctx, m, q, depth - 1)
            removals += sub["removals"]
            if sub["removals"] and ctx.cfg(m).exit not in sub["registered"]:
                done += cfg.nodes_for(c)

    def absent_edge(a, b, lab) -> bool:
        # leaving a test with the outcome "this identifier is not registered"
        if lab == "exc" and a in absent_exc:
            return True
        return a.kind == "cond" and lab in (True, False) and (_absent_fact(fi, fact_of(a.ast, lab), is_key)
                                                              or _has_fact(fi, fact_of(a.ast, lab), "self", f"{cache}.prefix", f"{cache}.number"))
    return {"removals": removals, "registered": cfg.reach(cut_out_normal=done, cut_edge=absent_edge)}


def rule_on_timeout(ctx: Ctx) -> None:
    fi = _view(ctx, _impl(ctx, "_on_timeout"))
    cfg = ctx.cfg(fi)
    cache, handed = _timeout_binding(ctx, fi)
    ucalls = [c for c in calls(fi) if chain(c.func) == f"{cache}.on_timeout"]
    ctx.check(len(ucalls) == 1 and not any(isinstance(a, (ast.For, ast.While)) for a in ancestors(ucalls[0])) if ucalls else False,
              "timeout-unregisters-first", fi, fi.node, "cache.on_timeout() is called exactly once", "the timeout callback is called more or less than once")
    # removal of the identifier:  T.pop(id) / T.pop(id, default) / del T[id], here or in a helper that is handed the cache
    scan = _unregister_scan(ctx, fi, cache, handed=handed)
    ctx.anchor(scan["removals"], "_identifiers.pop in _on_timeout")
    for f2, p, ok in scan["removals"]:
        ctx.check(ok, "timeout-unregisters-first", f2, p,
                  "the expired cache's own identifier is removed", "_on_timeout removes a different identifier")
    for u in ucalls:
        for un in cfg.nodes_for(u):
            ctx.check(un not in scan["registered"], "timeout-unregisters-first", fi, u, "identifier removed (or already absent) before the user callback runs",
                      "on_timeout runs while the identifier is still registered: a pop from inside the callback, or a late response, resolves the request a second time")
    sets = _completion_sites(fi)
    ctx.floor("timeout-unregisters-first.futures", sum(len(alts) for _, alts in sets), 2)
    visited = False
    for s, alts in sets:
        fs = _facts(fi, cfg, s)
        base = alts[0]
        one_future = all(_same_value(fi, a, base) for a in alts)
        ok = one_future and any(_done_fact(fi, f, base) for f in fs)
        un = [n for u in ucalls for n in cfg.nodes_for(u)]
        after = all(cfg.must_complete(sn, un) for sn in cfg.nodes_for(s))
        ctx.check(ok and after, "timeout-unregisters-first", fi, s, "managed future completed only if not done, after the callback",
                  "a tied future is completed twice or before the timeout callback", [str(f) for f in fs])
        kind, loops = _site_kind(fi, base, {cache: "cache"})
        visited = visited or (kind == "future" and _complete(loops))
    ctx.check(visited, "timeout-unregisters-first", fi, fi.node, "every managed future is visited", "not all futures tied to the cache are completed on timeout")


def _same_value(fi: FuncInfo, a: ast.AST, b: ast.AST) -> bool:
    """same expression after following single-assignment aliases (`future, value = entry_f, entry_v`)"""
    return norm(a) == norm(b) or norm(resolve(fi, a)) == norm(resolve(fi, b))


def _done_fact(fi: FuncInfo, f: Fact, fut: ast.AST) -> bool:
    """the fact `not <fut>.done()`"""
    if not (f.op == "truthy" and not f.pos):
        return False
    l = resolve(fi, f.left)
    return isinstance(l, ast.Call) and isinstance(l.func, ast.Attribute) and l.func.attr == "done" and not l.args and _same_value(fi, l.func.value, fut)


def _callee_alts(fi: FuncInfo, f: ast.AST, depth: int = 4) -> list[ast.AST]:
    """What a callee expression can denote: a callable picked by a conditional expression, from ALL definitions of a local,
    from a dict / tuple literal dispatch table (the set of its values) or by getattr with constant names."""
    f = strip_cast(f)
    if depth <= 0:
        return [f]
    if isinstance(f, ast.IfExp):
        return _callee_alts(fi, f.body, depth) + _callee_alts(fi, f.orelse, depth)
    if isinstance(f, ast.BoolOp):
        return [x for v in f.values for x in _callee_alts(fi, v, depth)]
    if isinstance(f, ast.Name):
        defs = local_defs(fi, f.id)
        if defs and f.id not in fi.params() and all(v is not None and idx is None for _, v, idx in defs):
            return [x for _, v, _ in defs for x in _callee_alts(fi, v, depth - 1)]
        return [f]
    table = None
    if isinstance(f, ast.Subscript):
        table = resolve(fi, f.value)
    elif isinstance(f, ast.Call) and isinstance(f.func, ast.Attribute) and f.func.attr == "get" and f.args:
        table = resolve(fi, f.func.value)
        if isinstance(table, ast.Dict) and len(f.args) == 2:
            return [x for v in [*table.values, f.args[1]] for x in _callee_alts(fi, v, depth - 1)]
    if isinstance(table, ast.Dict) and table.values and all(k is not None for k in table.keys):
        return [x for v in table.values for x in _callee_alts(fi, v, depth - 1)]
    if isinstance(table, (ast.Tuple, ast.List)) and isinstance(f, ast.Subscript) and table.elts and not any(isinstance(x, ast.Starred) for x in table.elts):
        return [x for v in table.elts for x in _callee_alts(fi, v, depth - 1)]
    if isinstance(f, ast.Call) and chain(f.func) == "getattr" and len(f.args) == 2 and not f.keywords:
        names = [const_value(x) for x in _value_leaves(fi, f.args[1])]
        if names and all(isinstance(n, str) for n in names):
            return [ast.Attribute(value=f.args[0], attr=n, ctx=ast.Load()) for n in names]
    return [f]


def _receiver(c: ast.Call, a: ast.Attribute) -> ast.AST:
    """the future a completion acts on: `<future>.set_result(v)`, or the first argument of the unbound `Future.set_result(<future>, v)`"""
    if (chain(a.value) or "").split(".")[-1] == "Future" and c.args and not isinstance(c.args[0], ast.Starred):
        return c.args[0]
    return a.value


def _completion_sites(fi: FuncInfo) -> list[tuple[ast.Call, list[ast.AST]]]:
    """calls that complete a future: (call, the future of every `set_result` / `set_exception` method the call may invoke)"""
    out = []
    for c in calls(fi):
        alts = [a for a in _callee_alts(fi, c.func) if isinstance(a, ast.Attribute) and a.attr in ("set_result", "set_exception")]
        if alts:
            out.append((c, [_receiver(c, a) for a in alts]))
    return out


def _delay_leaves(ctx: Ctx, fi: FuncInfo, e: ast.AST, bind: dict[str, str], depth: int = 3) -> list[str]:
    """Source texts (parameters of helpers substituted by the caller's arguments) of the values a delay expression can take."""
    e = strip_cast(e)
    if depth <= 0:
        return [norm(e)]
    if isinstance(e, ast.IfExp):
        return _delay_leaves(ctx, fi, e.body, bind, depth) + _delay_leaves(ctx, fi, e.orelse, bind, depth)
    if isinstance(e, ast.Name) and e.id not in fi.params():
        out = []
        for _, v, idx in local_defs(fi, e.id):
            out += _delay_leaves(ctx, fi, v, bind, depth - 1) if v is not None and idx is None else ["?"]
        return out or [e.id]
    if isinstance(e, ast.Call) and chain(e.func) is not None and chain(e.func).count(".") <= 1 and ctx.repo.resolve_call(fi, e):
        # a helper (method, static method or module function) that selects the delay: its return values, with parameters
        # bound to our arguments
        out = []
        for tgt in ctx.repo.resolve_call(fi, e):
            if not isinstance(tgt, FuncInfo) or tgt.is_async or tgt.name == "__init__":
                return ["?"]
            b = _bind_call(e, tgt)
            if b is None:
                return ["?"]
            b2 = {k: _subst_expr(v, bind) for k, v in b.items()}
            rets = [r for r in walk_no_nested(tgt.node) if isinstance(r, ast.Return)]
            for r in rets:
                out += _delay_leaves(ctx, tgt, r.value, b2, depth - 1) if r.value is not None else ["None"]
        return out or ["?"]
    return [_subst_expr(x, bind) for x in (_value_leaves(fi, e) if isinstance(e, ast.Attribute) else [e])]


def _subst(text: str, bind: dict[str, str]) -> str:
    return bind.get(text, text)


def _subst_expr(e: ast.AST, bind: dict[str, str]) -> str:
    # `<param>.attr` / `<param>` of a helper, written in the caller's terms
    if isinstance(e, ast.Attribute) and isinstance(e.value, ast.Name) and e.value.id in bind:
        return f"{bind[e.value.id]}.{e.attr}"
    if isinstance(e, ast.Name) and e.id in bind:
        return bind[e.id]
    return norm(e)


def _holds_lock(n: ast.AST) -> bool:
    return any(isinstance(a, (ast.With, ast.AsyncWith)) and any(chain(i.context_expr) == "self.lock" for i in a.items) for a in ancestors(n))


def _add_body(ctx: Ctx) -> tuple[FuncInfo, str, bool]:
    """The function that does add()'s work, the name the offered cache has there, and whether its caller already holds the
    lock: add itself, or - when add no longer touches the table and only hands the cache on (`with self.lock: return
    self._add_locked(cache)`) - the one private method it hands it to, provided add returns that method's result."""
    fi = _view(ctx, _impl(ctx, "add"))
    cache = fi.params()[1]
    if _table_stores(fi) or fi.cls is None:
        return fi, cache, False
    cands = []
    for c in calls(fi):
        ch = chain(c.func) or ""
        m = fi.cls.lookup(ch[5:]) if ch.startswith("self.") and ch.count(".") == 1 else None
        if m is None or m.node is fi.node or m.is_async or m.cls is not fi.cls:
            continue
        b = _bind_call(c, m) or {}
        q = next((k for k, v in b.items() if _is_var(fi, v, cache)), None)
        if q is not None and _table_stores(_view(ctx, m)):
            cands.append((c, _view(ctx, m), q))
    if len(cands) != 1:
        return fi, cache, False
    c, m, q = cands[0]
    cfg = ctx.cfg(fi)
    # add's result is the helper's result on every path that ends normally
    rets = [r for r in walk_no_nested(fi.node) if isinstance(r, ast.Return) and r.value is not None and strip_cast(resolve(fi, r.value)) is c]
    rn = [n for r in rets for n in cfg.nodes_for(r)]
    if not rets or cfg.exit in cfg.reach(cut_nodes=rn, follow_exc=False):
        return fi, cache, False
    return m, q, _holds_lock(c)


def rule_add(ctx: Ctx) -> None:
    fi, cache, outer_lock = _add_body(ctx)
    cfg = ctx.cfg(fi)

    def shut(f: Fact, pos: bool) -> bool:
        return f.op == "truthy" and f.pos is pos and chain(resolve(fi, f.left)) == "self._shutdown"

    def locked(n) -> bool:
        return outer_lock or _holds_lock(n)

    stores_ = _table_stores(fi)
    ctx.anchor(stores_, "_identifiers[...] = cache in add")
    sts = [st for st, _, _ in stores_]
    for st, key, value in stores_:
        fs = _facts(fi, cfg, st)
        not_shut = any(shut(f, False) for f in fs)
        free = any(_absent_fact(fi, f, lambda e: same_resolved(fi, e, key)) or _has_fact(fi, f, "self", f"{cache}.prefix", f"{cache}.number") for f in fs)
        ident = _ident_call_ok(fi, key, f"{cache}.number", f"{cache}.prefix")
        ctx.check(not_shut and free and locked(st) and ident and _is_var(fi, value, cache), "add-gates", fi, st,
                  "store dominated by not _shutdown and identifier not in _identifiers, under the lock, keyed by _create_identifier(number, prefix)",
                  f"a cache can be added after shutdown / over a live identifier / outside the lock (not_shutdown={not_shut} free={free} locked={locked(st)} ident={ident})",
                  [str(f) for f in fs])
        regs = [c for c in calls(fi, "self.register_task") if _is_var(fi, arg(c, 0, "name"), cache) and arg(c, 1, "task") is not None
                and rchain(fi, arg(c, 1, "task")) == "self._on_timeout" and arg(c, None, "delay") is not None
                and any(_is_var(fi, a, cache) for a in [*c.args[2:], *[k.value for k in c.keywords if k.arg != "delay"]])]
        rn = [n for c in regs for n in cfg.nodes_for(c)]
        ok = bool(rn) and all(cfg.always_followed_by(sn, rn) for sn in cfg.nodes_for(st))
        ctx.check(ok, "add-gates", fi, st, "every registered cache gets its timeout task register_task(cache, _on_timeout, cache, delay=..)",
                  "a cache is stored without a timeout task: it is never resolved if no response arrives")
        for c in regs:
            leaves = _delay_leaves(ctx, fi, arg(c, None, "delay"), {})
            ok_d = f"{cache}.timeout_delay" in leaves
            ctx.check(ok_d, "add-gates", fi, c, "timeout delay is the cache's timeout_delay (or the passthrough override)",
                      "the timeout task is not scheduled with the cache's own timeout_delay", [f"delay values: {sorted(set(leaves))}"])
    # success is reported only after the store: every other way out (shutdown, duplicate) returns None.  A returned local
    # (result variable) is judged by its definitions: each one that is not None must itself come after the store.
    sn = [n for st in sts for n in cfg.nodes_for(st)]

    def after_store(x: ast.AST) -> bool:
        return all(cfg.must_complete(n, sn) for n in cfg.nodes_for(x))

    def unstored_sources(r: ast.Return) -> list[ast.AST]:
        v = strip_cast(r.value) if r.value is not None else None
        if _is_none(v):
            return []
        if isinstance(v, ast.Name) and v.id not in fi.params():
            defs = local_defs(fi, v.id)
            if defs and all(val is not None and idx is None for _, val, idx in defs):
                return [st for st, val, _ in defs if not _is_none(strip_cast(val)) and not after_store(st)]
        return [] if after_store(r) else [r]
    for r in [r for r in walk_no_nested(fi.node) if isinstance(r, ast.Return)]:
        fs = _facts(fi, cfg, r)
        bad = unstored_sources(r)
        if any(shut(f, True) for f in fs):
            ctx.check(not bad, "add-gates", fi, r, "add after shutdown returns None", "add after shutdown reports success")
        elif any(_present_fact(fi, f) or _has_fact(fi, Fact(f.op, f.left, f.right, not f.pos, f.atom), "self", f"{cache}.prefix", f"{cache}.number") for f in fs):
            ctx.check(not bad, "add-gates", fi, r, "duplicate add returns None", "duplicate add reports success")
        elif not after_store(r):
            ctx.check(not bad, "add-gates", fi, r, "add returns None unless the cache was stored", "add reports success without having stored the cache")
    # the shutdown branch cancels the futures tied to the refused cache
    cancels = []
    for c in calls(fi):
        if call_name(c) == "cancel" and isinstance(c.func, ast.Attribute) and any(shut(f, True) for f in _facts(fi, cfg, c)):
            kind, loops = _site_kind(fi, c.func.value, {cache: "cache"})
            if kind == "future" and _complete(loops):
                cancels.append((c, loops))
    ctx.check(bool(cancels), "add-gates", fi, fi.node, "futures of a cache refused at shutdown are cancelled",
              "futures tied to a cache that is refused after shutdown are left pending forever")
    if cancels:
        # no way through add that is possible while _shutdown is set gets to the end without passing such a loop
        ln = [n for _, loops in cancels for n in cfg.nodes_for(loops[-1])]
        r = _reach_assuming(cfg, fi, lambda f: shut(f, False), cut_nodes=ln, follow_exc=False)
        ctx.check(cfg.exit not in r, "add-gates", fi, cancels[0][0], "every refusal at shutdown passes the loop that cancels the tied futures",
                  "a path refuses the cache at shutdown without cancelling its futures")
    # ... and only there: while the table accepts requests, the offered cache may be the outstanding one itself (re-add) or
    # share its futures with it; a tied future is resolved by the response or the timeout, never by a refused add
    for c in calls(fi):
        alts = [a for a in _callee_alts(fi, c.func) if isinstance(a, ast.Attribute) and a.attr in ("cancel", "set_result", "set_exception")]
        if alts and any(_site_kind(fi, a.value, {cache: "cache"})[0] == "future" for a in alts):
            ctx.check(any(shut(f, True) for f in _facts(fi, cfg, c)), "add-gates", fi, c,
                      "add resolves futures of the offered cache only when it refuses the cache at shutdown",
                      "add cancels / completes the managed futures of a cache it refuses (or stores) while not shut down: when that cache is the "
                      "outstanding request itself, or shares its futures, the outstanding request's futures are resolved without response or timeout")
    # NumberCache.__init__
    ni = ctx.repo.method("NumberCache", "__init__", RC)
    cfgn = ctx.cfg(ni)
    p = ni.params()
    for st, t in stores(ni, ["self._prefix", "self._number"]):
        fs = _facts(ni, cfgn, st)
        ok = any(_has_fact(ni, f, p[1], p[2], p[3]) for f in fs)
        ctx.check(ok, "duplicate-guard", ni, st, "NumberCache construction dominated by not request_cache.has(prefix, number)",
                  "a second request can take a (prefix, number) identity that is still outstanding", [str(f) for f in fs])
    _find_unclaimed(ctx)
    # has / get use the same identifier construction (directly, or by handing (prefix, number) unchanged to the other one)
    direct = {}
    for name in ("has", "get"):
        f2 = _view(ctx, _impl(ctx, name))
        cs = [c for c in calls(f2) if call_name(c) == "_create_identifier"]
        direct[name] = (f2, cs)
    for name, other in (("has", "get"), ("get", "has")):
        f2, cs = direct[name]
        ok = bool(cs) and all(_ident_call_ok(f2, c, f2.params()[2], f2.params()[1]) for c in cs)
        if not cs and direct[other][1]:
            dl = [c for c in calls(f2, f"self.{other}") if _denotes(f2, arg(c, 0, "prefix"), f2.params()[1], (f2.params()[1] + ".name",))
                  and _denotes(f2, arg(c, 1, "number"), f2.params()[2])]
            ok = bool(dl)
        ctx.check(ok, "duplicate-guard", f2, f2.node, f"{name} keys by _create_identifier(number, prefix)", f"{name} builds a different identifier than add")
    ci = _ident_fn(fi)
    ctx.anchor(ci, "RequestCache._create_identifier")
    pnum, ppre = _ident_roles(ci)
    rets = [r for r in walk_no_nested(ci.node) if isinstance(r, ast.Return)]
    parts = _string_parts(resolve(ci, rets[0].value)) if len(rets) == 1 and rets[0].value is not None else None
    vals = [v for k, v in parts or [] if k == "val"]
    # both components enter the string exactly once, with a separator between them that cannot be part of a number
    # (without one, ('a1', 2) and ('a', 12) would share an identity)
    sep = parts is not None and len(parts) >= 3 and any(k == "lit" and v and not any(ch.isdigit() or ch == "-" for ch in v)
                                                        for k, v in parts[parts.index(("val", vals[0])) + 1:parts.index(("val", vals[-1]))]) \
        if len(vals) == 2 and vals[0] != vals[1] else False
    ok = parts is not None and sorted(vals) == sorted([ppre, pnum]) and bool(sep)
    ctx.check(ok, "duplicate-guard", ci, ci.node, "identifier = f'{prefix}:{number}'", "identifier no longer determined by (prefix, number)")


def _has_fact(fi: FuncInfo, f: Fact, recv: str, prefix: str, number: str) -> bool:
    """fact `not <recv>.has(prefix, number)`  (also spelled `<recv>.get(prefix, number) is None` / `not <recv>.get(..)`)"""
    free = (f.op == "truthy" and not f.pos) or (f.op == "is" and f.pos and _is_none(f.right))
    if not free:
        return False
    c = resolve(fi, f.left)
    if not (isinstance(c, ast.Call) and chain(c.func) in (f"{recv}.has", f"{recv}.get")):
        return False
    if f.op == "is" and chain(c.func) != f"{recv}.get":
        return False
    a0, a1 = arg(c, 0, "prefix"), arg(c, 1, "number")
    return a0 is not None and a1 is not None and prefix in (norm(a0), norm(resolve(fi, a0))) and number in (norm(a1), norm(resolve(fi, a1)))


def _next_accepted(fu: FuncInfo, v: str, recv: str, prefix: str) -> tuple[bool, bool]:
    """Every definition of v is `next(<generator expression>[, None])` whose elements are filtered by `not has(prefix, element)`:
    v is an accepted number or the default.  -> (recognised, has a None default)"""
    defs = local_defs(fu, v)
    if not defs or v in fu.params():
        return False, False
    default = False
    for _, val, idx in defs:
        val = strip_cast(val) if val is not None else None
        if idx is not None or not (isinstance(val, ast.Call) and chain(val.func) == "next" and 1 <= len(val.args) <= 2 and not val.keywords):
            return False, False
        if len(val.args) == 2:
            if not _is_none(val.args[1]):
                return False, False
            default = True
        g = resolve(fu, val.args[0])
        if not (isinstance(g, ast.GeneratorExp) and isinstance(g.elt, ast.Name)):
            return False, False
        last = g.generators[-1]
        if not (isinstance(last.target, ast.Name) and last.target.id == g.elt.id):
            return False, False
        if not any(_has_fact(fu, f, recv, prefix, g.elt.id) for c in last.ifs for f in _atoms_with_polarity(c, True)):
            return False, False
    return True, default


def _find_unclaimed(ctx: Ctx) -> None:
    """RandomNumberCache.find_unclaimed_identifier: a number leaves the function only through the outcome `not has(prefix, number)`
    of a test made after the number's last assignment; every other way out raises."""
    fu = _view(ctx, ctx.repo.method("RandomNumberCache", "find_unclaimed_identifier", RC))
    cfg = ctx.cfg(fu)
    p = fu.params()
    rets = [r for r in walk_no_nested(fu.node) if isinstance(r, ast.Return)]
    ok = bool(rets)
    accept_all = []
    filtered = []          # returns of a value that a filtering generator already accepted
    for r in rets:
        v = strip_cast(r.value) if r.value is not None else None
        if not isinstance(v, ast.Name):
            ok = False
            continue
        known, default = _next_accepted(fu, v.id, p[1], p[2])
        if known:
            ok = ok and (not default or any(f.op == "is" and not f.pos and _is_none(f.right) and isinstance(f.left, ast.Name) and f.left.id == v.id
                                            for f in _facts(fu, cfg, r)))
            filtered += cfg.nodes_for(r)
            continue
        accept = [(n, lab) for n in cfg.nodes if n.kind == "cond" for lab in (True, False) if _has_fact(fu, fact_of(n.ast, lab), p[1], p[2], v.id)]
        accept_all += accept

        def cut(a, b, lab, accept=accept):
            return any(a is n and lab is l for n, l in accept)
        defs = [n for st, _, _ in local_defs(fu, v.id) for n in cfg.nodes_for(st)]
        starts = [cfg.entry] + [s for d in defs for s, lab in d.succ if lab != "exc"]
        reach = cfg.reach(starts, cut_edge=cut)
        ok = ok and bool(accept) and not any(n in reach for n in cfg.nodes_for(r))
    # exhaustion raises: no normal exit without an accepted number
    ok = ok and cfg.exit not in cfg.reach(cut_edge=lambda a, b, lab: any(a is n and lab is l for n, l in accept_all), cut_nodes=filtered)
    ctx.check(ok, "duplicate-guard", fu, fu.node, "random identifier accepted only if not in use; exhaustion raises",
              "find_unclaimed_identifier can return a number that is in use")


def _delegate(ctx: Ctx, fi: FuncInfo, has_anchor) -> tuple[FuncInfo, ast.Call | None]:
    """fi, or - when fi lacks the construct (has_anchor(fi) is empty) and exactly one method of its class that fi calls on
    every normal path has it - that method and the call: the anchor function became a thin delegation."""
    if has_anchor(fi) or fi.cls is None:
        return fi, None
    cfg = ctx.cfg(fi)
    cands = []
    for c in calls(fi):
        ch = chain(c.func) or ""
        m = fi.cls.lookup(ch[5:]) if ch.startswith("self.") and ch.count(".") == 1 else None
        if m is None or m.node is fi.node or m.cls is not fi.cls:
            continue
        m = _view(ctx, m)
        if has_anchor(m) and cfg.exit not in cfg.reach(cut_nodes=cfg.nodes_for(c), follow_exc=False):
            cands.append((m, c))
    return cands[0] if len(cands) == 1 else (fi, None)


def rule_shutdown(ctx: Ctx) -> None:
    outer = _view(ctx, _impl(ctx, "shutdown"))
    fi, via = _delegate(ctx, outer, lambda f: [s for s, t in stores(f, "self._shutdown") if const_value(s.value) is True])
    cfg = ctx.cfg(fi)

    def locked(n):
        return _holds_lock(n) or (via is not None and _holds_lock(via))
    flag = [s for s, t in stores(fi, "self._shutdown") if const_value(s.value) is True]
    cancel_all = _effect_sites(ctx, fi, lambda f: calls(f, "self.cancel_all_pending_tasks"))
    clears = _effect_sites(ctx, fi, lambda f: _tcalls(f, "clear"))
    # <future>.cancel() for every future of every cache in the table, whatever the loop / comprehension spelling
    fut_cancel = []
    ordered = []          # what has to happen before the table is cleared: the cancel loop, or the eager copy it walks
    # a loop that drains the table entry by entry both reads every cache and leaves the table empty
    drain_like = [w for w in walk_no_nested(fi.node) if _drain_items(fi, w)]
    drains = [w for w in drain_like if _complete([w])]
    for c in calls(fi):
        if call_name(c) == "cancel" and isinstance(c.func, ast.Attribute) and not c.args:
            kind, loops = _site_kind(fi, c.func.value, {})
            guards = [f for f in facts_at(cfg, c) if not any(f.atom is x for w in drains for x in ast.walk(w.test))]
            if kind == "future" and _complete(loops) and _only_done_guards(fi, guards, c.func.value):
                fut_cancel.append(c)
                ordered.append(_snapshot_stmt(fi, loops) or c)
    reads = _tcalls(fi, "values") + _tcalls(fi, "items") + [st for w in drains for st in _drain_items(fi, w)]
    if not clears and not drain_like and (_tcalls(fi, "popitem") or _tcalls(fi, "pop")) and flag and cancel_all:
        raise AnalysisError("undecided: RequestCache.shutdown empties _identifiers entry by entry (pop / popitem) in a way that is not recognised")
    clears = clears + drains
    ok = bool(flag) and bool(cancel_all) and bool(clears) and bool(fut_cancel) and bool(reads) and all(locked(x) for x in flag + cancel_all + clears + fut_cancel + reads)
    ctx.check(ok, "shutdown", fi, fi.node, "shutdown: flag, cancel all tasks, cancel every tied future, clear table - all under the lock",
              "shutdown leaves timeouts armed, futures pending or the table populated")
    if ok:
        # order: flag before cancel; futures cancelled before the table is cleared
        fn = [n for s in flag for n in cfg.nodes_for(s)]
        ctx.check(all(cfg.must_complete(n, fn) for c in cancel_all for n in cfg.nodes_for(c)), "shutdown", fi, cancel_all[0],
                  "_shutdown set before tasks are cancelled", "tasks are cancelled before the shutdown flag is set: a callback can re-add")
        cl = [n for c in clears if c not in drains for n in cfg.nodes_for(c)]
        emptied = [v for w in drains for n in cfg.nodes if n.kind == "cond" and any(n.ast is x for x in ast.walk(w.test)) for v, lab in n.succ if lab is False]
        after_clear = cfg.reach([v for n in cl for v, lab in n.succ] + emptied)
        ctx.check(not any(n in after_clear for x in reads + ordered for n in cfg.nodes_for(x)), "shutdown", fi, clears[0],
                  "tied futures are cancelled before the table is cleared", "the table is cleared before the tied futures are cancelled (nothing left to cancel)")
    clr = _impl(ctx, "clear")
    ok = bool(_effect_sites(ctx, clr, lambda f: calls(f, "self.cancel_all_pending_tasks"))) and bool(_effect_sites(ctx, clr, lambda f: _tcalls(f, "clear")))
    ctx.check(ok, "shutdown", clr, clr.node, "clear cancels all timeout tasks and empties the table", "clear leaves timeout tasks armed")


def _effect_sites(ctx: Ctx, fi: FuncInfo, finder, depth: int = 2) -> list[ast.AST]:
    """Where fi performs an effect: the sites finder(fi) itself, and calls `self.m(..)` of a method m of the same class
    that performs the effect on every path to its normal exit (shutdown reusing clear(), an extracted step)."""
    out = list(finder(fi))
    if depth <= 0 or fi.cls is None:
        return out
    for c in calls(fi):
        ch = chain(c.func) or ""
        if not (ch.startswith("self.") and ch.count(".") == 1):
            continue
        m = fi.cls.lookup(ch[5:])
        if m is None or m.node is fi.node or m.is_async or m.cls is not fi.cls:
            continue
        sub = _effect_sites(ctx, m, finder, depth - 1)
        if not sub:
            continue
        mc = ctx.cfg(m)
        sn = [n for x in sub for n in mc.nodes_for(x)]
        if sn and mc.exit not in mc.reach(cut_nodes=sn, follow_exc=False):
            out.append(c)
    return out


def _snapshot_stmt(fi: FuncInfo, loops: list[ast.For]) -> ast.stmt | None:
    """The assignment that copies the table's caches eagerly (list / tuple / sorted / list comprehension) into the local the
    outermost loop walks: the traversal then no longer depends on the table.  None for live views and lazy generators."""
    if not loops or not isinstance(loops[-1], (ast.For, ast.AsyncFor)):
        return None
    it = strip_cast(loops[-1].iter)
    if not isinstance(it, ast.Name):
        return None
    d = local_defs(fi, it.id)
    if len(d) != 1 or d[0][1] is None or d[0][2] is not None:
        return None
    v = strip_cast(d[0][1])
    eager = isinstance(v, ast.ListComp) or (isinstance(v, ast.Call) and chain(v.func) in ("list", "tuple", "sorted"))
    reads_table = any(isinstance(x, ast.Call) and isinstance(x.func, ast.Attribute) and x.func.attr in ("values", "items") and _is_table(fi, x.func.value)
                      for x in ast.walk(v))
    return d[0][0] if eager and reads_table else None


def rule_who(ctx: Ctx) -> None:
    repo = ctx.repo
    rc = repo.cls("RequestCache", RC)
    n = 0
    for m, fi, a in repo.attribute_uses("_identifiers"):
        n += 1
        ctx.check(fi is not None and fi.cls is rc, "table-writers", fi or m.relpath, enclosing_stmt(a), "_identifiers used only inside RequestCache",
                  "the identifier table is accessed from outside RequestCache")
    ctx.floor("table-writers", n, 8)
    rf = _view(ctx, _retrieve_wrapper(ctx))
    cfg = ctx.cfg(rf)
    pops = [c for c in calls(rf) if call_name(c) == "pop"]
    fcalls = [c for c in calls(rf, "func")]
    if not pops:
        claims = _claim_helper_calls(ctx, rf, fcalls)
        if claims:
            return _late_response_via_helper(ctx, rf, claims, fcalls)
    ctx.check(bool(pops), "late-response", rf, rf.node, "retrieve_cache claims the cache with request_cache.pop",
              "retrieve_cache no longer pops the cache: the same request can be answered twice and its timeout still fires")
    for p in pops:
        ok = _keyerror_path_ok(ctx, rf, p, fcalls)
        ctx.check(ok, "late-response", rf, p, "retrieve_cache: missing cache -> KeyError -> handler not called, returns None",
                  "a response without an outstanding request reaches the handler (or raises)")
        a0, a1 = arg(p, 0, "prefix"), arg(p, 1, "number")
        ok2 = a0 is not None and a1 is not None and norm(resolve(rf, a0)) == "cache_class.name" and _payload_identifier(rf, a1)
        ctx.check(ok2, "late-response", rf, p, "cache matched by (cache_class.name, payload.identifier)", "retrieve_cache matches on something else")
    for c in fcalls:
        def popped(v) -> bool:
            if any(strip_cast(resolve(rf, v)) is p for p in pops):
                return True
            return isinstance(v, ast.Name) and any(st is enclosing_stmt(p) and val is not None and strip_cast(val) is p
                                                   for st, val, _ in local_defs(rf, v.id) for p in pops)
        ok = any(k.arg == "cache" and popped(k.value) for k in c.keywords)
        pn = [n for p in pops for n in cfg.nodes_for(p)]
        ok = ok and all(cfg.must_complete(n, pn) for n in cfg.nodes_for(c))
        ctx.check(ok, "late-response", rf, c, "handler runs only after a successful pop, with the popped cache", "handler can run without a claimed cache")
    _pop_census(ctx)


def _retrieve_wrapper(ctx: Ctx) -> FuncInfo:
    """the closure of retrieve_cache that runs per message: the reviewed name, else the innermost closure(s) under retrieve_cache"""
    m = ctx.repo.module("ipv8/lazy_community.py")
    named = [f for f in m.all_functions if f.qualname == "retrieve_cache.decorator.wrapper"]
    if named:
        return named[0]
    inner = [f for f in m.all_functions if f.qualname.startswith("retrieve_cache.")
             and not any(isinstance(x, (ast.FunctionDef, ast.AsyncFunctionDef)) and x is not f.node for x in ast.walk(f.node))]
    ctx.anchor(len(inner) == 1, "function retrieve_cache.decorator.wrapper in ipv8/lazy_community.py")
    return inner[0]


def _payload_identifier(rf: FuncInfo, e: ast.AST) -> bool:
    """e is `<payload>.identifier` where <payload> is taken from the wrapper's payload arguments"""
    e = resolve(rf, e)
    if not (isinstance(e, ast.Attribute) and e.attr == "identifier"):
        return False
    if norm(e.value) == "payload":
        return True
    var = rf.node.args.vararg.arg if rf.node.args.vararg else None
    return var is not None and all(isinstance(x, ast.Subscript) and chain(x.value) == var for x in _value_leaves(rf, e.value))


def _catching_handler(site: ast.AST, exc: tuple[str, ...] = ("KeyError", "LookupError", "Exception", "BaseException")) -> ast.ExceptHandler | None:
    """the handler that receives a KeyError raised at site: innermost enclosing try (site in its body), first matching clause"""
    cur = site
    for a in ancestors(site):
        if isinstance(a, ast.Try) and any(cur is b for b in a.body):
            for h in a.handlers:
                types = [None] if h.type is None else [chain(t) for t in (h.type.elts if isinstance(h.type, ast.Tuple) else [h.type])]
                if any(t is None or t in exc or (t or "").split(".")[-1] in exc for t in types):
                    return h
        if isinstance(a, (ast.FunctionDef, ast.AsyncFunctionDef, ast.Lambda)):
            return None
        cur = a
    return None


def _none_after(ctx: Ctx, fi: FuncInfo, start_nodes: list, forbidden: list[ast.AST], quiet=None) -> bool:
    """From start_nodes on: no forbidden call is reached, nothing is raised on purpose, and every return reached gives None
    (or a value for which quiet(value) holds: "nothing was claimed").  A returned local has, besides such values, only
    definitions that can neither precede nor follow start_nodes."""
    def is_quiet(v) -> bool:
        return _is_none(v) or (quiet is not None and v is not None and bool(quiet(v)))
    cfg = ctx.cfg(fi)
    r = cfg.reach(start_nodes)
    if any(n in r for c in forbidden for n in cfg.nodes_for(c)):
        return False
    for n in r:
        if isinstance(n.ast, ast.Raise) and n.kind == "stmt":
            return False
        if not (isinstance(n.ast, ast.Return) and n.kind == "stmt"):
            continue
        v = strip_cast(n.ast.value) if n.ast.value is not None else None
        if is_quiet(v):
            continue
        if not isinstance(v, ast.Name) or v.id in fi.params():
            return False
        defs = local_defs(fi, v.id)
        if not any(val is not None and idx is None and is_quiet(strip_cast(val)) for _, val, idx in defs):
            return False
        for st, val, idx in defs:
            if val is not None and idx is None and is_quiet(strip_cast(val)):
                continue
            dn = cfg.nodes_for(st)
            if any(d in r for d in dn) or any(s in cfg.reach(dn) for s in start_nodes):
                return False
    return True


def _keyerror_path_ok(ctx: Ctx, fi: FuncInfo, p: ast.Call, forbidden: list[ast.AST], quiet=None) -> bool:
    """A response whose cache is missing ends quietly: the KeyError of the pop is caught and that path returns None without
    reaching the handler - or the pop is only reached when `<same receiver>.has(<same key>)` / `.get(..) is not None` holds,
    and the other outcome of that test returns None without reaching the handler."""
    cfg = ctx.cfg(fi)
    h = _catching_handler(p)
    if h is not None:
        hn = [n for n in cfg.nodes_for(h) if n.kind == "handler"]
        return bool(hn) and _none_after(ctx, fi, hn, forbidden, quiet)
    if not isinstance(p.func, ast.Attribute):
        return False
    for f in _facts(fi, cfg, p):
        t = resolve(fi, f.left)
        registered = isinstance(t, ast.Call) and isinstance(t.func, ast.Attribute) and _same_value(fi, t.func.value, p.func.value) \
            and len(t.args) == len(p.args) == 2 and not t.keywords and not p.keywords and all(_same_value(fi, x, y) for x, y in zip(t.args, p.args)) \
            and ((t.func.attr == "has" and f.op == "truthy" and f.pos) or
                 (t.func.attr == "get" and ((f.op == "truthy" and f.pos) or (f.op == "is" and not f.pos and _is_none(f.right)))))
        if not registered:
            continue
        other = [v for n in cfg.nodes if n.kind == "cond" and n.ast is f.atom for v, lab in n.succ if lab is (not _edge_label(f))]
        if other and _none_after(ctx, fi, other, forbidden, quiet):
            return True
    return False


def _edge_label(f: Fact) -> bool:
    """the outcome of evaluating f.atom under which the fact f holds"""
    return fact_of(f.atom, True).pos == f.pos


def _claim_helper_calls(ctx: Ctx, rf: FuncInfo, fcalls: list[ast.Call]) -> list[tuple[ast.Call, FuncInfo]]:
    """calls in the wrapper to a helper (same module) that does the request_cache.pop"""
    out = []
    for c in calls(rf):
        if c in fcalls:
            continue
        tg = [t for t in ctx.repo.resolve_call(rf, c) if isinstance(t, FuncInfo)]
        if len(tg) == 1 and tg[0].module is rf.module and tg[0].node is not rf.node and any(call_name(x) == "pop" for x in calls(tg[0])):
            out.append((c, tg[0]))
    return out


def _pop_results(fi: FuncInfo, e: ast.AST | None, pops: list[ast.Call]) -> bool:
    """every value of e that is not None is the result of one of the pop calls"""
    if e is None:
        return False
    leaves = [x for x in _value_leaves(fi, e) if not _is_none(x)]
    return bool(leaves) and all(any(x is p for p in pops) for x in leaves)


def _late_response_via_helper(ctx: Ctx, rf: FuncInfo, claims: list[tuple[ast.Call, FuncInfo]], fcalls: list[ast.Call]) -> None:
    """The pop lives in a helper that reports the outcome (the claimed cache, or None after KeyError); the wrapper acts on it."""
    cfg = ctx.cfg(rf)
    good: list[ast.Call] = []
    flagged: dict[int, tuple[int, int]] = {}          # claim call -> (index of the flag, index of the cache) in its result pair
    for c, h in claims:
        h = _view(ctx, h)
        pops = [x for x in calls(h) if call_name(x) == "pop"]
        b = _bind_call(c, h) or {}

        def up(e, h=h, b=b) -> str:
            # the helper's expression written in the wrapper's terms (its parameters replaced by the call's arguments)
            e = resolve(h, e)
            root = e
            while isinstance(root, ast.Attribute):
                root = root.value
            if isinstance(root, ast.Name) and root.id in b and not local_defs(h, root.id):
                return norm(resolve(rf, b[root.id])) + norm(e)[len(root.id):]
            return norm(e)
        # every value the helper returns is None or the cache it popped - or a (flag, cache) pair whose flag is True only
        # together with the popped cache
        rets = [r for r in walk_no_nested(h.node) if isinstance(r, ast.Return) and not _is_none(r.value)]
        quiet = None
        if pops and rets and all(_pop_results(h, r.value, pops) for r in rets):
            good.append(c)
        elif pops and rets and all(isinstance(strip_cast(r.value), ast.Tuple) and len(strip_cast(r.value).elts) == 2 for r in rets):
            elts = [strip_cast(r.value).elts for r in rets]
            for i, j in ((0, 1), (1, 0)):
                if all(isinstance(const_value(e[i]), bool) for e in elts) and any(const_value(e[i]) is True for e in elts) and \
                        all(_pop_results(h, e[j], pops) for e in elts if const_value(e[i]) is True):
                    good.append(c)
                    flagged[id(c)] = (i, j)

                    def quiet(v, i=i) -> bool:
                        return isinstance(v, ast.Tuple) and len(v.elts) == 2 and const_value(v.elts[i]) is False
                    break
        for p in pops:
            ok = _keyerror_path_ok(ctx, h, p, [], quiet)
            ctx.check(ok, "late-response", h, p, "retrieve_cache: missing cache -> KeyError -> handler not called, returns None",
                      "a response without an outstanding request reaches the handler (or raises)")
            a0, a1 = arg(p, 0, "prefix"), arg(p, 1, "number")
            r1 = resolve(h, a1) if a1 is not None else None
            ok2 = a0 is not None and up(a0) == "cache_class.name" and isinstance(r1, ast.Attribute) and r1.attr == "identifier"
            ctx.check(ok2, "late-response", h, p, "cache matched by (cache_class.name, payload.identifier)", "retrieve_cache matches on something else")
    ctx.check(bool(good), "late-response", rf, rf.node, "retrieve_cache claims the cache with request_cache.pop",
              "retrieve_cache no longer pops the cache: the same request can be answered twice and its timeout still fires")
    for c in fcalls:
        fs = _facts(rf, cfg, c)
        ok = False
        for k in c.keywords:
            if k.arg != "cache":
                continue
            from_claim = _pop_results(rf, k.value, [g for g in good if id(g) not in flagged])
            claimed = any((f.op == "is" and not f.pos and _is_none(f.right) and _same_value(rf, f.left, k.value))
                          or (f.op == "truthy" and f.pos and _same_value(rf, f.left, k.value)) for f in fs)
            ok = ok or (from_claim and claimed)
            # `found, cache = helper(..)`: the cache component, used where the flag component is known to be true
            d = local_defs(rf, k.value.id) if isinstance(k.value, ast.Name) else []
            if len(d) == 1 and d[0][1] is not None and id(strip_cast(d[0][1])) in flagged and d[0][2] == flagged[id(strip_cast(d[0][1]))][1]:
                fi_, _ = flagged[id(strip_cast(d[0][1]))]
                flags = [x.id for x in ast.walk(d[0][0]) if isinstance(x, ast.Name) and isinstance(x.ctx, ast.Store)
                         and [(st, idx) for st, _, idx in local_defs(rf, x.id)] == [(d[0][0], fi_)]]
                ok = ok or any(f.op == "truthy" and f.pos and isinstance(f.left, ast.Name) and f.left.id in flags for f in fs)
        ctx.check(ok, "late-response", rf, c, "handler runs only after a successful pop, with the popped cache", "handler can run without a claimed cache")
    _pop_census(ctx)


def _pop_census(ctx: Ctx) -> None:
    repo = ctx.repo
    # informative census of request_cache.pop sites
    census = {"guarded-by-has/get": 0, "try-keyerror": 0, "in-handler-or-callback": 0}
    for m, fi, c in repo.callers_of_name("pop"):
        ch = chain(c.func) or ""
        if not ch.endswith("request_cache.pop") or fi is None:
            continue
        cfg = ctx.cfg(fi)
        fs = facts_at(cfg, c)
        if any(isinstance(f.left, ast.Call) and (chain(f.left.func) or "").endswith(("request_cache.has", "request_cache.get")) for f in fs) or \
                any(f.op == "truthy" and f.pos and isinstance(resolve(fi, f.left), ast.Call) and (chain(resolve(fi, f.left).func) or "").endswith("request_cache.get") for f in fs):
            census["guarded-by-has/get"] += 1
        elif any(isinstance(a, ast.Try) and any(chain(h.type) in ("KeyError", "Exception") for h in a.handlers) for a in ancestors(c)):
            census["try-keyerror"] += 1
        else:
            census["in-handler-or-callback"] += 1
    ctx.extra["request_cache_pop_census"] = census
    ctx.note(f"request_cache.pop call sites (informative, not judged): {census}")


def run(ctx: Ctx) -> None:
    rule_pop(ctx)
    rule_on_timeout(ctx)
    rule_add(ctx)
    rule_shutdown(ctx)
    rule_who(ctx)
    ctx.assume("a cancelled asyncio task never runs its body; TaskManager.cancel_pending_task cancels the named task (C11 checks its gates)")
    ctx.assume("pop/expiry inside one event-loop iteration: order is asyncio's; not decided")


WITNESSES = [
    {"name": "pop does not cancel timeout", "file": RC, "rule": "pop-cancels",
     "old": "            cache = self._identifiers.pop(identifier)\n            self.cancel_pending_task(cache)\n            return cache",
     "new": "            cache = self._identifiers.pop(identifier)\n            return cache"},
    {"name": "pop tolerates missing cache", "file": RC, "rule": "pop-cancels",
     "old": "            cache = self._identifiers.pop(identifier)\n            self.cancel_pending_task(cache)",
     "new": "            cache = self._identifiers.pop(identifier, None)\n            self.cancel_pending_task(cache)"},
    {"name": "timeout callback before unregister", "file": RC, "rule": "timeout-unregisters-first",
     "old": "        if identifier in self._identifiers:\n            self._identifiers.pop(identifier)\n\n        cache.on_timeout()\n",
     "new": "        cache.on_timeout()\n        if identifier in self._identifiers:\n            self._identifiers.pop(identifier)\n"},
    {"name": "future completed even if done", "file": RC, "rule": "timeout-unregisters-first",
     "old": "            if not future.done():\n                if isinstance(on_timeout, Exception):",
     "new": "            if future is not None:\n                if isinstance(on_timeout, Exception):"},
    {"name": "add after shutdown allowed", "file": RC, "rule": "add-gates",
     "old": "            if self._shutdown:\n                self._logger.warning(\"Dropping %s due to shutdown!\", str(cache))\n                for f, _ in cache.managed_futures:\n                    f.cancel()\n                return None\n",
     "new": "            if self._shutdown:\n                self._logger.warning(\"Dropping %s due to shutdown!\", str(cache))\n"},
    {"name": "duplicate identifier overwrites", "file": RC, "rule": "add-gates",
     "old": "                self._logger.error(\"add with duplicate identifier \\\"%s\\\"\", identifier)\n                return None\n",
     "new": "                self._logger.error(\"add with duplicate identifier \\\"%s\\\"\", identifier)\n"},
    {"name": "duplicate add cancels the offered cache's futures", "file": RC, "rule": "add-gates",
     "old": "                self._logger.error(\"add with duplicate identifier \\\"%s\\\"\", identifier)\n                return None\n",
     "new": "                self._logger.error(\"add with duplicate identifier \\\"%s\\\"\", identifier)\n                for f, _ in cache.managed_futures:\n"
            "                    f.cancel()\n                return None\n"},
    {"name": "timeout task only for overridden caches", "file": RC, "rule": "add-gates",
     "old": "            self.register_task(cache, self._on_timeout, cache, delay=timeout_delay)\n",
     "new": "            if timeout_delay < 3600:\n                self.register_task(cache, self._on_timeout, cache, delay=timeout_delay)\n"},
    {"name": "number cache construction unchecked", "file": RC, "rule": "duplicate-guard",
     "old": "        if request_cache.has(prefix, number):\n            msg = f\"This number is already in use '{number}'\"\n            raise RuntimeError(msg)\n",
     "new": "        if request_cache.has(prefix, number):\n            self._logger.warning(\"This number is already in use '%s'\", number)\n"},
    {"name": "identifier ignores prefix", "file": RC, "rule": "duplicate-guard",
     "old": "        return f\"{prefix}:{number}\"", "new": "        return f\"{number}\""},
    {"name": "shutdown forgets futures", "file": RC, "rule": "shutdown",
     "old": "            for cache in self._identifiers.values():\n                # Cancel all managed futures, and suppress the CancelledErrors\n                for future, _ in cache.managed_futures:\n                    future.cancel()\n",
     "new": ""},
    {"name": "shutdown flag after cancel", "file": RC, "rule": "shutdown",
     "old": "                self._shutdown = True\n                tasks = self.cancel_all_pending_tasks()\n",
     "new": "                tasks = self.cancel_all_pending_tasks()\n                self._shutdown = True\n"},
    {"name": "retrieve_cache uses get", "file": "ipv8/lazy_community.py", "rule": "late-response",
     "old": "                cache = cast(\"RequestCache\", self.request_cache).pop(cache_class.name,  # type: ignore[attr-defined]\n                                                                     payload.identifier)  # type: ignore[attr-defined]",
     "new": "                cache = cast(\"RequestCache\", self.request_cache).get(cache_class.name,  # type: ignore[attr-defined]\n                                                                     payload.identifier)  # type: ignore[attr-defined]"},
    {"name": "foreign writer of _identifiers", "file": "ipv8/peerdiscovery/community.py", "rule": "table-writers",
     "old": "        cache.finish()\n", "new": "        cache.finish()\n        self.request_cache._identifiers.pop(\"x\", None)\n"},
]
