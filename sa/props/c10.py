"""C10 - Each outstanding request is resolved exactly once."""
from __future__ import annotations

import ast

from ..core import Ctx
from ..match import arg, call_name, calls, facts_at, local_defs, resolve, single_def, stores
from ..model import AnalysisError, FuncInfo, ancestors, chain, const_value, enclosing_stmt, norm, strip_cast, walk_no_nested

LEVEL = "other"
EXPLANATION = (
    "Pairing discipline inside RequestCache, each as a dominance / post-dominance fact on the function's CFG: pop removes "
    "the identifier and then cancels that cache's timeout task on every path; _on_timeout unregisters the identifier "
    "before the user callback runs and completes each managed future only when it is not done; add stores only when not "
    "shut down and the identifier is free, under the lock, and always registers the timeout task for that same cache; "
    "NumberCache.__init__ / find_unclaimed_identifier refuse numbers in use; shutdown sets the flag, cancels tasks and "
    "futures and clears the table under the lock; all five operations build the identifier through _create_identifier; "
    "_identifiers is private to RequestCache; retrieve_cache turns a missing cache into a no-op. Same-iteration races of "
    "pop and expiry are asyncio scheduling semantics and are not decided."
)

RC = "ipv8/requestcache.py"


def _ident_call_ok(fi: FuncInfo, e: ast.AST, num: str, pre: str) -> bool:
    e = resolve(fi, e)
    return isinstance(e, ast.Call) and chain(e.func) == "self._create_identifier" and norm(arg(e, 0)) == num and norm(arg(e, 1)) == pre


def rule_pop(ctx: Ctx) -> None:
    repo = ctx.repo
    fi = [f for f in repo.cls("RequestCache", RC).methods.values() if f.name == "pop"]
    # overloads: the real implementation is the last definition
    impl = [f for f in repo.module(RC).all_functions if f.qualname == "RequestCache.pop" and not any("overload" in d for d in f.decorator_names())]
    ctx.anchor(impl, "RequestCache.pop implementation")
    fi = impl[0]
    cfg = ctx.cfg(fi)
    pops = ctx.anchor(calls(fi, "self._identifiers.pop"), "_identifiers.pop in pop")
    for p in pops:
        st = enclosing_stmt(p)
        var = st.targets[0].id if isinstance(st, ast.Assign) and isinstance(st.targets[0], ast.Name) else None
        cancels = [c for c in calls(fi, "self.cancel_pending_task") if chain(arg(c, 0)) == var]
        cn = [n for c in cancels for n in cfg.nodes_for(c)]
        ok = var is not None and bool(cn) and all(cfg.always_followed_by(pn, cn) for pn in cfg.nodes_for(p))
        ctx.check(ok, "pop-cancels", fi, p, "after _identifiers.pop(id) every normal path cancels that cache's timeout task",
                  "a claimed request keeps its timeout task: the timeout fires after the response was handled")
        ctx.check(_ident_call_ok(fi, arg(p, 0), fi.params()[2], fi.params()[1]) and len(p.args) == 1, "pop-cancels", fi, p,
                  "pop removes exactly _create_identifier(number, prefix) and raises KeyError when absent",
                  "pop uses a different identifier or silently tolerates a missing cache (a late response would find a default)")
        rets = [r for r in walk_no_nested(fi.node) if isinstance(r, ast.Return) and chain(r.value) == var]
        ctx.check(bool(rets), "pop-cancels", fi, p, "pop returns the removed cache", "pop does not return the removed cache")


def _impl(ctx: Ctx, name: str) -> FuncInfo:
    impl = [f for f in ctx.repo.module(RC).all_functions if f.qualname == f"RequestCache.{name}" and not any("overload" in d for d in f.decorator_names())]
    ctx.anchor(impl, f"RequestCache.{name}")
    return impl[-1]


def rule_on_timeout(ctx: Ctx) -> None:
    fi = _impl(ctx, "_on_timeout")
    cfg = ctx.cfg(fi)
    cache = fi.params()[1]
    ucalls = [c for c in calls(fi) if chain(c.func) == f"{cache}.on_timeout"]
    ctx.check(len(ucalls) == 1 and not any(isinstance(a, (ast.For, ast.While)) for a in ancestors(ucalls[0])) if ucalls else False,
              "timeout-unregisters-first", fi, fi.node, "cache.on_timeout() is called exactly once", "the timeout callback is called more or less than once")
    pops = calls(fi, "self._identifiers.pop")
    ctx.anchor(pops, "_identifiers.pop in _on_timeout")
    for p in pops:
        ctx.check(_ident_call_ok(fi, arg(p, 0), f"{cache}.number", f"{cache}.prefix"), "timeout-unregisters-first", fi, p,
                  "the expired cache's own identifier is removed", "_on_timeout removes a different identifier")
    pn = [n for p in pops for n in cfg.nodes_for(p)]
    in_conds = [n for n in cfg.nodes if n.kind == "cond" and isinstance(n.ast, ast.Compare) and isinstance(n.ast.ops[0], ast.In)
                and chain(n.ast.comparators[0]) == "self._identifiers"]
    for u in ucalls:
        for un in cfg.nodes_for(u):
            r = cfg.reach(cut_out_normal=pn, cut_edge=lambda a, b, lab: a in in_conds and lab is False)
            ctx.check(un not in r, "timeout-unregisters-first", fi, u, "identifier removed (or already absent) before the user callback runs",
                      "on_timeout runs while the identifier is still registered: a pop from inside the callback, or a late response, resolves the request a second time")
    sets = [c for c in calls(fi) if call_name(c) in ("set_result", "set_exception")]
    ctx.floor("timeout-unregisters-first.futures", len(sets), 2)
    for s in sets:
        fs = facts_at(cfg, s)
        base = chain(s.func.value)
        ok = any(f.op == "truthy" and not f.pos and isinstance(f.left, ast.Call) and chain(f.left.func) == f"{base}.done" for f in fs)
        un = [n for u in ucalls for n in cfg.nodes_for(u)]
        after = all(cfg.must_complete(sn, un) for sn in cfg.nodes_for(s))
        ctx.check(ok and after, "timeout-unregisters-first", fi, s, "managed future completed only if not done, after the callback",
                  "a tied future is completed twice or before the timeout callback", [str(f) for f in fs])
    loops = [l for l in walk_no_nested(fi.node) if isinstance(l, ast.For)]
    ok = any(norm(l.iter) == f"{cache}.managed_futures" and not any(isinstance(x, (ast.Break, ast.Return)) for x in ast.walk(l)) for l in loops)
    ctx.check(ok, "timeout-unregisters-first", fi, fi.node, "every managed future is visited", "not all futures tied to the cache are completed on timeout")


def rule_add(ctx: Ctx) -> None:
    fi = _impl(ctx, "add")
    cfg = ctx.cfg(fi)
    cache = fi.params()[1]
    sts = [s for s, t in stores(fi, "self._identifiers[]")]
    ctx.anchor(sts, "_identifiers[...] = cache in add")
    for st in sts:
        fs = facts_at(cfg, st)
        key = st.targets[0].slice
        not_shut = any(f.op == "truthy" and not f.pos and chain(f.left) == "self._shutdown" for f in fs)
        free = any(f.op == "in" and not f.pos and norm(f.left) == norm(key) and chain(f.right) == "self._identifiers" for f in fs)
        locked = any(isinstance(a, ast.With) and any(chain(i.context_expr) == "self.lock" for i in a.items) for a in ancestors(st))
        ident = _ident_call_ok(fi, key, f"{cache}.number", f"{cache}.prefix")
        ctx.check(not_shut and free and locked and ident and chain(st.value) == cache, "add-gates", fi, st,
                  "store dominated by not _shutdown and identifier not in _identifiers, under the lock, keyed by _create_identifier(number, prefix)",
                  f"a cache can be added after shutdown / over a live identifier / outside the lock (not_shutdown={not_shut} free={free} locked={locked} ident={ident})",
                  [str(f) for f in fs])
        regs = [c for c in calls(fi, "self.register_task") if chain(arg(c, 0)) == cache and chain(arg(c, 1)) == "self._on_timeout" and chain(arg(c, 2)) == cache
                and arg(c, None, "delay") is not None]
        rn = [n for c in regs for n in cfg.nodes_for(c)]
        ok = bool(rn) and all(cfg.always_followed_by(sn, rn) for sn in cfg.nodes_for(st))
        ctx.check(ok, "add-gates", fi, st, "every registered cache gets its timeout task register_task(cache, _on_timeout, cache, delay=..)",
                  "a cache is stored without a timeout task: it is never resolved if no response arrives")
        for c in regs:
            d = resolve(fi, arg(c, None, "delay"))
            defs = [x for x in local_defs(fi, "timeout_delay")]
            ok_d = chain(arg(c, None, "delay")) == "timeout_delay" and any(v is not None and norm(v) == f"{cache}.timeout_delay" for _, v, _ in defs)
            ctx.check(ok_d, "add-gates", fi, c, "timeout delay is the cache's timeout_delay (or the passthrough override)",
                      "the timeout task is not scheduled with the cache's own timeout_delay")
    # duplicate / shutdown branches return None and the shutdown branch cancels tied futures
    for r in [r for r in walk_no_nested(fi.node) if isinstance(r, ast.Return)]:
        fs = facts_at(cfg, r)
        if any(f.op == "truthy" and f.pos and chain(f.left) == "self._shutdown" for f in fs):
            ctx.check(r.value is None or const_value(r.value) is None, "add-gates", fi, r, "add after shutdown returns None", "add after shutdown reports success")
            cancels = [c for c in calls(fi) if call_name(c) == "cancel" and any(f.op == "truthy" and f.pos and chain(f.left) == "self._shutdown" for f in facts_at(cfg, c))]
            lp = [l for l in walk_no_nested(fi.node) if isinstance(l, ast.For) and norm(l.iter) == f"{cache}.managed_futures"]
            ctx.check(bool(cancels) and bool(lp), "add-gates", fi, r, "futures of a cache refused at shutdown are cancelled",
                      "futures tied to a cache that is refused after shutdown are left pending forever")
        if any(f.op == "in" and f.pos and chain(f.right) == "self._identifiers" for f in fs):
            ctx.check(r.value is None or const_value(r.value) is None, "add-gates", fi, r, "duplicate add returns None", "duplicate add reports success")
    # NumberCache.__init__
    ni = ctx.repo.method("NumberCache", "__init__", RC)
    cfgn = ctx.cfg(ni)
    p = ni.params()
    for st, t in stores(ni, ["self._prefix", "self._number"]):
        fs = facts_at(cfgn, st)
        ok = any(f.op == "truthy" and not f.pos and isinstance(f.left, ast.Call) and chain(f.left.func) == f"{p[1]}.has"
                 and [norm(a) for a in f.left.args] == [p[2], p[3]] for f in fs)
        ctx.check(ok, "duplicate-guard", ni, st, "NumberCache construction dominated by not request_cache.has(prefix, number)",
                  "a second request can take a (prefix, number) identity that is still outstanding", [str(f) for f in fs])
    fu = ctx.repo.method("RandomNumberCache", "find_unclaimed_identifier", RC)
    cfgf = ctx.cfg(fu)
    brk = [b for b in ast.walk(fu.node) if isinstance(b, ast.Break)]
    ok = bool(brk) and all(any(f.op == "truthy" and not f.pos and isinstance(f.left, ast.Call) and (chain(f.left.func) or "").endswith(".has")
                               and norm(f.left.args[1]) == "number" for f in facts_at(cfgf, b)) for b in brk)
    loops = [l for l in walk_no_nested(fu.node) if isinstance(l, ast.For)]
    ok = ok and bool(loops) and any(isinstance(s, ast.Raise) for s in loops[0].orelse)
    ctx.check(ok, "duplicate-guard", fu, fu.node, "random identifier accepted only if not in use; exhaustion raises",
              "find_unclaimed_identifier can return a number that is in use")
    # has / get use the same identifier construction
    for name in ("has", "get"):
        f2 = _impl(ctx, name)
        cs = calls(f2, "self._create_identifier")
        ok = len(cs) == 1 and norm(arg(cs[0], 0)) == f2.params()[2] and norm(arg(cs[0], 1)) == f2.params()[1]
        ctx.check(ok, "duplicate-guard", f2, f2.node, f"{name} keys by _create_identifier(number, prefix)", f"{name} builds a different identifier than add")
    ci = _impl(ctx, "_create_identifier")
    rets = [r for r in walk_no_nested(ci.node) if isinstance(r, ast.Return)]
    ok = len(rets) == 1 and isinstance(rets[0].value, ast.JoinedStr) and \
        [norm(v.value) for v in rets[0].value.values if isinstance(v, ast.FormattedValue)] == [ci.params()[2], ci.params()[1]]
    ctx.check(ok, "duplicate-guard", ci, ci.node, "identifier = f'{prefix}:{number}'", "identifier no longer determined by (prefix, number)")


def rule_shutdown(ctx: Ctx) -> None:
    fi = _impl(ctx, "shutdown")
    cfg = ctx.cfg(fi)
    def locked(n):
        return any(isinstance(a, ast.With) and any(chain(i.context_expr) == "self.lock" for i in a.items) for a in ancestors(n))
    flag = [s for s, t in stores(fi, "self._shutdown") if const_value(s.value) is True]
    cancel_all = calls(fi, "self.cancel_all_pending_tasks")
    clears = calls(fi, "self._identifiers.clear")
    fut_cancel = [c for c in calls(fi) if call_name(c) == "cancel" and any(isinstance(a, ast.For) and norm(a.iter).endswith(".managed_futures") for a in ancestors(c))]
    outer = [l for l in walk_no_nested(fi.node) if isinstance(l, ast.For) and norm(l.iter) == "self._identifiers.values()"]
    ok = bool(flag) and bool(cancel_all) and bool(clears) and bool(fut_cancel) and bool(outer) and all(locked(x) for x in flag + cancel_all + clears + fut_cancel)
    ctx.check(ok, "shutdown", fi, fi.node, "shutdown: flag, cancel all tasks, cancel every tied future, clear table - all under the lock",
              "shutdown leaves timeouts armed, futures pending or the table populated")
    if ok:
        # order: flag before cancel; futures cancelled before the table is cleared
        fn = [n for s in flag for n in cfg.nodes_for(s)]
        ctx.check(all(cfg.must_complete(n, fn) for c in cancel_all for n in cfg.nodes_for(c)), "shutdown", fi, cancel_all[0],
                  "_shutdown set before tasks are cancelled", "tasks are cancelled before the shutdown flag is set: a callback can re-add")
        cl = [n for c in clears for n in cfg.nodes_for(c)]
        after_clear = cfg.reach([v for n in cl for v, lab in n.succ])
        ctx.check(not any(n in after_clear for l in outer for n in cfg.nodes_for(l)), "shutdown", fi, clears[0],
                  "tied futures are cancelled before the table is cleared", "the table is cleared before the tied futures are cancelled (nothing left to cancel)")
    clr = _impl(ctx, "clear")
    ok = bool(calls(clr, "self.cancel_all_pending_tasks")) and bool(calls(clr, "self._identifiers.clear"))
    ctx.check(ok, "shutdown", clr, clr.node, "clear cancels all timeout tasks and empties the table", "clear leaves timeout tasks armed")


def rule_who(ctx: Ctx) -> None:
    repo = ctx.repo
    rc = repo.cls("RequestCache", RC)
    n = 0
    for m, fi, a in repo.attribute_uses("_identifiers"):
        n += 1
        ctx.check(fi is not None and fi.cls is rc, "table-writers", fi or m.relpath, enclosing_stmt(a), "_identifiers used only inside RequestCache",
                  "the identifier table is accessed from outside RequestCache")
    ctx.floor("table-writers", n, 8)
    rf = repo.func("ipv8/lazy_community.py", "retrieve_cache.decorator.wrapper")
    pops = [c for c in calls(rf) if call_name(c) == "pop"]
    ctx.check(bool(pops), "late-response", rf, rf.node, "retrieve_cache claims the cache with request_cache.pop",
              "retrieve_cache no longer pops the cache: the same request can be answered twice and its timeout still fires")
    for p in pops:
        tr = next((a for a in ancestors(p) if isinstance(a, ast.Try)), None)
        ok = tr is not None and any(chain(h.type) == "KeyError" and any(isinstance(s, ast.Return) and (s.value is None or const_value(s.value) is None) for s in h.body)
                                    for h in tr.handlers)
        ctx.check(ok, "late-response", rf, p, "retrieve_cache: missing cache -> KeyError -> handler not called, returns None",
                  "a response without an outstanding request reaches the handler (or raises)")
        ok2 = norm(arg(p, 0)) == "cache_class.name" and norm(arg(p, 1)) == "payload.identifier"
        ctx.check(ok2, "late-response", rf, p, "cache matched by (cache_class.name, payload.identifier)", "retrieve_cache matches on something else")
    fcalls = [c for c in calls(rf, "func")]
    for c in fcalls:
        ok = any(k.arg == "cache" and chain(k.value) == "cache" for k in c.keywords)
        cfg = ctx.cfg(rf)
        pn = [n for p in pops for n in cfg.nodes_for(p)]
        ok = ok and all(cfg.must_complete(n, pn) for n in cfg.nodes_for(c))
        ctx.check(ok, "late-response", rf, c, "handler runs only after a successful pop, with the popped cache", "handler can run without a claimed cache")
    # informative census of request_cache.pop sites
    census = {"guarded-by-has/get": 0, "try-keyerror": 0, "in-handler-or-callback": 0}
    for m, fi, c in repo.callers_of_name("pop"):
        ch = chain(c.func) or ""
        if not ch.endswith("request_cache.pop") or fi is None:
            continue
        cfg = ctx.cfg(fi)
        fs = facts_at(cfg, c)
        if any(isinstance(f.left, ast.Call) and (chain(f.left.func) or "").endswith(("request_cache.has", "request_cache.get")) for f in fs) or \
                any(f.op == "truthy" and f.pos and isinstance(resolve(fi, f.left), ast.Call) and (chain(resolve(fi, f.left).func) or "").endswith("request_cache.get") for f in fs):
            census["guarded-by-has/get"] += 1
        elif any(isinstance(a, ast.Try) and any(chain(h.type) in ("KeyError", "Exception") for h in a.handlers) for a in ancestors(c)):
            census["try-keyerror"] += 1
        else:
            census["in-handler-or-callback"] += 1
    ctx.extra["request_cache_pop_census"] = census
    ctx.note(f"request_cache.pop call sites (informative, not judged): {census}")


def run(ctx: Ctx) -> None:
    rule_pop(ctx)
    rule_on_timeout(ctx)
    rule_add(ctx)
    rule_shutdown(ctx)
    rule_who(ctx)
    ctx.assume("a cancelled asyncio task never runs its body; TaskManager.cancel_pending_task cancels the named task (C11 checks its gates)")
    ctx.assume("pop/expiry inside one event-loop iteration: order is asyncio's; not decided")


WITNESSES = [
    {"name": "pop does not cancel timeout", "file": RC, "rule": "pop-cancels",
     "old": "            cache = self._identifiers.pop(identifier)\n            self.cancel_pending_task(cache)\n            return cache",
     "new": "            cache = self._identifiers.pop(identifier)\n            return cache"},
    {"name": "pop tolerates missing cache", "file": RC, "rule": "pop-cancels",
     "old": "            cache = self._identifiers.pop(identifier)\n            self.cancel_pending_task(cache)",
     "new": "            cache = self._identifiers.pop(identifier, None)\n            self.cancel_pending_task(cache)"},
    {"name": "timeout callback before unregister", "file": RC, "rule": "timeout-unregisters-first",
     "old": "        if identifier in self._identifiers:\n            self._identifiers.pop(identifier)\n\n        cache.on_timeout()\n",
     "new": "        cache.on_timeout()\n        if identifier in self._identifiers:\n            self._identifiers.pop(identifier)\n"},
    {"name": "future completed even if done", "file": RC, "rule": "timeout-unregisters-first",
     "old": "            if not future.done():\n                if isinstance(on_timeout, Exception):",
     "new": "            if future is not None:\n                if isinstance(on_timeout, Exception):"},
    {"name": "add after shutdown allowed", "file": RC, "rule": "add-gates",
     "old": "            if self._shutdown:\n                self._logger.warning(\"Dropping %s due to shutdown!\", str(cache))\n                for f, _ in cache.managed_futures:\n                    f.cancel()\n                return None\n",
     "new": "            if self._shutdown:\n                self._logger.warning(\"Dropping %s due to shutdown!\", str(cache))\n"},
    {"name": "duplicate identifier overwrites", "file": RC, "rule": "add-gates",
     "old": "                self._logger.error(\"add with duplicate identifier \\\"%s\\\"\", identifier)\n                return None\n",
     "new": "                self._logger.error(\"add with duplicate identifier \\\"%s\\\"\", identifier)\n"},
    {"name": "timeout task only for overridden caches", "file": RC, "rule": "add-gates",
     "old": "            self.register_task(cache, self._on_timeout, cache, delay=timeout_delay)\n",
     "new": "            if timeout_delay < 3600:\n                self.register_task(cache, self._on_timeout, cache, delay=timeout_delay)\n"},
    {"name": "number cache construction unchecked", "file": RC, "rule": "duplicate-guard",
     "old": "        if request_cache.has(prefix, number):\n            msg = f\"This number is already in use '{number}'\"\n            raise RuntimeError(msg)\n",
     "new": "        if request_cache.has(prefix, number):\n            self._logger.warning(\"This number is already in use '%s'\", number)\n"},
    {"name": "identifier ignores prefix", "file": RC, "rule": "duplicate-guard",
     "old": "        return f\"{prefix}:{number}\"", "new": "        return f\"{number}\""},
    {"name": "shutdown forgets futures", "file": RC, "rule": "shutdown",
     "old": "            for cache in self._identifiers.values():\n                # Cancel all managed futures, and suppress the CancelledErrors\n                for future, _ in cache.managed_futures:\n                    future.cancel()\n",
     "new": ""},
    {"name": "shutdown flag after cancel", "file": RC, "rule": "shutdown",
     "old": "                self._shutdown = True\n                tasks = self.cancel_all_pending_tasks()\n",
     "new": "                tasks = self.cancel_all_pending_tasks()\n                self._shutdown = True\n"},
    {"name": "retrieve_cache uses get", "file": "ipv8/lazy_community.py", "rule": "late-response",
     "old": "                cache = cast(\"RequestCache\", self.request_cache).pop(cache_class.name,  # type: ignore[attr-defined]\n                                                                     payload.identifier)  # type: ignore[attr-defined]",
     "new": "                cache = cast(\"RequestCache\", self.request_cache).get(cache_class.name,  # type: ignore[attr-defined]\n                                                                     payload.identifier)  # type: ignore[attr-defined]"},
    {"name": "foreign writer of _identifiers", "file": "ipv8/peerdiscovery/community.py", "rule": "table-writers",
     "old": "        cache.finish()\n", "new": "        cache.finish()\n        self.request_cache._identifiers.pop(\"x\", None)\n"},
]
