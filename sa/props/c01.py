"""C01 - Signed handlers run only for authentic, untampered datagrams."""
from __future__ import annotations

import ast
import json
import os

from ..core import Ctx
from ..match import arg, call_name, calls, facts_at, has_fact, local_defs, mentions, resolve, same_expr, single_def
from ..model import AnalysisError, ClassInfo, FuncInfo, chain, norm, strip_cast, walk_no_nested

LEVEL = "other"
EXPLANATION = (
    "Static rules over every site: (a) in both authenticating decorators and _ez_unpack_auth the call of the user "
    "handler / the return is dominated by a truthy signature check whose inputs are def-use linked to the datagram "
    "parameter and to the key unpacked from that datagram; (b) _verify_signature verifies data[:-L] with data[-L:] and "
    "the key carried in the datagram, L derived from that key; (c) the Peer handed on is built from that key only; "
    "(d) sign side covers the whole packet; (e) every handler registered by every overlay class (and every override in "
    "a subclass) keeps the authentication class frozen from the reviewed tree; (f) decode_map is dispatched only by "
    "Community.on_packet and __wrapped__ is never used. Decides the dataflow/dominance facts, not the cryptography."
)

TABLE = os.path.join(os.path.dirname(os.path.dirname(__file__)), "tables", "c01_handlers.json")
LC = "ipv8/lazy_community.py"
AUTH_DECOS = {"lazy_wrapper", "lazy_wrapper_wd"}
UNSIGNED_DECOS = {"lazy_wrapper_unsigned", "lazy_wrapper_unsigned_wd"}


def _is_param_unmodified(fi: FuncInfo, name: str) -> bool:
    return name in fi.params() and not local_defs(fi, name)


def _verify_call_link(ctx: Ctx, fi: FuncInfo, name_expr: ast.AST, rule: str, site: ast.AST) -> tuple[ast.Call | None, int | None]:
    """`name_expr` must be a local assigned exactly once from self._verify_signature(auth, data)[idx]."""
    if not isinstance(name_expr, ast.Name):
        return None, None
    d = single_def(fi, name_expr.id)
    if d is None:
        return None, None
    val, idx = d
    val = strip_cast(val)
    if isinstance(val, ast.Subscript) and isinstance(val.slice, ast.Constant):
        idx = val.slice.value
        val = strip_cast(val.value)
    if isinstance(val, ast.Call) and chain(val.func) == "self._verify_signature":
        return val, idx
    return None, None


def _check_auth_unpack(ctx: Ctx, fi: FuncInfo, auth_expr: ast.AST, data_name: str, site: ast.AST, rule: str) -> bool:
    """auth must come from unpack_serializable(BinMemberAuthenticationPayload, <data param>, offset=23)[0]."""
    if not isinstance(auth_expr, ast.Name):
        return False
    d = single_def(fi, auth_expr.id)
    if d is None:
        return False
    val, idx = d
    val = strip_cast(val)
    if not (isinstance(val, ast.Call) and chain(val.func) == "self.serializer.unpack_serializable" and idx == 0):
        return False
    a0, a1, off = arg(val, 0), arg(val, 1, "data"), arg(val, 2, "offset")
    ok = (a0 is not None and chain(a0) == "BinMemberAuthenticationPayload"
          and isinstance(a1, ast.Name) and a1.id == data_name
          and isinstance(off, ast.Constant) and off.value == 23)
    if ok:
        r = ctx.repo.resolve_name(fi.module, "BinMemberAuthenticationPayload")
        ok = isinstance(r, ClassInfo) and r.module.relpath == "ipv8/messaging/payload_headers.py"
    return ok


def rule_wrappers(ctx: Ctx) -> None:
    repo = ctx.repo
    for deco in sorted(AUTH_DECOS):
        fi = repo.func(LC, f"{deco}.decorator.wrapper")
        cfg = ctx.cfg(fi)
        params = fi.params()
        if len(params) < 3:
            raise AnalysisError(f"anchor-lost: {deco} wrapper signature")
        addr_name, data_name = params[1], params[2]
        fcalls = ctx.anchor(calls(fi, "func"), f"call of wrapped func in {deco}")
        for call in fcalls:
            facts = facts_at(cfg, call)
            fstr = [str(f) for f in facts]
            # --- verify-before-call
            ok = False
            vcall = None
            for f in facts:
                if f.op == "truthy" and f.pos:
                    vc, idx = _verify_call_link(ctx, fi, f.left, "verify-before-call", call)
                    if vc is not None and idx == 0:
                        ok, vcall = True, vc
            ctx.check(ok, "verify-before-call", fi, call,
                      f"{deco}: handler call dominated by truthy _verify_signature(...)[0]",
                      "the wrapped handler can be reached without a successful signature verification", fstr)
            if vcall is not None:
                a_auth, a_data = arg(vcall, 0), arg(vcall, 1)
                ok_data = isinstance(a_data, ast.Name) and a_data.id == data_name and _is_param_unmodified(fi, data_name)
                ctx.check(ok_data, "verify-before-call", fi, vcall,
                          f"{deco}: verification is given the unmodified datagram parameter `{data_name}`",
                          "signature verification does not receive the complete, unmodified datagram")
                ok_auth = a_auth is not None and _check_auth_unpack(ctx, fi, a_auth, data_name, vcall, "verify-before-call")
                ctx.check(ok_auth, "verify-before-call", fi, vcall,
                          f"{deco}: key container is BinMemberAuthenticationPayload unpacked from the datagram at offset 23",
                          "the verification key is not the one carried in this datagram")
                # --- payloads come from the signed remainder
                _payload_source(ctx, fi, call, vcall, deco)
                # --- peer-from-auth-key
                _peer_arg(ctx, fi, call, a_auth, addr_name, deco)
            # the raise on invalid signature must really leave the function
        # every normal exit that returns a value passes through the func call or raises
    fi = repo.method("EZPackOverlay", "_ez_unpack_auth", LC)
    cfg = ctx.cfg(fi)
    data_name = fi.params()[2]
    rets = [n for n in walk_no_nested(fi.node) if isinstance(n, ast.Return) and n.value is not None]
    ctx.anchor(rets, "_ez_unpack_auth return")
    for r in rets:
        facts = facts_at(cfg, r)
        ok, vcall = False, None
        for f in facts:
            if f.op == "truthy" and f.pos:
                vc, idx = _verify_call_link(ctx, fi, f.left, "verify-before-call", r)
                if vc is not None and idx == 0:
                    ok, vcall = True, vc
        ctx.check(ok, "verify-before-call", fi, r, "_ez_unpack_auth: return dominated by truthy signature check",
                  "_ez_unpack_auth can return payloads without a successful signature verification",
                  [str(f) for f in facts])
        if vcall is not None:
            a_auth, a_data = arg(vcall, 0), arg(vcall, 1)
            ctx.check(isinstance(a_data, ast.Name) and a_data.id == data_name and _is_param_unmodified(fi, data_name),
                      "verify-before-call", fi, vcall, "_ez_unpack_auth: verification gets the unmodified datagram",
                      "signature verification does not receive the complete, unmodified datagram")
            ctx.check(a_auth is not None and _check_auth_unpack(ctx, fi, a_auth, data_name, vcall, ""),
                      "verify-before-call", fi, vcall, "_ez_unpack_auth: key container unpacked from the datagram at offset 23",
                      "the verification key is not the one carried in this datagram")
            # returned auth is the verified one
            first = r.value.elts[0] if isinstance(r.value, ast.Tuple) and r.value.elts else None
            ctx.check(first is not None and a_auth is not None and same_expr(strip_cast(first), a_auth),
                      "peer-from-auth-key", fi, r, "_ez_unpack_auth returns the auth payload that was verified",
                      "the returned auth payload is not the one whose key verified the signature")
            _payload_source(ctx, fi, r, vcall, "_ez_unpack_auth")


def _payload_source(ctx: Ctx, fi: FuncInfo, site: ast.AST, vcall: ast.Call, label: str) -> None:
    """Every unpack_serializable_list whose result reaches the site decodes the `remainder` from _verify_signature."""
    ulist = calls(fi, "self.serializer.unpack_serializable_list")
    ctx.anchor(ulist, f"unpack_serializable_list in {label}")
    for u in ulist:
        src = arg(u, 1, "data")
        ok = False
        if isinstance(src, ast.Name):
            d = single_def(fi, src.id)
            if d is not None:
                v, idx = d
                ok = strip_cast(v) is vcall and idx == 1
        ctx.check(ok, "payload-from-signed-bytes", fi, u,
                  f"{label}: payloads are decoded from the remainder returned by _verify_signature",
                  "payloads handed to the handler are decoded from bytes other than the signed remainder")


def _peer_arg(ctx: Ctx, fi: FuncInfo, call: ast.Call, a_auth: ast.AST | None, addr_name: str, label: str) -> None:
    peer_arg = call.args[1] if len(call.args) >= 2 else None
    ok = False
    why = "the peer handed to the handler is not derived from the verified key"
    if peer_arg is not None and a_auth is not None:
        alts = peer_arg.values if isinstance(peer_arg, ast.BoolOp) and isinstance(peer_arg.op, ast.Or) else [peer_arg]
        good = []
        for alt in alts:
            e = resolve(fi, alt)
            if isinstance(e, ast.Call) and chain(e.func) == "Peer":
                k = arg(e, 0)
                good.append(k is not None and norm(k) == norm(a_auth) + ".public_key_bin"
                            and isinstance(ctx.repo.resolve_name(fi.module, "Peer"), ClassInfo))
            elif isinstance(e, ast.Call) and chain(e.func) == "self.network.verified_by_public_key_bin.get":
                k = arg(e, 0)
                good.append(k is not None and norm(k) == norm(a_auth) + ".public_key_bin" and len(e.args) == 1)
            else:
                good.append(False)
        ok = bool(good) and all(good)
    ctx.check(ok, "peer-from-auth-key", fi, call,
              f"{label}: peer argument is verified_by_public_key_bin.get(K) or Peer(K, addr) with K = auth.public_key_bin",
              why)


def rule_verify_signature(ctx: Ctx) -> None:
    fi = ctx.repo.method("EZPackOverlay", "_verify_signature", LC)
    params = fi.params()
    auth_name, data_name = params[1], params[2]
    rets = [n for n in walk_no_nested(fi.node) if isinstance(n, ast.Return)]
    ctx.anchor(rets, "_verify_signature return")
    ok_data = _is_param_unmodified(fi, data_name)
    for r in rets:
        v = r.value
        first = v.elts[0] if isinstance(v, ast.Tuple) and len(v.elts) == 2 else None
        first = resolve(fi, first) if first is not None else None
        good = False
        reason = "return value is not (is_valid_signature(...), remainder)"
        if isinstance(first, ast.Call) and call_name(first) == "is_valid_signature" and len(first.args) == 3:
            k, d, s = (resolve(fi, a) for a in first.args)
            # key
            key_ok = (isinstance(k, ast.Call) and call_name(k) == "key_from_public_bin"
                      and norm(arg(k, 0)) == f"{auth_name}.public_key_bin")
            # L
            def siglen_ok(e) -> bool:
                e = resolve(fi, e)
                return (isinstance(e, ast.Call) and call_name(e) == "get_signature_length"
                        and isinstance(resolve(fi, arg(e, 0)), ast.Call)
                        and norm(resolve(fi, arg(e, 0))) == norm(k))
            def neg_len(e) -> bool:
                return isinstance(e, ast.UnaryOp) and isinstance(e.op, ast.USub) and siglen_ok(e.operand)
            d_ok = (isinstance(d, ast.Subscript) and isinstance(d.value, ast.Name) and d.value.id == data_name
                    and isinstance(d.slice, ast.Slice) and d.slice.lower is None and d.slice.step is None
                    and d.slice.upper is not None and neg_len(d.slice.upper))
            s_ok = (isinstance(s, ast.Subscript) and isinstance(s.value, ast.Name) and s.value.id == data_name
                    and isinstance(s.slice, ast.Slice) and s.slice.upper is None and s.slice.step is None
                    and s.slice.lower is not None and neg_len(s.slice.lower))
            good = key_ok and d_ok and s_ok and ok_data
            reason = ("is_valid_signature must be given (key_from_public_bin(auth.public_key_bin), data[:-L], data[-L:]) "
                      f"with L = get_signature_length(that key): key_ok={key_ok} signed_bytes_ok={d_ok} "
                      f"signature_slice_ok={s_ok} data_unmodified={ok_data}")
        ctx.check(good, "whole-prefix", fi, r, "_verify_signature verifies every byte before the signature with the carried key",
                  reason)
        # remainder: data[2+len(pk) : -L]
        second = v.elts[1] if isinstance(v, ast.Tuple) and len(v.elts) == 2 else None
        second = resolve(fi, second) if second is not None else None
        rem_ok = False
        if isinstance(second, ast.Subscript) and isinstance(second.value, ast.Name) and second.value.id == data_name \
                and isinstance(second.slice, ast.Slice) and second.slice.upper is not None:
            up = second.slice.upper
            lo = second.slice.lower
            up_ok = isinstance(up, ast.UnaryOp) and isinstance(up.op, ast.USub) and isinstance(resolve(fi, up.operand), ast.Call) \
                and call_name(resolve(fi, up.operand)) == "get_signature_length"
            lo_ok = lo is not None and norm(lo) in (f"2 + len({auth_name}.public_key_bin)", f"len({auth_name}.public_key_bin) + 2")
            rem_ok = up_ok and lo_ok
        ctx.check(rem_ok, "payload-from-signed-bytes", fi, r,
                  "remainder = data[2+len(key) : -L] (inside the signed bytes; the auth header is skipped exactly)",
                  "the remainder handed on for payload decoding is not the signed region minus the auth header")


def rule_sign_side(ctx: Ctx) -> None:
    repo = ctx.repo
    sites = []
    for fi in repo.all_functions():
        for c in calls(fi, "create_signature"):
            if fi.cls is not None and fi.cls.name == "ECCrypto":
                continue
            if fi.cls is not None and (fi.cls.is_subclass_of("Overlay")):
                sites.append((fi, c))
    ctx.floor("sign-covers-all", len(sites), 2)
    for fi, c in sites:
        st = c
        from ..model import enclosing_stmt
        st = enclosing_stmt(c)
        signed = arg(c, 1)
        ok = False
        reason = "signature is not appended to the very buffer that was signed"
        if isinstance(st, ast.AugAssign) and isinstance(st.op, ast.Add) and isinstance(st.target, ast.Name) \
                and isinstance(signed, ast.Name) and signed.id == st.target.id and st.value is c:
            # the buffer starts with the prefix and msg id: first def is  <prefix> + bytes([msg]) ...
            defs = [d for d in local_defs(fi, signed.id) if d[1] is not None]
            first = defs[0][1] if defs else None
            lead = first
            while isinstance(lead, ast.BinOp) and isinstance(lead.op, ast.Add):
                lead = lead.left
            starts_with_prefix = lead is not None and (norm(lead) in ("prefix", "self._prefix"))
            has_msg = first is not None and any(isinstance(n, ast.Call) and chain(n.func) == "bytes" for n in ast.walk(first))
            packs = any(mentions(d[0], "pack_serializable_list") for d in local_defs(fi, signed.id))
            ok = starts_with_prefix and has_msg and packs
            reason = f"signed buffer must be prefix + bytes([msg_id]) + packed payloads: prefix_first={starts_with_prefix} msg_id={has_msg} payloads={packs}"
        ctx.check(ok, "sign-covers-all", fi, st, "signature computed over prefix+msg_id+payloads and appended to it", reason)


def rule_is_valid_signature(ctx: Ctx) -> None:
    fi = ctx.repo.method("ECCrypto", "is_valid_signature", "ipv8/keyvault/crypto.py")
    params = fi.params()
    key, data, sig = params[1], params[2], params[3]
    vcalls = [c for c in calls(fi) if call_name(c) == "verify"]
    ctx.anchor(vcalls, "ec_key.verify call in ECCrypto.is_valid_signature")
    for c in vcalls:
        from ..model import ancestors, enclosing_stmt
        st = enclosing_stmt(c)
        in_try = None
        for a in ancestors(c):
            if isinstance(a, ast.Try) and any(st is s or st in list(ast.walk(s)) for s in a.body):
                in_try = a
                break
        ok_try = False
        if in_try is not None:
            for h in in_try.handlers:
                catches = h.type is None or chain(h.type) in ("Exception", "BaseException")
                returns_false = any(isinstance(s, ast.Return) and isinstance(s.value, ast.Constant) and s.value.value is False
                                    for s in h.body) and not any(isinstance(s, ast.Return) and not (isinstance(s.value, ast.Constant) and s.value.value is False) for s in ast.walk(h))
                if catches and returns_false:
                    ok_try = True
        ctx.check(ok_try, "exception-safe-validate", fi, st, "verify() wrapped in try/except Exception: return False",
                  "an exception in verify() is not turned into `False`")
        ok_ret = isinstance(st, ast.Return) and st.value is c
        ctx.check(ok_ret, "exception-safe-validate", fi, st, "is_valid_signature returns verify()'s own result",
                  "the result of verify() is not what is_valid_signature returns")
        ok_args = (chain(c.func) == f"{key}.verify" and len(c.args) == 2 and norm(c.args[0]) == sig and norm(c.args[1]) == data
                   and not local_defs(fi, key) and not local_defs(fi, data) and not local_defs(fi, sig))
        ctx.check(ok_args, "exception-safe-validate", fi, c, "verify(signature, data) on the given key with unmodified arguments",
                  "verify() is not called as key.verify(signature, data) with the function's own arguments")
    # every return is either that call, or False inside the handler
    for r in [n for n in walk_no_nested(fi.node) if isinstance(n, ast.Return)]:
        v = r.value
        good = (isinstance(v, ast.Call) and call_name(v) == "verify") or (isinstance(v, ast.Constant) and v.value is False)
        ctx.check(good, "exception-safe-validate", fi, r, "return is verify(...) or False",
                  "is_valid_signature can return something other than verify()'s verdict or False")


# ------------------------------------------------------------------------------------------ handler table
def _transparent_decorator(deco: FuncInfo) -> bool:
    """def deco(f): def wrapper(self, *args, **kwargs): ... return f(self, *args, **kwargs); return wrapper"""
    params = deco.params()
    if len(params) != 1:
        return False
    fname = params[0]
    inner = [n for n in walk_no_nested(deco.node) if isinstance(n, ast.FunctionDef) and n is not deco.node]
    if len(inner) != 1:
        return False
    w = inner[0]
    a = w.args
    if len(a.args) != 1 or a.vararg is None or a.kwarg is None or a.kwonlyargs or a.defaults:
        return False
    fcalls = [c for c in ast.walk(w) if isinstance(c, ast.Call) and chain(c.func) == fname]
    if len(fcalls) != 1:
        return False
    c = fcalls[0]
    shape = (len(c.args) == 2 and norm(c.args[0]) == a.args[0].arg and isinstance(c.args[1], ast.Starred)
             and norm(c.args[1].value) == a.vararg.arg and len(c.keywords) == 1 and c.keywords[0].arg is None
             and norm(c.keywords[0].value) == a.kwarg.arg)
    rets = [r for r in ast.walk(w) if isinstance(r, ast.Return)]
    return shape and len(rets) == 1 and rets[0].value is c


def classify_handler(ctx: Ctx, fi: FuncInfo) -> str:
    decos = list(fi.node.decorator_list)
    while decos:
        d = decos[0]
        name = chain(d.func) if isinstance(d, ast.Call) else chain(d)
        target = ctx.repo.resolve_name(fi.module, name) if name and "." not in name else None
        if isinstance(target, FuncInfo) and not isinstance(d, ast.Call) and _transparent_decorator(target):
            decos.pop(0)       # passes (self, *args, **kwargs) through unchanged: look at the next decorator
            continue
        if isinstance(target, FuncInfo):
            if target.module.relpath == LC and target.name in AUTH_DECOS:
                return "authenticated"
            if target.module.relpath == LC and target.name in UNSIGNED_DECOS:
                return "unsigned"
            if target.name == "unpack_cell":
                return "cell"
        return f"unknown-decorator:{name}"
    # manual: authenticated iff all effects are reached only after a completed _ez_unpack_auth
    cfg = ctx.cfg(fi)
    ucalls = calls(fi, "self._ez_unpack_auth")
    if not ucalls:
        return "raw"
    unodes = [n for c in ucalls for n in cfg.nodes_for(c)]
    effects = [c for c in calls(fi) if (chain(c.func) or "").startswith(("self.network.", "self.endpoint.", "Peer"))
               or chain(c.func) in ("self.ez_send", "self.create_introduction_response")]
    if not effects:
        return "raw"
    for e in effects:
        for n in cfg.nodes_for(e):
            if cfg.reachable(n) and not cfg.must_complete(n, unodes):
                return "raw"
    params = fi.params()
    for c in ucalls:
        a = arg(c, 1, "data")
        if not (isinstance(a, ast.Name) and a.id == params[2] and _is_param_unmodified(fi, params[2])):
            return "raw"
    # Peer(...) built from the auth returned by _ez_unpack_auth
    for c in calls(fi, "Peer"):
        k = arg(c, 0)
        base = k.value if isinstance(k, ast.Attribute) and k.attr == "public_key_bin" else None
        if not isinstance(base, ast.Name):
            return "raw"
        defs = local_defs(fi, base.id)
        if not defs or not all(d[1] is not None and strip_cast(d[1]) in ucalls and d[2] == 0 for d in defs):
            return "raw"
    return "manual-authenticated"


def registrations(ctx: Ctx):
    """(registering class, kind, msg expr, handler name, call) for every add_message_handler / add_cell_handler."""
    out = []
    for ci in ctx.repo.all_classes():
        if not ci.is_subclass_of("Overlay") and ci.name != "Overlay":
            continue
        for fi in ci.methods.values():
            for c in calls(fi, ["self.add_message_handler", "self.add_cell_handler"]):
                kind = call_name(c)
                h = strip_cast(arg(c, 1, "callback") or arg(c, 1, "handler"))
                hn = h.attr if isinstance(h, ast.Attribute) and isinstance(h.value, ast.Name) and h.value.id == "self" else None
                out.append((ci, kind, arg(c, 0), hn, c, fi))
    return out


def rule_handler_table(ctx: Ctx) -> None:
    with open(TABLE, encoding="utf-8") as fh:
        table = json.load(fh)["handlers"]
    regs = registrations(ctx)
    ctx.floor("handler-auth", len(regs), 60)
    seen = {}
    for ci, kind, msg, hn, call, fi in regs:
        if hn is None:
            ctx.check(False, "handler-auth", fi, call, "registration names a bound method of self",
                      "handler is not a plain `self.<method>` (cannot be classified; a lambda or unwrapped function "
                      "would bypass the unpacking decorator)")
            continue
        for cls in [ci, *ci.all_subclasses()]:
            target = cls.lookup(hn)
            if target is None:
                continue
            key = f"{cls.name}.{hn}:{'socket' if kind == 'add_message_handler' else 'cell'}"
            klass = classify_handler(ctx, target)
            seen[key] = klass
            ref = table.get(key)
            if ref is None:
                ctx.note(f"new-handler {key} ({klass}) defined at {target.where}: no reference class, not judged")
                ctx.instance("handler-auth", target.where, f"{key} -> {klass} (new, not judged)", nontrivial=False)
                continue
            strength = {"authenticated": 2, "manual-authenticated": 2}
            ok = klass == ref or strength.get(klass, 0) >= strength.get(ref, 0) and ref not in ("cell",) or \
                (ref in ("unsigned", "raw") and klass in ("authenticated", "manual-authenticated"))
            if ref == "cell":
                ok = klass in ("cell", "authenticated", "manual-authenticated")
            ctx.check(ok, "handler-auth", target, target.node,
                      f"{key}: classified {klass}, reference {ref}",
                      f"handler {key} was {ref} on the reviewed tree and is now {klass} (authentication downgraded)")
    ctx.extra["handler_table_seen"] = seen
    missing = sorted(k for k in table if k not in seen)
    if missing:
        ctx.note("handlers in the reference table no longer registered: " + ", ".join(missing))
    n_auth = sum(1 for v in seen.values() if v in ("authenticated", "manual-authenticated"))
    ctx.floor("handler-auth.authenticated", n_auth, 25)


def rule_no_bypass(ctx: Ctx) -> None:
    repo = ctx.repo
    # decode_map subscripts used for dispatch (Load context, result called) only in Community.on_packet
    n_reads = 0
    for m in repo.modules.values():
        for n in ast.walk(m.tree):
            if isinstance(n, ast.Attribute) and n.attr == "__wrapped__":
                fi = repo.function_of(n)
                ctx.check(False, "no-bypass", fi.where if fi else m.relpath, n, "no use of __wrapped__",
                          "`__wrapped__` reaches the undecorated handler and skips signature verification")
            if isinstance(n, ast.Subscript) and isinstance(n.ctx, ast.Load) and chain(n.value) and \
                    chain(n.value).endswith(".decode_map"):
                fi = repo.function_of(n)
                n_reads += 1
                where = fi.qualname if fi else "?"
                allowed = where in ("Community.on_packet", "Community.add_message_handler",
                                    "OverlaysEndpoint.statistics_by_name") or (fi is not None and fi.module.relpath.startswith("ipv8/REST/"))
                ctx.check(allowed, "no-bypass", fi or m.relpath, n, f"decode_map read in {where}",
                          "decode_map is read outside Community.on_packet/add_message_handler: handlers could be "
                          "invoked around the prefix check / exception containment")
    ctx.floor("no-bypass", n_reads, 3)
    # writes to decode_map only in add_message_handler (+ the initialisation)
    for m in repo.modules.values():
        for n in ast.walk(m.tree):
            if isinstance(n, (ast.Assign, ast.AnnAssign)):
                tgts = n.targets if isinstance(n, ast.Assign) else [n.target]
                for t in tgts:
                    c = chain(t)
                    if c and (c.endswith(".decode_map[]") or c.endswith(".decode_map")):
                        fi = repo.function_of(n)
                        where = fi.qualname if fi else "?"
                        ctx.check(where in ("Community.add_message_handler", "Community.__init__"), "no-bypass",
                                  fi or m.relpath, n, f"decode_map written in {where}",
                                  "decode_map is written outside add_message_handler: registration checks bypassed")
    # the authenticated decorators are defined once and not rebound
    for name in sorted(AUTH_DECOS):
        cands = [f for f in repo.all_functions() if f.name == name and f.cls is None and "." not in f.qualname]
        ctx.check(len(cands) == 1 and cands[0].module.relpath == LC, "no-bypass", LC, name,
                  f"single definition of {name}", f"{name} is defined {len(cands)} times (shadowing the verifying decorator)")


def run(ctx: Ctx) -> None:
    rule_wrappers(ctx)
    rule_verify_signature(ctx)
    rule_sign_side(ctx)
    rule_is_valid_signature(ctx)
    rule_handler_table(ctx)
    rule_no_bypass(ctx)
    ctx.assume("signature primitive (libnacl / OpenSSL keys behind Key.verify) is unforgeable: trusted")
    ctx.assume("Serializer.unpack_serializable decodes BinMemberAuthenticationPayload as a 2-byte length + key (C02 covers the codec)")


_LC = "ipv8/lazy_community.py"
WITNESSES = [
    {"name": "wrapper: signature check removed", "file": _LC, "rule": "verify-before-call",
     "old": """            if not signature_valid:
                msg = (f"Incoming packet {[payload_class.__name__ for payload_class in payloads]!s}"
                       " has an invalid signature")
                raise PacketDecodingError(msg)
""", "new": ""},
    {"name": "wrapper_wd: raise replaced by log", "file": _LC, "rule": "verify-before-call",
     "old": """                msg = f"Incoming packet {payloads_list!s} has an invalid signature"
                raise PacketDecodingError(msg)""",
     "new": """                msg = f"Incoming packet {payloads_list!s} has an invalid signature"
                self.logger.warning(msg)"""},
    {"name": "ez_unpack_auth: check inverted", "file": _LC, "rule": "verify-before-call",
     "old": """        if not signature_valid:
            msg = f"Incoming packet {payload_class.__name__} has an invalid signature\"""",
     "new": """        if signature_valid is None:
            msg = f"Incoming packet {payload_class.__name__} has an invalid signature\""""},
    {"name": "verify only part of datagram", "file": _LC, "rule": "whole-prefix",
     "old": "return ec.is_valid_signature(public_key, data[:-signature_length], signature), remainder",
     "new": "return ec.is_valid_signature(public_key, data[23:-signature_length], signature), remainder"},
    {"name": "verify with own key instead of carried key", "file": _LC, "rule": "whole-prefix",
     "old": "public_key = ec.key_from_public_bin(auth.public_key_bin)",
     "new": "public_key = self.my_peer.public_key"},
    {"name": "constant signature length", "file": _LC, "rule": "whole-prefix",
     "old": "signature = data[-signature_length:]", "new": "signature = data[-64:]"},
    {"name": "peer from address lookup instead of key", "file": _LC, "rule": "peer-from-auth-key",
     "old": """            peer = self.network.verified_by_public_key_bin.get(auth.public_key_bin)
            if peer:
                peer.add_address(source_address)
            return func(self, peer or Peer(auth.public_key_bin, source_address), *unpacked)""",
     "new": """            peer = self.network.get_verified_by_address(source_address)
            if peer:
                peer.add_address(source_address)
            return func(self, peer or Peer(auth.public_key_bin, source_address), *unpacked)"""},
    {"name": "payloads decoded from raw data not remainder", "file": _LC, "rule": "payload-from-signed-bytes",
     "old": """            unpacked = self.serializer.unpack_serializable_list(payloads, remainder, offset=23)
            # ASSERT
            if not signature_valid:
                payloads_list""",
     "new": """            unpacked = self.serializer.unpack_serializable_list(payloads, data, offset=23 + 2 + len(auth.public_key_bin))
            # ASSERT
            if not signature_valid:
                payloads_list"""},
    {"name": "sign before payloads appended", "file": _LC, "rule": "sign-covers-all",
     "old": """        packet = prefix + bytes([msg_num]) + self.serializer.pack_serializable_list(payloads)
        if sig:
            packet += default_eccrypto.create_signature(cast("PrivateKey", self.my_peer.key), packet)""",
     "new": """        body = self.serializer.pack_serializable_list(payloads)
        packet = prefix + bytes([msg_num]) + body
        if sig:
            packet += default_eccrypto.create_signature(cast("PrivateKey", self.my_peer.key), body)"""},
    {"name": "is_valid_signature swallows into True", "file": "ipv8/keyvault/crypto.py", "rule": "exception-safe-validate",
     "old": """            return ec_key.verify(signature, data)
        except Exception:
            return False""",
     "new": """            ec_key.verify(signature, data)
        except Exception:
            return False
        return True"""},
    {"name": "handler downgraded to unsigned", "file": "ipv8/dht/community.py", "rule": "handler-auth",
     "edits": [
         {"file": "ipv8/dht/community.py", "old": "    @lazy_wrapper(StoreRequestPayload)\n",
          "new": "    @lazy_wrapper_unsigned(StoreRequestPayload)\n"},
         {"file": "ipv8/dht/community.py", "old": "from ..lazy_community import ",
          "new": "from ..lazy_community import lazy_wrapper_unsigned, "}]},
    {"name": "subclass override without decorator", "file": "ipv8/dht/discovery.py", "rule": "handler-auth",
     "old": """    @lazy_wrapper_wd(PingRequestPayload)
    def on_ping_request(self, peer: Peer, payload: PingRequestPayload, data: bytes) -> None:""",
     "new": """    def on_ping_request(self, peer: Peer, payload: PingRequestPayload, data: bytes = b"") -> None:"""},
    {"name": "manual handler skips auth on fallback", "file": "ipv8/peerdiscovery/community.py", "rule": "handler-auth",
     "old": """        except (PacketDecodingError, PackError):
            auth, _, payload = self._ez_unpack_auth(IntroductionRequestPayload, data)""",
     "new": """        except (PacketDecodingError, PackError):
            auth, _ = self.serializer.unpack_serializable(BinMemberAuthenticationPayload, data, offset=23)
            _, payload = self._ez_unpack_noauth(IntroductionRequestPayload, data[2 + len(auth.public_key_bin):])"""},
    {"name": "registration via __wrapped__", "file": "ipv8/attestation/identity/community.py", "rule": "no-bypass",
     "old": "self.add_message_handler(AttestPayload, self.on_attest)",
     "new": "self.add_message_handler(AttestPayload, self.on_attest.__wrapped__)"},
]
