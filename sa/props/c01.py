"""C01 - Signed handlers run only for authentic, untampered datagrams."""
from __future__ import annotations

import ast
import json
import os

from ..core import Ctx
from ..match import Fact, arg, call_name, calls, fact_of, facts_at, has_fact, mentions, same_expr
from ..match import local_defs as _match_local_defs
from ..model import NOCONST, AnalysisError, ClassInfo, FuncInfo, chain, clone, enclosing_function, enclosing_stmt, norm, parent, strip_cast, walk_no_nested


# ------------------------------------------------------------------------------------------ definitions of locals
# `x = x` - also as one component of a tuple assignment `a, x, b = (a, x, f())`, which is what remains when a phase
# helper that returned some of the caller's own names next to new values was inlined - evaluates x and stores the very
# same object back: it is not a definition of x (the value of x after it is the value before it).  The def-use helpers of
# this module therefore do not count it, so that x stays the single-assignment local it is.
def local_defs(fi: FuncInfo, name: str) -> list:
    return [d for d in _match_local_defs(fi, name)
            if not (d[2] is None and isinstance(d[1], ast.Name) and d[1].id == name and isinstance(d[0], ast.Assign))]


def single_def(fi: FuncInfo, name: str):
    """(value, tuple_index) if `name` is a non-parameter local assigned exactly once, else None."""
    if name in fi.params():
        return None
    d = local_defs(fi, name)
    if len(d) == 1 and d[0][1] is not None:
        return d[0][1], d[0][2]
    return None


def resolve(fi: FuncInfo, expr: ast.AST, depth: int = 4) -> ast.AST:
    """Follow single-assignment local aliases: `x = self.t.get(k)` ... `x` -> the `get` call."""
    if expr is None:
        return None
    expr = strip_cast(expr)
    while depth > 0 and isinstance(expr, ast.Name):
        d = single_def(fi, expr.id)
        if d is None or d[1] is not None:
            break
        expr = strip_cast(d[0])
        depth -= 1
    return expr

_match_calls = calls


def _early_bound_callee(fi: FuncInfo, call: ast.Call) -> ast.AST | None:
    """
    The attribute path a call goes to when its callee was bound EARLY into a local: `f = self.a.m` ... `f(x)` (also as a
    component of a tuple assignment `f, g = self.a.m, self.a.n`, or with only the receiver bound: `s = self.a` ...
    `s.m(x)`)  ->  `self.a.m`, else None.  Reading `self.a.m` at the binding instead of at the call yields the same bound
    method as long as no attribute on the path is re-bound in between; required here (conservatively): the local is
    assigned exactly once, the path consists of names and attributes only and starts at a parameter that fi never
    re-binds, and fi stores into no attribute that has the name of a component of the path.
    """
    f = call.func
    base = f
    while isinstance(base, ast.Attribute):
        base = base.value
    if not (isinstance(base, ast.Name) and base.id not in fi.params() and single_def(fi, base.id) is not None):
        return None
    x = _expand(fi, f)
    attrs = []
    root = x
    while isinstance(root, ast.Attribute):
        attrs.append(root.attr)
        root = root.value
    if not (attrs and isinstance(root, ast.Name) and _is_param_unmodified(fi, root.id)):
        return None
    for n in walk_no_nested(fi.node):
        if isinstance(n, ast.Attribute) and isinstance(n.ctx, (ast.Store, ast.Del)) and n.attr in attrs:
            return None
    return x


def calls(fi_or_node, pattern=None, nested: bool = False):
    """match.calls, which additionally finds - when asked for a callee pattern in a function - the calls that go to a
    matching attribute path through an early-bound local (see _early_bound_callee)"""
    out = _match_calls(fi_or_node, pattern, nested)
    if pattern is None or nested or not isinstance(fi_or_node, FuncInfo) or isinstance(fi_or_node.node, ast.Lambda):
        return out
    from ..match import _match_chain
    extra = []
    for c in _match_calls(fi_or_node):
        if any(c is o for o in out):
            continue
        x = _early_bound_callee(fi_or_node, c)
        if x is not None and _match_chain(chain(x), pattern):
            extra.append(c)
    if extra:
        out = sorted([*out, *extra], key=lambda n: (n.lineno, n.col_offset))
    return out


LEVEL = "other"
EXPLANATION = (
    "Static rules over every site: (a) in both authenticating decorators and _ez_unpack_auth the call of the user "
    "handler / the return is dominated by a positive signature verdict whose inputs are def-use linked to the datagram "
    "parameter and to the key unpacked from that datagram; (b) _verify_signature - and every override of it in an overlay "
    "class, which is what `self._verify_signature` dispatches to - verifies data[:-L] with data[-L:] and the key carried "
    "in the datagram, L derived from that key; (c) the Peer handed on is built from that key only - also in the handlers "
    "that decode with _ez_unpack_auth themselves: every value of the peer they hand to a method of Network that takes a peer "
    "first and writes membership (add_verified_peer, discover_services, ...) is Peer(K, addr) or the registry entry under K, "
    "K the verified auth payload's public_key_bin (a network lookup that is not given K - by address - is not); "
    "(d) sign side covers the whole packet; (e) every handler registered by every overlay class (and every override in "
    "a subclass) keeps the authentication class frozen from the reviewed tree; (f) decode_map is dispatched only by "
    "Community.on_packet and __wrapped__ is never used; (g) Community.on_packet calls a decode_map handler only after "
    "comparing the first 22 bytes of the very datagram it hands on with the overlay's own prefix (a signature covers the "
    "prefix, which binds a message to one overlay only if the receiver checks it); (h) inside the authenticating wrappers "
    "nothing that changes a verified-peer entry (peer.add_address on the entry looked up under the key named in the "
    "datagram, writes to the registry / network, helpers that do so) is reachable before a positive verdict - an unsigned "
    "datagram must not re-home a verified peer; (i) Peer.__init__ turns key bytes into the peer's key object only by "
    "key_from_public_bin(<the whole argument>) - the same parse of the same bytes that _verify_signature verifies with - "
    "directly, through a helper / functools cache, or through a memo table indexed with the whole argument (a table or "
    "parser fed a PART of the bytes can resolve to another key than the one that verified). A signature / prefix check spelled as "
    "an `assert` does not count (compiled away under -O). Constructs are recognised by what they compute: expressions "
    "are compared after substituting single-assignment locals and composing slices of slices, values that travel through "
    "locals are followed by reaching definitions on the CFG; which parameter of _verify_signature is the datagram / the "
    "key and where its result carries verdict and remainder is read off the method itself; a guard may reach the site "
    "through a tag (a local / a helper's result that is tested later: the facts common to all ways the tag can have got "
    "a value compatible with the test), through the normal completion of a helper that returns only after the check, "
    "or through a local closure that is itself wrapped by a directly verifying decorator; helpers are analysed with "
    "their parameters bound to the caller's arguments; a result object (NamedTuple / dataclass / namedtuple / a class "
    "whose __init__ only stores its parameters) is the tuple of its constructor arguments with named components, Enum "
    "members are distinct constants, X[slice(a, b)] is X[a:b], `with contextlib.suppress(E): B` is try: B except E: pass, "
    "`x = x` (also as a component of a tuple assignment) defines nothing, a private list that is only grown at its end "
    "(append / extend / += display) and only read by b''.join(..) is, at each program point, the concatenation of the items "
    "put in on the path taken; a sequence that is re-bound instead of mutated (parts = (*parts, x), parts += (x,)) and read only "
    "item-wise (star, +, constant slice, tuple()/list(), b''.join) has the items of the definition that reaches the point. "
    "A phase helper that hands its verdict BACK as one component of its result (auth, verdict, payloads = helper(data)) counts "
    "for a site dominated by a test that found that component of that call true, when every return of the helper has the "
    "literal False/None/0 there or meets - given that its component is true - the conditions of _ez_unpack_auth. "
    "Decides the dataflow/dominance facts, not the cryptography."
)

TABLE = os.path.join(os.path.dirname(os.path.dirname(__file__)), "tables", "c01_handlers.json")
LC = "ipv8/lazy_community.py"
AUTH_DECOS = {"lazy_wrapper", "lazy_wrapper_wd"}
UNSIGNED_DECOS = {"lazy_wrapper_unsigned", "lazy_wrapper_unsigned_wd"}


def _is_param_unmodified(fi: FuncInfo, name: str) -> bool:
    return name in fi.params() and not local_defs(fi, name)


# ------------------------------------------------------------------------------------------ def-use helpers
_OWN_SCOPE = (ast.Lambda, ast.ListComp, ast.SetComp, ast.DictComp, ast.GeneratorExp)


def _expand(fi: FuncInfo, e: ast.AST | None, depth: int = 6) -> ast.AST | None:
    """
    Copy of `e` in which every local that is assigned exactly once (plain `x = <expr>`, not a parameter) is replaced
    by its defining expression, recursively, and `cast(T, v)` is replaced by v.  A single-assignment local has the
    value of its defining expression wherever it is readable, so two expressions with the same expansion denote the
    same value as long as the expansions are built from the same parameters / attributes (what the rules compare).
    The original tree is never modified (unchanged sub-trees are shared, rebuilt nodes carry no parent link).
    """
    if e is None:
        return None
    e = strip_cast(e)
    if isinstance(e, ast.Name):
        if isinstance(e.ctx, ast.Load) and depth > 0:
            d = single_def(fi, e.id)
            if d is not None and d[1] is None:
                return _expand(fi, d[0], depth - 1)
        return e
    if isinstance(e, _OWN_SCOPE) or not e._fields:
        return e
    new = type(e)()
    for f in e._fields:
        v = getattr(e, f, None)
        if isinstance(v, list):
            v = [_expand(fi, x, depth) if isinstance(x, ast.AST) else x for x in v]
        elif isinstance(v, ast.AST):
            v = _expand(fi, v, depth)
        setattr(new, f, v)
    return ast.copy_location(new, e)


def _xnorm(fi: FuncInfo, e: ast.AST | None) -> str | None:
    return None if e is None else norm(_expand(fi, e))


def _alternatives(fi: FuncInfo, e: ast.AST, depth: int = 4) -> list[ast.AST]:
    """
    Every expression whose value `e` may take: `a or b` -> a, b; `a if c else b` -> a, b; a local -> the values of ALL
    its assignments (over-approximation of the reaching definitions).  Anything that cannot be followed is returned as is.
    """
    e = strip_cast(e)
    if depth <= 0:
        return [e]
    if isinstance(e, ast.NamedExpr):
        return _alternatives(fi, e.value, depth)            # (x := v) has the value of v
    if isinstance(e, ast.BoolOp) and isinstance(e.op, ast.Or):
        return [x for v in e.values for x in _alternatives(fi, v, depth - 1)]
    if isinstance(e, ast.IfExp):
        return _alternatives(fi, e.body, depth - 1) + _alternatives(fi, e.orelse, depth - 1)
    if isinstance(e, ast.Name) and e.id not in fi.params():
        defs = local_defs(fi, e.id)
        if defs and all(v is not None and idx is None for _, v, idx in defs):
            return [x for _, v, _ in defs for x in _alternatives(fi, v, depth - 1)]
    return [e]


def _tuple_component(fi: FuncInfo, e: ast.AST, depth: int = 4) -> tuple[ast.AST | None, int | None]:
    """(producer expression, constant index) when `e` is component <index> of a single producer:
    `a, b = P` ... `a`  |  `r = P` ... `r[0]`  |  `a = P[0]` ... `a`  |  `P[0]`."""
    e = strip_cast(e)
    if isinstance(e, ast.Name) and depth > 0:
        d = single_def(fi, e.id)
        if d is None:
            return None, None
        val, idx = d
        if idx is not None:
            return resolve(fi, val), idx
        return _tuple_component(fi, val, depth - 1)
    if isinstance(e, ast.Subscript) and isinstance(e.slice, ast.Constant) and isinstance(e.slice.value, int):
        return resolve(fi, e.value), e.slice.value
    if isinstance(e, ast.Attribute) and isinstance(e.value, ast.Name) and e.value.id not in fi.params() \
            and single_def(fi, e.value.id) is not None and not _fields_written(fi, e.value.id):
        # `r = P` ... `r.field`: the component of a record result that is called `field` (index = the field NAME; the
        # caller maps it to a position with the producer's record layout)
        return resolve(fi, e.value), e.attr
    if isinstance(e, ast.Attribute) and isinstance(strip_cast(e.value), ast.Call):
        return strip_cast(e.value), e.attr
    if isinstance(e, ast.Call):
        return e, None                      # the whole result of the producer
    return None, None


def _def_nodes(cfg, fi: FuncInfo, name: str) -> dict:
    """CFG node -> assigned value (None when unknown: tuple component, loop target, augmented assignment, ...)."""
    out = {}
    for st, val, idx in local_defs(fi, name):
        nodes = cfg.nodes_for(st)
        if not nodes:
            raise AnalysisError(f"undecided: assignment of `{name}` in {fi.qualname} has no control-flow node")
        for n in nodes:
            out[n] = val if idx is None and not isinstance(st, ast.AugAssign) else None
    return out


_UNBOUND = "<no assignment since start>"
_UNKNOWN = "<unknown value>"


def _reaching(defs: dict, start) -> dict:
    """Reaching definitions of one local from `start`: node -> set of defining nodes (None: no assignment since start)
    whose value the local may hold on entry to the node.  An assignment that raises does not assign."""
    state = {start: {None}}
    todo = [start]
    while todo:
        u = todo.pop()
        cur = state[u]
        for v, lab in u.succ:
            out = cur if (lab == "exc" or u not in defs) else {u}
            s = state.setdefault(v, set())
            if not out <= s:
                s |= out
                todo.append(v)
    return state


def _values_at(cfg, fi: FuncInfo, node, e: ast.AST, start, depth: int = 4) -> list:
    """Expressions (or _UNBOUND / _UNKNOWN) whose value `e` can have when `node` is entered on a path from `start`."""
    e = strip_cast(e)
    if not isinstance(e, ast.Name) or e.id in fi.params() or not local_defs(fi, e.id):
        return [e]
    if depth <= 0:
        return [_UNKNOWN]
    defs = _def_nodes(cfg, fi, e.id)
    out = []
    for dn in _reaching(defs, start).get(node, set()):
        if dn is None:
            out.append(_UNBOUND)
        elif defs[dn] is None:
            out.append(_UNKNOWN)
        else:
            out.extend(_values_at(cfg, fi, dn, defs[dn], start, depth - 1))
    return out


def _in_assert(e: ast.AST) -> bool:
    from ..model import enclosing_stmt
    return isinstance(enclosing_stmt(e), ast.Assert)


# ------------------------------------------------------------------------------------------ result objects (records)
# A function may hand back its results as a small record instead of a tuple: a NamedTuple / dataclass / namedtuple(...) /
# plain class whose __init__ only stores its parameters.  Constructing such a record binds each field to one argument
# expression, and reading `<record>.<field>` (or `<record>[i]` / tuple unpacking for the tuple-like kinds) gives back
# exactly that value - the same relation as between a tuple display and its components.  The rules below therefore
# treat `Cls(a, b)` as the tuple (a, b) with named components.
class _Record:
    def __init__(self, names: list[str], values: list[ast.AST], tuple_like: bool, cls_name: str) -> None:
        self.names, self.values, self.tuple_like, self.cls_name = names, values, tuple_like, cls_name


_NOPROJ = object()
_FORBIDDEN_RECORD_METHODS = {"__new__", "__init__", "__post_init__", "__getattr__", "__getattribute__", "__getitem__",
                             "__iter__", "__setattr__", "__class_getitem__", "__init_subclass__"}


def _class_record_layout(cls: ClassInfo):
    """([(field name, default expr | None)], tuple_like) when every instance of cls is a plain record of its
    constructor arguments, else None"""
    cached = getattr(cls, "_c01_layout", _NOPROJ)
    if cached is not _NOPROJ:
        return cached
    out = None
    node = cls.node
    base_names = [chain(b) or "" for b in node.bases]
    own_methods = {n.name for n in node.body if isinstance(n, (ast.FunctionDef, ast.AsyncFunctionDef))}
    nested_classes = [n for n in node.body if isinstance(n, ast.ClassDef)]
    decos = [chain(d.func) if isinstance(d, ast.Call) else chain(d) for d in node.decorator_list]

    def ann_fields():
        fs = []
        for st in node.body:
            if isinstance(st, ast.AnnAssign) and isinstance(st.target, ast.Name):
                if "ClassVar" in norm(st.annotation):
                    continue
                fs.append((st.target.id, st.value))
            elif isinstance(st, ast.Assign):
                return None                  # un-annotated class attribute: not a field, may shadow one
        return fs

    if not node.keywords and not nested_classes and not cls.subclasses:
        if len(base_names) == 1 and base_names[0] in ("NamedTuple", "typing.NamedTuple") and not decos \
                and not (own_methods & _FORBIDDEN_RECORD_METHODS):
            fs = ann_fields()
            if fs and not any(n in own_methods for n, _ in fs):
                out = (fs, True)
        elif not base_names and len(decos) == 1 and decos[0] in ("dataclass", "dataclasses.dataclass") \
                and not (own_methods & _FORBIDDEN_RECORD_METHODS):
            d = node.decorator_list[0]
            kws = {k.arg: k.value for k in d.keywords} if isinstance(d, ast.Call) else {}
            plain = all(k in ("frozen", "slots", "eq", "repr", "order", "unsafe_hash", "match_args") for k in kws) \
                and not (isinstance(d, ast.Call) and d.args)
            fs = ann_fields() if plain else None
            if fs and not any(n in own_methods for n, _ in fs):
                ok, res = True, []
                for n, dv in fs:
                    if isinstance(dv, ast.Call) and call_name(dv) == "field":
                        fk = {k.arg: k.value for k in dv.keywords}
                        if dv.args or set(fk) - {"default", "repr", "compare", "hash"}:
                            ok = False
                        dv = fk.get("default")
                    res.append((n, dv))
                if ok:
                    out = (res, False)
        elif (not base_names or base_names == ["object"]) and not decos and "__init__" in own_methods \
                and not (own_methods & (_FORBIDDEN_RECORD_METHODS - {"__init__"})):
            init = next(n for n in node.body if isinstance(n, ast.FunctionDef) and n.name == "__init__")
            a = init.args
            if not (a.vararg or a.kwarg or a.kwonlyargs or a.posonlyargs or init.decorator_list) and len(a.args) >= 2:
                params = [x.arg for x in a.args]
                defaults = [None] * (len(params) - len(a.defaults)) + list(a.defaults)
                attr_of = {}
                ok = True
                for st in init.body:
                    if isinstance(st, ast.Expr) and isinstance(st.value, ast.Constant):
                        continue
                    tgt = st.targets[0] if isinstance(st, ast.Assign) and len(st.targets) == 1 else \
                        st.target if isinstance(st, ast.AnnAssign) and st.value is not None else None
                    val = st.value if tgt is not None else None
                    if isinstance(tgt, ast.Attribute) and isinstance(tgt.value, ast.Name) and tgt.value.id == params[0] \
                            and isinstance(val, ast.Name) and val.id in params[1:] and val.id not in attr_of \
                            and tgt.attr not in attr_of.values() and tgt.attr not in own_methods:
                        attr_of[val.id] = tgt.attr
                    else:
                        ok = False
                # stored by the constructor only: no other method of the class writes the fields
                for m in node.body:
                    if isinstance(m, (ast.FunctionDef, ast.AsyncFunctionDef)) and m is not init:
                        for n in ast.walk(m):
                            if isinstance(n, ast.Attribute) and isinstance(n.ctx, (ast.Store, ast.Del)):
                                ok = False
                if ok and len(attr_of) == len(params) - 1:
                    out = ([(attr_of[p], dv) for p, dv in zip(params[1:], defaults[1:])], False)
    try:
        cls._c01_layout = out       # type: ignore[attr-defined]
    except Exception:  # noqa: BLE001
        pass
    return out


def _namedtuple_layout(e: ast.AST):
    """layout of `namedtuple("X", "a b")` / `namedtuple("X", ["a", "b"])`"""
    if not (isinstance(e, ast.Call) and call_name(e) == "namedtuple" and len(e.args) == 2 and not e.keywords):
        return None
    spec = e.args[1]
    if isinstance(spec, ast.Constant) and isinstance(spec.value, str):
        names = spec.value.replace(",", " ").split()
    elif isinstance(spec, (ast.List, ast.Tuple)) and all(isinstance(x, ast.Constant) and isinstance(x.value, str) for x in spec.elts):
        names = [x.value for x in spec.elts]
    else:
        return None
    if not names or len(set(names)) != len(names) or not all(n.isidentifier() and not n.startswith("_") for n in names):
        return None
    return [(n, None) for n in names], True


def _record_of(ctx: Ctx, fi: FuncInfo, e: ast.AST) -> _Record | None:
    """the record that call expression `e` (in fi, or brought into fi's terms from a helper) constructs"""
    e = strip_cast(e)
    if not isinstance(e, ast.Call) or not isinstance(e.func, (ast.Name, ast.Attribute)):
        return None
    if any(isinstance(x, ast.Starred) for x in e.args) or any(k.arg is None for k in e.keywords):
        return None
    layout, cname = None, None
    if isinstance(e.func, ast.Name):
        if e.func.id in _local_names(fi):
            return None
        r = ctx.repo.resolve_name(fi.module, e.func.id)
        if r is None:
            cands = ctx.repo.classes.get(e.func.id, [])
            r = cands[0] if len(cands) == 1 else None        # a helper's global, unique in the repository
        if isinstance(r, ClassInfo):
            layout, cname = _class_record_layout(r), r.name
        elif isinstance(r, tuple) and r[0] == "const":
            layout, cname = _namedtuple_layout(strip_cast(r[2])), e.func.id
    else:
        r = ctx.repo.resolve_class_expr(fi.module, e.func)
        if r is not None:
            layout, cname = _class_record_layout(r), r.name
    if layout is None:
        return None
    fields, tuple_like = layout
    names = [n for n, _ in fields]
    if len(e.args) > len(names):
        return None
    vals: dict[str, ast.AST] = dict(zip(names, e.args))
    for k in e.keywords:
        if k.arg not in names or k.arg in vals:
            return None
        vals[k.arg] = k.value
    for n, dv in fields:
        if n not in vals:
            if dv is None:
                return None
            vals[n] = dv
    return _Record(names, [vals[n] for n in names], tuple_like, cname or "?")


def _components(ctx: Ctx, fi: FuncInfo, v: ast.AST | None):
    """(component expressions, field names | None, tuple_like) of a tuple display / record construction, else None"""
    v = strip_cast(v) if v is not None else None
    if isinstance(v, (ast.Tuple, ast.List)):
        return None if any(isinstance(x, ast.Starred) for x in v.elts) else (list(v.elts), None, True)
    rec = _record_of(ctx, fi, v) if isinstance(v, ast.Call) else None
    if rec is not None:
        return rec.values, rec.names, rec.tuple_like
    return None


def _project(ctx: Ctx, fi: FuncInfo, v: ast.AST, sel):
    """component `sel` (field name / constant index) of the value of display / record construction v, else _NOPROJ"""
    comps = _components(ctx, fi, v)
    if comps is None:
        return _NOPROJ
    vals, names, tuple_like = comps
    if isinstance(sel, str):
        return vals[names.index(sel)] if names is not None and sel in names else _NOPROJ
    if isinstance(sel, int) and not isinstance(sel, bool) and tuple_like and -len(vals) <= sel < len(vals):
        return vals[sel]
    return _NOPROJ


def _selector(e: ast.AST):
    """(base expression, field name | constant index) for `base.field` / `base[3]`, else None"""
    if isinstance(e, ast.Attribute) and isinstance(e.ctx, ast.Load):
        return e.value, e.attr
    if isinstance(e, ast.Subscript) and isinstance(e.ctx, ast.Load) and isinstance(e.slice, ast.Constant) \
            and isinstance(e.slice.value, int) and not isinstance(e.slice.value, bool):
        return e.value, e.slice.value
    return None


def _fields_written(fi: FuncInfo, name: str) -> bool:
    """is an attribute / item of local `name` stored or deleted anywhere in fi (a mutable record could change)?"""
    for n in walk_no_nested(fi.node):
        if isinstance(n, (ast.Attribute, ast.Subscript)) and isinstance(n.ctx, (ast.Store, ast.Del)) \
                and isinstance(n.value, ast.Name) and n.value.id == name:
            return True
    return False


def _index_in(names, idx):
    """position of component `idx` (an index, or a field name looked up in names) or None"""
    if isinstance(idx, str):
        return names.index(idx) if names and idx in names else None
    return idx


# ------------------------------------------------------------------------------------------ facts through decisions
# A guard need not dominate the guarded site as a branch of its own.  After a decision / action split the test sits where
# a tag is computed (`msg_id = data[22] if <test> else None`, `if <test>: tag = ... else: tag = None`, or a helper that
# returns the tag / a verdict) and the site is only dominated by a test of the tag (`if msg_id is None: return`).  What
# holds at the site is then: for every way the tag can have obtained a value that passes the test of the tag, the facts
# under which it obtained that value.  The functions below compute exactly that (facts common to all surviving cases).
_ENUM_BASES = {"Enum", "IntEnum", "StrEnum", "Flag", "IntFlag", "enum.Enum", "enum.IntEnum", "enum.StrEnum", "enum.Flag",
               "enum.IntFlag"}


def _enum_member(ctx: Ctx, fi: FuncInfo, e) -> tuple | None:
    """(class identity, member name) when e is `Cls.MEMBER` of an Enum class of this repository whose members all have
    distinct literal values (no aliases): two such expressions denote the same object iff the names are equal"""
    if not (isinstance(e, ast.Attribute) and isinstance(e.value, ast.Name)) or e.value.id in _local_names(fi):
        return None
    r = ctx.repo.resolve_name(fi.module, e.value.id)
    if r is None:
        cands = ctx.repo.classes.get(e.value.id, [])
        r = cands[0] if len(cands) == 1 else None
    if not isinstance(r, ClassInfo) or len(r.node.bases) != 1 or (chain(r.node.bases[0]) or "") not in _ENUM_BASES:
        return None
    members = {}
    for st in r.node.body:
        if isinstance(st, ast.Assign) and len(st.targets) == 1 and isinstance(st.targets[0], ast.Name):
            members[st.targets[0].id] = st.value
        elif isinstance(st, (ast.Assign, ast.AnnAssign, ast.AugAssign)):
            return None
    if e.attr not in members:
        return None
    vals = []
    for v in members.values():
        if isinstance(v, ast.Call) and call_name(v) == "auto" and not v.args and not v.keywords:
            vals.append(("auto", len(vals)))
        elif isinstance(v, ast.Constant):
            vals.append(("const", type(v.value).__name__, v.value))
        else:
            return None
    if len(set(vals)) != len(vals) or (any(v[0] == "auto" for v in vals) and any(v[0] != "auto" for v in vals)):
        return None
    return id(r.node), e.attr


# ------------------------------------------------------------------------------------------ derived constants
# A size that is DERIVED instead of written as a literal is the number it evaluates to: struct.calcsize(<literal format>),
# struct.Struct(<literal format>).size, len(<constant bytes / str / tuple>), hashlib.<algorithm>().digest_size, arithmetic
# over those, module / class constants and once-assigned locals defined that way.  Only these documented pure functions
# of literals are evaluated (with the analyser's own struct module); nothing of the analysed code is run.
class _StructConst:
    def __init__(self, fmt) -> None:
        self.fmt = fmt


_DIGEST_SIZES = {"md5": 16, "sha1": 20, "sha224": 28, "sha256": 32, "sha384": 48, "sha512": 64,
                 "sha3_224": 28, "sha3_256": 32, "sha3_384": 48, "sha3_512": 64}


def _fold_const(ctx: Ctx, m, cls, fi: FuncInfo | None, e, depth: int = 8):
    """value of expression e of module m (class cls / function fi when inside one), NOCONST when it is not static"""
    import struct as _struct
    repo = ctx.repo
    if depth <= 0 or e is None:
        return NOCONST
    e = strip_cast(e)
    try:
        v = repo.resolve_const(m, e, cls)
    except Exception:  # noqa: BLE001
        v = NOCONST
    if v is not NOCONST:
        return v
    imports = _function_imports(fi) if fi is not None else m.imports
    local = _local_names(fi) if fi is not None else set()

    def rec(x):
        return _fold_const(ctx, m, cls, fi, x, depth - 1)

    def lib(f, module: str, name: str) -> bool:
        if isinstance(f, ast.Name) and f.id not in local:
            return imports.get(f.id) == (module, name)
        if isinstance(f, ast.Attribute) and isinstance(f.value, ast.Name) and f.value.id not in local:
            return f.attr == name and imports.get(f.value.id) == (module, None)
        return False

    def builtin(f, name: str) -> bool:
        return isinstance(f, ast.Name) and f.id == name and name not in local and name not in imports \
            and name not in m.classes and name not in m.functions and name not in m.constants

    if isinstance(e, ast.Name):
        if e.id in local:
            if fi is not None and e.id not in fi.params():
                d = single_def(fi, e.id)
                if d is not None and d[1] is None:
                    return rec(d[0])
            return NOCONST
        r = repo.resolve_name(m, e.id)
        if isinstance(r, tuple) and r[0] == "const":
            return _fold_const(ctx, r[1], None, None, r[2], depth - 1)
        return NOCONST
    if isinstance(e, ast.Attribute):
        if e.attr in ("size", "digest_size"):
            b = rec(e.value)
            if e.attr == "size" and isinstance(b, _StructConst):
                try:
                    return _struct.calcsize(b.fmt)
                except Exception:  # noqa: BLE001
                    return NOCONST
            bv = strip_cast(e.value)
            if e.attr == "digest_size" and isinstance(bv, ast.Call) and not bv.args and not bv.keywords:
                for algo, n in _DIGEST_SIZES.items():
                    if lib(bv.func, "hashlib", algo):
                        return n
        c = None
        if isinstance(e.value, ast.Name) and e.value.id in ("self", "cls") and cls is not None:
            c = cls
        elif isinstance(e.value, ast.Name) and e.value.id not in local:
            c = repo.resolve_class_expr(m, e.value)
        if c is not None:
            a = c.lookup_attr(e.attr)
            if a is not None:
                owner = next((k for k in c.mro() if e.attr in k.attrs), None)
                if owner is not None:
                    return _fold_const(ctx, owner.module, owner, None, a, depth - 1)
        return NOCONST
    if isinstance(e, ast.Call) and not e.keywords and not any(isinstance(a, ast.Starred) for a in e.args):
        if len(e.args) == 1 and lib(e.func, "struct", "calcsize"):
            fmt = rec(e.args[0])
            if isinstance(fmt, (str, bytes)):
                try:
                    return _struct.calcsize(fmt)
                except Exception:  # noqa: BLE001
                    return NOCONST
        if len(e.args) == 1 and lib(e.func, "struct", "Struct"):
            fmt = rec(e.args[0])
            return _StructConst(fmt) if isinstance(fmt, (str, bytes)) else NOCONST
        if len(e.args) == 1 and builtin(e.func, "len"):
            x = rec(e.args[0])
            return len(x) if isinstance(x, (bytes, str, tuple, list)) else NOCONST
        return NOCONST
    if isinstance(e, ast.UnaryOp) and isinstance(e.op, (ast.USub, ast.UAdd)):
        x = rec(e.operand)
        if isinstance(x, int) and not isinstance(x, bool):
            return -x if isinstance(e.op, ast.USub) else x
        return NOCONST
    if isinstance(e, ast.BinOp) and isinstance(e.op, (ast.Add, ast.Sub, ast.Mult, ast.FloorDiv)):
        a, b = rec(e.left), rec(e.right)
        ints = all(isinstance(x, int) and not isinstance(x, bool) for x in (a, b))
        try:
            if ints:
                return a + b if isinstance(e.op, ast.Add) else a - b if isinstance(e.op, ast.Sub) else \
                    a * b if isinstance(e.op, ast.Mult) else a // b
            if isinstance(e.op, ast.Add) and type(a) is type(b) and isinstance(a, (bytes, str, tuple)):
                return a + b
            if isinstance(e.op, ast.Mult) and isinstance(a, (bytes, str)) and isinstance(b, int) and not isinstance(b, bool) \
                    and 0 <= b <= 4096:
                return a * b
        except Exception:  # noqa: BLE001
            return NOCONST
        return NOCONST
    return NOCONST


def _const(ctx: Ctx, fi: FuncInfo, e):
    """static value of expression e of function fi (literals, module / class constants, derived sizes), else NOCONST"""
    return _fold_const(ctx, fi.module, fi.cls, fi, e)


def _fold_ints(ctx: Ctx, fi: FuncInfo, e):
    """copy of e (shared where unchanged) with every sub-expression that is a static integer replaced by its literal"""
    def fn(n):
        if isinstance(n, (ast.Name, ast.Call, ast.Attribute, ast.BinOp)) and isinstance(getattr(n, "ctx", ast.Load()), ast.Load):
            v = _const(ctx, fi, n)
            if isinstance(v, int) and not isinstance(v, bool):
                return ast.copy_location(ast.Constant(value=v), n)
        return n
    return e if e is None else _map_bottom_up(e, fn)


def _static_value(ctx: Ctx, fi: FuncInfo, e):
    """('const', python value) / ('display', number of items) / ('enum', member identity) for literals, displays, module
    constants and Enum members, else None"""
    e = strip_cast(e)
    if isinstance(e, ast.Constant):
        return "const", e.value
    if isinstance(e, (ast.Tuple, ast.List, ast.Set)):
        return None if any(isinstance(x, ast.Starred) for x in e.elts) else ("display", len(e.elts))
    if isinstance(e, ast.Dict):
        return None if any(k is None for k in e.keys) else ("display", len(e.keys))
    if isinstance(e, ast.Name) and e.id not in fi.params() and not local_defs(fi, e.id):
        v = ctx.repo.resolve_const(fi.module, e, fi.cls)
        if v is not NOCONST:
            return "const", v
    if isinstance(e, ast.Attribute):
        m = _enum_member(ctx, fi, e)
        if m is not None:
            return "enum", m
    return None


def _static_equal(a, b, identity: bool):
    """True / False when the two static values are known to be (un)equal - identical for `is` -, None when unknown"""
    (ka, va), (kb, vb) = a, b
    if ka == "enum" and kb == "enum":
        return va == vb
    if "enum" in (ka, kb):
        other = vb if ka == "enum" else va
        okind = kb if ka == "enum" else ka
        if okind == "display" or (okind == "const" and (other is None or isinstance(other, bool))):
            return False                      # an Enum member is not None / True / False / a display
        return False if identity and okind == "const" and not isinstance(other, (int, str)) else None
    if "display" in (ka, kb) and "const" in (ka, kb):
        c = vb if kb == "const" else va
        return False if (c is None or isinstance(c, (bool, int, float, str, bytes))) else None
    if ka == "const" and kb == "const":
        if identity:
            if vb is None or vb is True or vb is False or va is None or va is True or va is False:
                return va is vb
            return None
        try:
            return bool(va == vb)
        except Exception:  # noqa: BLE001
            return None
    return None


def _contradicts(ctx: Ctx, fi: FuncInfo, f: Fact, on_left: bool, value) -> bool:
    """can `value` (an expression, or None = unknown) definitely NOT be what the tested operand of fact f evaluated to?"""
    if value is None:
        return False
    sv = _static_value(ctx, fi, value)
    if sv is None:
        return False
    kind, v = sv
    if f.op == "truthy":
        if kind == "enum":
            return False
        truth = bool(v) if kind == "const" else v > 0
        return truth != f.pos
    other = f.right if on_left else f.left
    if f.op == "in" and on_left and isinstance(strip_cast(other), (ast.Tuple, ast.List, ast.Set)):
        # membership in a display of static values
        known = []
        for x in strip_cast(other).elts:
            xs = None if isinstance(x, ast.Starred) else _static_value(ctx, fi, x)
            known.append(None if xs is None else _static_equal(sv, xs, False))
        if any(k is True for k in known):
            return not f.pos
        if all(k is False for k in known):
            return f.pos
        return False
    ov = _static_value(ctx, fi, other) if other is not None else None
    if ov is None:
        return False
    if f.op in ("is", "eq"):
        same = _static_equal(sv, ov, f.op == "is")
        return False if same is None else same != f.pos
    return False


def _subst_names(e: ast.AST, mapping: dict[str, ast.AST]):
    """copy of e with every Name in mapping replaced by (a copy of) the mapped expression"""
    from ..model import clone
    if isinstance(e, ast.Name):
        return clone(mapping[e.id]) if e.id in mapping else e
    if not isinstance(e, ast.AST) or isinstance(e, _OWN_SCOPE) or not e._fields:
        return e
    new = type(e)()
    for f in e._fields:
        v = getattr(e, f, None)
        if isinstance(v, list):
            v = [_subst_names(x, mapping) if isinstance(x, ast.AST) else x for x in v]
        elif isinstance(v, ast.AST):
            v = _subst_names(v, mapping)
        setattr(new, f, v)
    return ast.copy_location(new, e)


def _free_names(e: ast.AST) -> set[str]:
    return {n.id for n in ast.walk(e) if isinstance(n, ast.Name)}


def _local_names(fi: FuncInfo) -> set[str]:
    cached = getattr(fi, "_c01_locals", None)
    if cached is None:
        cached = set(fi.params())
        for n in walk_no_nested(fi.node):
            if isinstance(n, ast.Name) and isinstance(n.ctx, (ast.Store, ast.Del)):
                cached.add(n.id)
            elif isinstance(n, ast.ExceptHandler) and n.name:
                cached.add(n.name)
        try:
            fi._c01_locals = cached      # type: ignore[attr-defined]
        except Exception:  # noqa: BLE001
            pass
    return cached


def _own_facts(cfg, node) -> list[tuple[ast.AST, bool]]:
    """(atom, polarity) that dominate a CFG node through real branches (no assert, no loop heads)"""
    out = []
    if not cfg.reachable(node):
        return out
    for a, p in cfg.facts_at(node):
        if isinstance(a, (ast.For, ast.AsyncFor, ast.While)) or _in_assert(a):
            continue
        out.append((a, p))
    return out


def _stable_after(ctx: Ctx, fi: FuncInfo, cfg, atom: ast.AST, since, tag: str | None) -> bool:
    """the locals read by `atom` cannot be re-assigned once CFG node `since` has been passed (attributes are taken to
    be stable, exactly as for a fact that dominates the site directly)"""
    later = None
    for name in _free_names(atom):
        if name == tag:
            return False
        if name not in _local_names(fi):
            continue
        defs = local_defs(fi, name)
        if not defs:
            continue                       # unmodified parameter
        if later is None:
            later = cfg.reach([v for v, lab in since.succ])
        for st, _, _ in defs:
            if any(n in later for n in cfg.nodes_for(st)):
                return False
    return True


def _return_cases(ctx: Ctx, fi: FuncInfo, call: ast.Call, depth: int) -> list | None:
    """
    Cases of the value of a call to helper(s) of this repository, in the CALLER's terms: [(value | None, [(atom, pol)])],
    one per `return` of every possible target (facts: what dominates that return in the helper, parameters replaced by
    the caller's arguments).  None when the call cannot be followed.
    """
    if depth <= 0:
        return None
    targets = _targets(ctx, fi, call)
    if not targets or len(targets) > 3:
        return None
    out = []
    for h in targets:
        if not isinstance(h, FuncInfo) or h.node is fi.node or h.is_async or isinstance(h.node, ast.Lambda):
            return None
        if h.name == "__init__" and not (isinstance(call.func, ast.Attribute) and call.func.attr == "__init__"):
            return None                       # a constructor call: its value is the new object, not what __init__ returns
        if any(isinstance(n, (ast.Yield, ast.YieldFrom)) for n in walk_no_nested(h.node)):
            return None
        if h.node.decorator_list and not all(chain(d) in ("staticmethod", "classmethod") for d in h.node.decorator_list):
            return None
        is_method = h.cls is not None and not any(chain(d) == "staticmethod" for d in h.node.decorator_list)
        recv = call.func.value if isinstance(call.func, ast.Attribute) else None
        bound = _bind_call(call, h, receiver=is_method)
        if bound is None:
            return None
        mapping = dict(bound)
        hp = h.params()
        if is_method and hp:
            if recv is None or (isinstance(recv, ast.Call) and chain(recv.func) == "super"):
                recv = ast.Name(id="self", ctx=ast.Load())
            mapping[hp[0]] = recv
        hcfg = ctx.cfg(h)
        hlocals = _local_names(h)

        def to_caller(e, h=h, mapping=mapping, hlocals=hlocals):
            """expression of the helper in the caller's terms, None when it reads helper state that has no caller name"""
            x = _expand(h, e)
            for name in _free_names(x):
                if name in hlocals:
                    if name not in mapping or not _is_param_unmodified(h, name):
                        return None
                elif name in _local_names(fi):
                    return None                  # a global of the helper that is spelled like a local of the caller
            return _subst_names(x, mapping)

        rets = [n for n in walk_no_nested(h.node) if isinstance(n, ast.Return)]
        ret_nodes = [n for r in rets for n in hcfg.nodes_for(r)]
        if hcfg.exit in hcfg.reach(cut_nodes=ret_nodes):
            out.append((ast.Constant(value=None), [], None))    # falls off the end: None, nothing known
        for r in rets:
            for rn in hcfg.nodes_for(r):
                if not hcfg.reachable(rn):
                    continue
                base = _own_facts(hcfg, rn)
                inner = [(ast.Constant(value=None), [], None)] if r.value is None \
                    else _value_cases(ctx, h, hcfg, rn, r.value, depth - 1)
                for v, fs, _o in inner:
                    facts = []
                    for a, p in base + fs:
                        t = to_caller(a)
                        if t is not None:
                            facts.append((t, p))
                    tv = None if v is None else (v if isinstance(v, ast.Constant) else to_caller(v))
                    out.append((tv, facts, None))
    return out


def _value_cases(ctx: Ctx, fi: FuncInfo, cfg, node, e: ast.AST, depth: int = 3) -> list:
    """
    [(value expression | None = unknown, [(atom, pol)], origin)]: every way `e`, evaluated on entry to CFG node `node`,
    can have obtained its value, with the facts that held where it obtained it (in addition to what dominates `node`);
    origin: the CFG node of this function at which the value expression was evaluated (None: at `node` itself).
    """
    e = strip_cast(e)
    if depth <= 0:
        return [(e, [], None)]
    if isinstance(e, ast.IfExp):
        from ..match import _atoms_with_polarity
        out = []
        for branch, pol in ((e.body, True), (e.orelse, False)):
            extra = [(f.atom, _atom_pol(f)) for f in _atoms_with_polarity(e.test, pol)]
            for v, fs, o in _value_cases(ctx, fi, cfg, node, branch, depth - 1):
                out.append((v, extra + fs, o))
        return out
    if isinstance(e, ast.Name) and e.id not in fi.params() and local_defs(fi, e.id):
        defs = {}
        for st, val, idx in local_defs(fi, e.id):
            ns = cfg.nodes_for(st)
            if not ns:
                return [(None, [], None)]
            for n in ns:
                defs[n] = (st, val, idx)
        out = []
        for dn in _reaching(defs, cfg.entry).get(node, set()):
            if dn is None:
                continue                         # unassigned on this path: the read raises
            st, val, idx = defs[dn]
            here = _own_facts(cfg, dn)
            if val is None or isinstance(st, ast.AugAssign):
                out.append((None, here, dn))
                continue
            for v, fs, o in _value_cases(ctx, fi, cfg, dn, val, depth - 1):
                if idx is not None:
                    # a target of tuple unpacking: that component of a display / tuple-like record
                    comp = _project(ctx, fi, v, idx) if v is not None else _NOPROJ
                    if comp is _NOPROJ and isinstance(v, ast.Call) and idx >= 0:
                        # unpacking the result of a call: the target holds <call>[idx]
                        comp = ast.copy_location(ast.Subscript(value=v, slice=ast.Constant(value=idx), ctx=ast.Load()), v)
                    v = None if comp is _NOPROJ else comp
                keep = [(a, p) for a, p in here + fs if _stable_after(ctx, fi, cfg, a, dn, e.id)]
                out.append((v, keep, o if o is not None else dn))
        return out
    if isinstance(e, ast.Call):
        cases = _return_cases(ctx, fi, e, depth)
        if cases is not None:
            return cases
    sel = _selector(e)
    if sel is not None:
        # `<base>.field` / `<base>[i]`: that component of every record / display the base can be
        base = strip_cast(sel[0])
        followable = isinstance(base, ast.Call) or (
            isinstance(base, ast.Name) and base.id not in fi.params() and local_defs(fi, base.id)
            and not _fields_written(fi, base.id))
        if followable:
            out = []
            for v, fs, o in _value_cases(ctx, fi, cfg, node, base, depth - 1):
                if v is None:
                    out.append((None, fs, o))
                    continue
                if isinstance(v, ast.Constant) and v.value is None:
                    continue                      # selecting from None raises: no value is obtained this way
                comp = _project(ctx, fi, v, sel[1])
                if comp is _NOPROJ:
                    return [(e, [], None)]
                out.append((comp, fs, o))
            return out
    return [(e, [], None)]


def _atom_pol(f: Fact) -> bool:
    """polarity of the ATOM (f.atom) that makes fact f hold: Fact folds `!=`, `not in`, `is not`, `>=`, ... into pos"""
    a = f.atom
    if isinstance(a, ast.Compare) and len(a.ops) == 1 and isinstance(a.ops[0], (ast.NotEq, ast.NotIn, ast.IsNot, ast.GtE, ast.LtE)):
        return not f.pos
    return f.pos


def _facts_key(fi: FuncInfo, a: ast.AST, p: bool):
    f = fact_of(a, p)
    return (f.op, _xnorm(fi, f.left), None if f.right is None else _xnorm(fi, f.right), f.pos)


def _common(fi: FuncInfo, cases: list) -> list[tuple[ast.AST, bool]]:
    """facts present in every case (compared after expansion of single-assignment locals)"""
    if not cases:
        return []
    keyed = [{_facts_key(fi, a, p): (a, p) for a, p in c[1]} for c in cases]
    out = []
    for k, ap in keyed[0].items():
        if all(k in other for other in keyed[1:]):
            out.append(ap)
    return out


def _derived(fact: Fact) -> Fact:
    fact.derived = True          # type: ignore[attr-defined]
    return fact


def _fact_in_assert(f: Fact) -> bool:
    return not getattr(f, "derived", False) and _in_assert(f.atom)


def _display_items(fi: FuncInfo, e) -> list[ast.AST] | None:
    """the items of a display written in place - (a, b) / [a, b] / {a, b}, also wrapped in tuple / list / set / frozenset
    (...) or enumerated by a comprehension / generator that passes each item through unchanged - else None"""
    e = strip_cast(e)
    for _ in range(3):
        if isinstance(e, ast.Call) and len(e.args) == 1 and not e.keywords and not isinstance(e.args[0], ast.Starred) \
                and _builtin_chain(fi, e.func) in ("tuple", "list", "set", "frozenset", "iter"):
            e = strip_cast(e.args[0])
        elif isinstance(e, (ast.GeneratorExp, ast.ListComp, ast.SetComp)) and len(e.generators) == 1 \
                and not e.generators[0].ifs and not e.generators[0].is_async and isinstance(e.elt, ast.Name) \
                and isinstance(e.generators[0].target, ast.Name) and e.elt.id == e.generators[0].target.id:
            e = strip_cast(e.generators[0].iter)
        else:
            break
    if isinstance(e, (ast.Tuple, ast.List, ast.Set)) and not any(isinstance(x, ast.Starred) for x in e.elts):
        return list(e.elts)
    return None


def _quantifier_facts(fi: FuncInfo, f: Fact) -> list[tuple[ast.AST, bool]]:
    """
    (atom, polarity) that follow from one fact by the meaning of the builtins:
      not any((a, b, ...))  =>  not a, not b, ...        all((a, b, ...))  =>  a, b, ...
      x in (a,) / [a] / {a} / frozenset((a,))  =>  x == a           x not in (a, b)  =>  x != a, x != b
    (the items of a display are all evaluated, there is no short-circuit to account for).
    """
    from ..match import _atoms_with_polarity
    out: list[tuple[ast.AST, bool]] = []
    if f.op == "truthy":
        c = strip_cast(f.left)
        if isinstance(c, ast.Call) and len(c.args) == 1 and not c.keywords and not isinstance(c.args[0], ast.Starred):
            which = _builtin_chain(fi, c.func)
            if (which == "any" and not f.pos) or (which == "all" and f.pos):
                items = _display_items(fi, c.args[0])
                for it in items or []:
                    out.extend((g.atom, _atom_pol(g)) for g in _atoms_with_polarity(it, f.pos))
    elif f.op == "in" and f.right is not None:
        items = _display_items(fi, f.right)
        if items and (len(items) == 1 or not f.pos):
            for it in items:
                cmp_ = ast.copy_location(ast.Compare(left=f.left, ops=[ast.Eq()], comparators=[it]), f.atom)
                out.append((cmp_, f.pos))
    return out


def _site_facts(ctx: Ctx, fi: FuncInfo, cfg, site: ast.AST, rounds: int = 2, assume=()) -> list[Fact]:
    """
    facts_at(site) - plus `assume`: (atom, polarity) pairs the caller of this function takes as given at the site (the
    atom is an expression evaluated by the site's own statement, e.g. one component of the tuple a `return` hands back
    when the question is "what holds whenever that component is true?") - plus the facts that follow from them through
    decisions:
      * a dominating test of a local tag / of a helper's result  ->  what is common to all ways the tested value can have
        been obtained that are compatible with the outcome of the test (a truthy / falsy outcome of a boolean expression
        also gives the atoms of that expression),
      * a helper call that must have completed normally before the site  ->  what dominates every return of the helper.
    Derived facts never rest on an `assert`.
    """
    from ..match import _atoms_with_polarity
    base = list(facts_at(cfg, site)) + [g for a, p in assume for g in _atoms_with_polarity(a, p)]
    nodes = [n for n in cfg.nodes_for(site) if cfg.reachable(n)]
    out = list(base)
    seen = {_facts_key(fi, f.atom, _atom_pol(f)) for f in base}

    def add(a, p) -> list[Fact]:
        k = _facts_key(fi, a, p)
        if k in seen:
            return []
        seen.add(k)
        f = _derived(fact_of(a, p))
        out.append(f)
        return [f]

    try:
        work = [f for f in base if not _fact_in_assert(f)]
        # an or-chain / and-chain spelled as any(<display>) / all(<display>), `x == a` spelled as membership in a
        # one-element collection: the facts of the chain it stands for
        for f in list(work):
            for a, p in _quantifier_facts(fi, f):
                work.extend(add(a, p))
        for rnd in range(rounds):
            new: list[Fact] = []
            for f in work:
                for operand, on_left in ((f.left, True), (f.right, False)):
                    if operand is None:
                        continue
                    operand = strip_cast(operand)
                    derived_here = getattr(f, "derived", False)
                    tagname = operand.id if isinstance(operand, ast.Name) else None
                    osel = _selector(operand)
                    if osel is not None and isinstance(strip_cast(osel[0]), ast.Name):
                        tagname = strip_cast(osel[0]).id          # a field of a local record: the record is the tag
                    if tagname is not None and tagname not in fi.params() and local_defs(fi, tagname):
                        if derived_here:
                            continue
                        cnodes = cfg.nodes_for(f.atom)
                        if len(cnodes) != 1:
                            continue
                        cnode = cnodes[0]
                        # the tag must not be re-assigned between its test and the site
                        dnodes = [n for st, _, _ in local_defs(fi, tagname) for n in cfg.nodes_for(st)]
                        after_test = cfg.reach([v for v, lab in cnode.succ])
                        if any(d in after_test and any(s in cfg.reach([d], cut_nodes=[cnode]) for s in nodes) for d in dnodes):
                            continue
                        cases = _value_cases(ctx, fi, cfg, cnode, operand)
                    elif isinstance(operand, (ast.Call, ast.IfExp)) and not derived_here:
                        cnodes = cfg.nodes_for(f.atom)
                        if len(cnodes) != 1:
                            continue
                        cnode = cnodes[0]
                        cases = _return_cases(ctx, fi, operand, 3) if isinstance(operand, ast.Call) \
                            else _value_cases(ctx, fi, cfg, cnode, operand)
                        if cases is None:
                            continue
                        cases = [(v, [(a, p) for a, p in fs if _stable_after(ctx, fi, cfg, a, cnode, None)], cnode)
                                 for v, fs, _o in cases]
                    else:
                        continue
                    alive = [c for c in cases if not _contradicts(ctx, fi, f, on_left, c[0])]
                    if f.op == "truthy":
                        # a truthy / falsy boolean expression: its atoms hold as well (where it was evaluated)
                        grown = []
                        for v, fs, o in alive:
                            if v is not None and isinstance(v, (ast.BoolOp, ast.Compare, ast.UnaryOp)):
                                tag = tagname
                                fs = fs + [(g.atom, _atom_pol(g)) for g in _atoms_with_polarity(v, f.pos)
                                           if _stable_after(ctx, fi, cfg, g.atom, o if o is not None else cnode, tag)]
                            grown.append((v, fs, o))
                        alive = grown
                    for a, p in _common(fi, alive):
                        new.extend(add(a, p))
            # helper calls whose normal completion dominates the site
            if rnd == 0:
                for c in calls(fi):
                    cn = cfg.nodes_for(c)
                    if not cn or not nodes or any(n in cn for n in nodes):
                        continue
                    if not isinstance(c.func, (ast.Name, ast.Attribute)) or _is_vs_call(c):
                        continue
                    if isinstance(c.func, ast.Attribute) and not (isinstance(c.func.value, ast.Name)
                                                                   and c.func.value.id in ("self", "cls")):
                        continue
                    if not all(cfg.must_complete(n, cn) for n in nodes):
                        continue
                    cases = _return_cases(ctx, fi, c, 2)
                    if not cases:
                        continue
                    st_nodes = cn[0]
                    for a, p in _common(fi, cases):
                        if _stable_after(ctx, fi, cfg, a, st_nodes, None):
                            new.extend(add(a, p))
            work = new
            if not work:
                break
    except (RecursionError, AnalysisError):
        pass                      # nothing further can be derived: the facts found so far stand
    return out


# ------------------------------------------------------------------------------------------ slices / sums
def _none_or_zero(e) -> bool:
    return e is None or (isinstance(e, ast.Constant) and e.value == 0 and not isinstance(e.value, bool))


def _is_length_call(e) -> bool:
    """len(x) / <crypto>.get_signature_length(key): a length, never negative"""
    return (isinstance(e, ast.Call) and not e.keywords and len(e.args) == 1 and not isinstance(e.args[0], ast.Starred)
            and call_name(e) in ("len", "get_signature_length"))


def _nonneg(e) -> bool:
    if isinstance(e, ast.Constant):
        return isinstance(e.value, int) and not isinstance(e.value, bool) and e.value >= 0
    if _is_length_call(e):
        return True
    if isinstance(e, ast.BinOp) and isinstance(e.op, (ast.Add, ast.Mult)):
        return _nonneg(e.left) and _nonneg(e.right)
    return False


def _neg_of_nonneg(e) -> bool:
    return isinstance(e, ast.UnaryOp) and isinstance(e.op, ast.USub) and _nonneg(e.operand)


def _simplify_slices(e):
    """
    Rebuilds `e` with slices of slices composed where that is an identity for every sequence X:
      X[:u][k:]  ==  X[k:u]   for every k >= 0 (any u: the inner slice keeps a prefix, the outer one drops k items of it)
      X[k:][:-n] ==  X[k:-n]  for every k >= 0, n >= 0 (keep all but the last n items of the suffix that starts at k)
    k / n are recognised as non-negative only when they are sums / products of non-negative literals and lengths.
    Never modifies its argument (shared sub-trees are rebuilt only when they change).
    """
    if not isinstance(e, ast.AST) or isinstance(e, _OWN_SCOPE) or not e._fields:
        return e
    changed = False
    vals = {}
    for f in e._fields:
        v = getattr(e, f, None)
        if isinstance(v, list):
            nv = [_simplify_slices(x) if isinstance(x, ast.AST) else x for x in v]
            changed = changed or any(a is not b for a, b in zip(nv, v))
        elif isinstance(v, ast.AST):
            nv = _simplify_slices(v)
            changed = changed or nv is not v
        else:
            nv = v
        vals[f] = nv
    if changed:
        new = type(e)()
        for f, v in vals.items():
            setattr(new, f, v)
        e = ast.copy_location(new, e)
    if isinstance(e, ast.Subscript) and isinstance(e.slice, ast.Slice) and isinstance(e.value, ast.Subscript) \
            and isinstance(e.value.slice, ast.Slice) and e.slice.step is None and e.value.slice.step is None:
        outer, inner, base = e.slice, e.value.slice, e.value.value
        composed = None
        if _none_or_zero(inner.lower) and outer.upper is None and outer.lower is not None and _nonneg(outer.lower):
            composed = ast.Slice(lower=outer.lower, upper=inner.upper, step=None)
        elif _none_or_zero(outer.lower) and inner.upper is None and outer.upper is not None and _neg_of_nonneg(outer.upper) \
                and (inner.lower is None or _nonneg(inner.lower)):
            composed = ast.Slice(lower=inner.lower, upper=outer.upper, step=None)
        if composed is not None:
            return ast.copy_location(ast.Subscript(value=base, slice=composed, ctx=ast.Load()), e)
    return e


def _sum_terms(e) -> tuple[int, list[str]]:
    """`2 + len(k)`, `len(k) + 2`, `1 + len(k) + 1` -> (2, ['len(k)']): integer literals folded, other terms as sorted texts"""
    if isinstance(e, ast.BinOp) and isinstance(e.op, ast.Add):
        c1, t1 = _sum_terms(e.left)
        c2, t2 = _sum_terms(e.right)
        return c1 + c2, sorted(t1 + t2)
    if isinstance(e, ast.Constant) and isinstance(e.value, int) and not isinstance(e.value, bool):
        return e.value, []
    return 0, [norm(e)]


_MODULE_BINDS: dict = {}


def _module_binds(fi: FuncInfo, name: str) -> bool:
    """is `name` bound at module level / as a local of fi (i.e. it may not be the builtin of that name)?"""
    if name in _local_names(fi):
        return True
    m = fi.module
    if name in m.classes or name in m.functions or name in m.constants or name in m.imports:
        return True
    key = (id(m.tree), name)
    if key not in _MODULE_BINDS:
        _MODULE_BINDS[key] = (m.tree, any(
            (isinstance(n, ast.Name) and n.id == name and isinstance(n.ctx, (ast.Store, ast.Del)))
            or (isinstance(n, (ast.Global, ast.Nonlocal)) and name in n.names)
            or (isinstance(n, ast.arg) and n.arg == name)
            or (isinstance(n, (ast.FunctionDef, ast.AsyncFunctionDef, ast.ClassDef)) and n.name == name)
            for n in ast.walk(m.tree)))       # the tree is kept alive with the entry: its id cannot be reused
        if len(_MODULE_BINDS) > 512:
            keep = _MODULE_BINDS[key]
            _MODULE_BINDS.clear()
            _MODULE_BINDS[key] = keep
    return _MODULE_BINDS[key][1]


def _map_bottom_up(e, fn):
    """copy of e (shared where unchanged) with fn applied to every rebuilt node, children first"""
    if not isinstance(e, ast.AST) or isinstance(e, _OWN_SCOPE) or not e._fields:
        return e
    changed = False
    vals = {}
    for f in e._fields:
        v = getattr(e, f, None)
        if isinstance(v, list):
            nv = [_map_bottom_up(x, fn) if isinstance(x, ast.AST) else x for x in v]
            changed = changed or any(a is not b for a, b in zip(nv, v))
        elif isinstance(v, ast.AST):
            nv = _map_bottom_up(v, fn)
            changed = changed or nv is not v
        else:
            nv = v
        vals[f] = nv
    if changed:
        new = type(e)()
        for f, v in vals.items():
            setattr(new, f, v)
        e = ast.copy_location(new, e)
    return fn(e)


def _slice_objects_to_syntax(fi: FuncInfo, e):
    """
    X[slice(a, b)] -> X[a:b], X[slice(b)] -> X[:b], X[slice(a, b, c)] -> X[a:b:c] (a `None` argument is an omitted bound):
    that is what subscription with a slice object means.  X.__getitem__(i) -> X[i] likewise.  Only the builtin `slice`.
    """
    if _module_binds(fi, "slice"):
        return e

    def none_to_missing(x):
        return None if isinstance(x, ast.Constant) and x.value is None else x

    def fn(n):
        if isinstance(n, ast.Call) and isinstance(n.func, ast.Attribute) and n.func.attr == "__getitem__" \
                and len(n.args) == 1 and not n.keywords and not isinstance(n.args[0], ast.Starred):
            n = fn(ast.copy_location(ast.Subscript(value=n.func.value, slice=n.args[0], ctx=ast.Load()), n))
        if isinstance(n, ast.Subscript) and isinstance(n.slice, ast.Call) and isinstance(n.slice.func, ast.Name) \
                and n.slice.func.id == "slice" and not n.slice.keywords and 1 <= len(n.slice.args) <= 3 \
                and not any(isinstance(a, ast.Starred) for a in n.slice.args):
            a = list(n.slice.args)
            lo, up, st = (None, a[0], None) if len(a) == 1 else (a[0], a[1], a[2] if len(a) == 3 else None)
            sl = ast.Slice(lower=none_to_missing(lo), upper=none_to_missing(up), step=none_to_missing(st))
            return ast.copy_location(ast.Subscript(value=n.value, slice=sl, ctx=n.ctx), n)
        return n

    return _map_bottom_up(e, fn)


def _desugar_functional(fi: FuncInfo, e):
    """
    Applications of the functools / operator function builders, written out (after expansion of single-assignment
    locals the builder call sits directly in callee position):
      partial(F, *A, **K)(*B, **L) -> F(*A, *B, **K, **L)      itemgetter(i)(x)  -> x[i]
      methodcaller("m", *A, **K)(x) -> x.m(*A, **K)            attrgetter("a.b")(x) -> x.a.b
    Each is the documented meaning of the builder; nothing else is rewritten.
    """
    def fn(n):
        if not (isinstance(n, ast.Call) and isinstance(n.func, ast.Call)):
            return n
        b = n.func
        if any(k.arg is None for k in list(b.keywords) + list(n.keywords)):
            return n
        if _imported_as(fi, b.func, "functools", ("partial",)) and b.args and not isinstance(b.args[0], ast.Starred):
            # positional arguments are concatenated in order, `*seq` items included
            if {k.arg for k in b.keywords} & {k.arg for k in n.keywords}:
                return n
            return ast.copy_location(ast.Call(func=b.args[0], args=list(b.args[1:]) + list(n.args),
                                              keywords=list(b.keywords) + list(n.keywords)), n)
        if any(isinstance(a, ast.Starred) for a in list(b.args) + list(n.args)):
            return n
        one = len(n.args) == 1 and not n.keywords
        if one and _imported_as(fi, b.func, "operator", ("itemgetter",)) and len(b.args) == 1 and not b.keywords:
            return ast.copy_location(ast.Subscript(value=n.args[0], slice=b.args[0], ctx=ast.Load()), n)
        if one and _imported_as(fi, b.func, "operator", ("attrgetter",)) and len(b.args) == 1 and not b.keywords \
                and isinstance(b.args[0], ast.Constant) and isinstance(b.args[0].value, str) \
                and all(x.isidentifier() for x in b.args[0].value.split(".")):
            out = n.args[0]
            for name in b.args[0].value.split("."):
                out = ast.copy_location(ast.Attribute(value=out, attr=name, ctx=ast.Load()), n)
            return out
        if one and _imported_as(fi, b.func, "operator", ("methodcaller",)) and b.args \
                and isinstance(b.args[0], ast.Constant) and isinstance(b.args[0].value, str) and b.args[0].value.isidentifier():
            callee = ast.copy_location(ast.Attribute(value=n.args[0], attr=b.args[0].value, ctx=ast.Load()), n)
            return ast.copy_location(ast.Call(func=callee, args=list(b.args[1:]), keywords=list(b.keywords)), n)
        return n

    return _map_bottom_up(e, fn)


def _strip_byte_views(fi: FuncInfo, e):
    """
    Byte CONTENT is what the slice rules compare, and these wrappers do not change it: memoryview(X) has the items of X
    (so memoryview(X)[a:b] has the items of X[a:b]); bytes(V) / V.tobytes() of a slice V of a bytes value / of such a view
    is that slice.  memoryview(X) -> X, bytes(<slice>) -> <slice>, <slice>.tobytes() -> <slice> (builtins only).
    """
    def fn(n):
        if isinstance(n, ast.Call) and not n.keywords and len(n.args) == 1 and not isinstance(n.args[0], ast.Starred) \
                and isinstance(n.func, ast.Name):
            a = n.args[0]
            if n.func.id == "memoryview" and not _module_binds(fi, "memoryview"):
                n2 = clone_shallow(a)
                n2._c01_view = True                      # type: ignore[attr-defined]
                return n2
            if n.func.id == "bytes" and not _module_binds(fi, "bytes") and (
                    getattr(a, "_c01_view", False) or (isinstance(a, ast.Subscript) and isinstance(a.slice, ast.Slice)
                                                        and getattr(a.value, "_c01_view", False))):
                return a
        if isinstance(n, ast.Call) and not n.keywords and not n.args and isinstance(n.func, ast.Attribute) \
                and n.func.attr == "tobytes":
            a = n.func.value
            if getattr(a, "_c01_view", False) or (isinstance(a, ast.Subscript) and getattr(a.value, "_c01_view", False)):
                return a
        if isinstance(n, ast.Subscript) and isinstance(n.slice, ast.Slice) and getattr(n.value, "_c01_view", False):
            n._c01_view = True                           # a slice of a view is a view  # type: ignore[attr-defined]
        return n

    def clone_shallow(a):
        new = type(a)()
        for f in a._fields:
            setattr(new, f, getattr(a, f, None))
        return ast.copy_location(new, a)

    if not any(isinstance(n, ast.Name) and n.id == "memoryview" for n in ast.walk(e)):
        return e
    return _map_bottom_up(e, fn)


def _xs(fi: FuncInfo, e: ast.AST | None):
    """fully expanded (single-assignment locals substituted) and slice-composed copy of e"""
    if e is None:
        return None
    return _simplify_slices(_strip_byte_views(fi, _slice_objects_to_syntax(fi, _desugar_functional(fi, _expand(fi, e)))))


# ------------------------------------------------------------------------------------------ calls: argument binding
def _bind_call(call: ast.Call, callee: FuncInfo, *, receiver: bool) -> dict[str, ast.AST] | None:
    """parameter name -> argument expression of `call` to `callee` (receiver: the first parameter is bound to the object
    the method is called on and is left out).  None when the binding cannot be followed (*args / **kwargs at the call)."""
    a = callee.node.args
    pos = [x.arg for x in a.posonlyargs + a.args]
    if receiver:
        pos = pos[1:]
    kwonly = [x.arg for x in a.kwonlyargs]
    if any(isinstance(x, ast.Starred) for x in call.args) or any(k.arg is None for k in call.keywords):
        return None
    if len(call.args) > len(pos) and a.vararg is None:
        return None
    out: dict[str, ast.AST] = {}
    for p, x in zip(pos, call.args):
        out[p] = x
    for k in call.keywords:
        if k.arg in out or (k.arg not in pos and k.arg not in kwonly and a.kwarg is None):
            return None
        out[k.arg] = k.value
    return out


def _bound_varargs(call: ast.Call, callee: FuncInfo, *, receiver: bool) -> list[ast.AST] | None:
    """the positional arguments of `call` that end up in the callee's `*args` (in order); None when the callee has no
    `*args` or the call spreads a sequence itself (then the split between named parameters and *args is unknown)"""
    a = callee.node.args
    if a.vararg is None or any(isinstance(x, ast.Starred) for x in call.args):
        return None
    pos = [x.arg for x in a.posonlyargs + a.args]
    if receiver:
        pos = pos[1:]
    return list(call.args[len(pos):])


# ------------------------------------------------------------------------------------------ calls: value of a helper call
# A block that was moved into a helper the normaliser cannot inline (a function of another module, a method of a mixin /
# base class, a function that is handed the object) still computes the same value: for a STRAIGHT-LINE helper (a
# sequence of once-only assignments to locals followed by one `return E`; no branch, loop, try, nested scope, decorator)
# the value of `h(a, b)` is E with h's once-assigned locals replaced by their defining expressions and h's parameters
# replaced by the arguments.  That is ordinary beta-reduction; it is applied to expressions only to COMPARE values
# (evaluation order / exceptions of the helper are the same as those of the code it replaces and are not judged here).
_TRUSTED_API = ("ipv8/keyvault/",)        # the signature primitives: recognised by name, never looked into


def _local_function_imports(fi: FuncInfo) -> dict:
    """imports made inside fi, relative ones resolved: local name -> (module, attribute | None)"""
    out = {}
    m = fi.module
    is_pkg = m.relpath.endswith("__init__.py")
    pkg = m.name.split(".") if is_pkg else m.name.split(".")[:-1]
    for n in walk_no_nested(fi.node):
        if isinstance(n, ast.ImportFrom):
            if n.level:
                base = pkg[: len(pkg) - (n.level - 1)]
                mod = ".".join(base + ([n.module] if n.module else []))
            else:
                mod = n.module or ""
            for a in n.names:
                out[a.asname or a.name] = (mod, a.name)
    return out


def _import_targets(ctx: Ctx, fi: FuncInfo, call: ast.Call) -> list | None:
    """the function called as `module.function(...)` / through an import made inside fi; None: not such a call"""
    f = call.func
    repo = ctx.repo
    if isinstance(f, ast.Name):
        if f.id in _local_names(fi):
            return None
        li = _local_function_imports(fi)
        if f.id in li:
            mod, attr = li[f.id]
            target = repo.modules.get(mod)
            r = repo.resolve_name(target, attr) if target is not None and attr else None
            return [r] if isinstance(r, FuncInfo) else []
        return None
    if isinstance(f, ast.Attribute) and isinstance(f.value, ast.Name) and f.value.id not in _local_names(fi):
        r = repo.resolve_name(fi.module, f.value.id)
        if r is None and f.value.id in _local_function_imports(fi):
            mod, attr = _local_function_imports(fi)[f.value.id]
            sub = repo.modules.get(mod + "." + attr) if attr else None
            r = ("module", sub) if sub is not None else None
        if isinstance(r, tuple) and r[0] == "module" and r[1] is not None:
            g = r[1].functions.get(f.attr)
            return [g] if isinstance(g, FuncInfo) else []
    return None


def _helper_targets(ctx: Ctx, fi: FuncInfo, call: ast.Call) -> list:
    """_targets (which follows `module.function(...)` and imports made inside fi), never a constructor"""
    f = call.func
    if isinstance(f, ast.Name) and f.id not in _local_names(fi) and f.id not in _local_function_imports(fi) \
            and isinstance(ctx.repo.resolve_name(fi.module, f.id), ClassInfo):
        return []                                  # a constructor call: the value is the new object
    return _targets(ctx, fi, call)


def _straight_line_return(h: FuncInfo) -> ast.AST | None:
    """the returned expression of a straight-line helper (see above), else None"""
    node = h.node
    if isinstance(node, ast.Lambda) or h.is_async:
        return None
    if node.decorator_list and not all(chain(d) in ("staticmethod", "classmethod") for d in node.decorator_list):
        return None
    body = [b for b in node.body if not (isinstance(b, ast.Expr) and isinstance(b.value, ast.Constant))]
    if not body or not isinstance(body[-1], ast.Return) or body[-1].value is None:
        return None
    params = set(h.params())
    seen = set()
    for st in body[:-1]:
        if isinstance(st, (ast.Import, ast.ImportFrom)):
            # names bound by an import inside the helper are opaque module-level objects, like the helper's globals
            bound = {(a.asname or a.name).split(".")[0] for a in st.names}
            if "*" in bound or bound & params or bound & seen or bound & {n.id for n in ast.walk(node) if isinstance(n, ast.Name)
                                                                       and isinstance(n.ctx, (ast.Store, ast.Del))}:
                return None
            continue
        if isinstance(st, ast.Assign) and len(st.targets) == 1 and isinstance(st.targets[0], ast.Name):
            name = st.targets[0].id
        elif isinstance(st, ast.AnnAssign) and isinstance(st.target, ast.Name) and st.value is not None:
            name = st.target.id
        else:
            return None
        if name in params or name in seen:
            return None
        seen.add(name)
    for n in ast.walk(node):
        if isinstance(n, (ast.Yield, ast.YieldFrom, ast.Await, ast.NamedExpr, ast.Global, ast.Nonlocal)) \
                or (isinstance(n, _OWN_SCOPE + (ast.FunctionDef, ast.AsyncFunctionDef, ast.ClassDef)) and n is not node):
            return None
    return body[-1].value


def _inline_calls(ctx: Ctx, fi: FuncInfo, e, depth: int = 4, _stack: tuple = ()):
    """
    copy of expression e (of fi; shared where unchanged) in which every call of a straight-line helper of this repository
    is replaced by its value in fi's terms, `<record construction>.<field>` / `[i]` by that component, and - inside what
    was brought in from a helper - module constants of the helper's module by their (integer) value.  Calls that cannot
    be followed stay as they are.
    """
    if depth <= 0:
        return e
    repo = ctx.repo

    def value_of_call(n: ast.Call):
        targets = _helper_targets(ctx, fi, n)
        if len(targets) != 1:
            return None
        h = targets[0]
        if not isinstance(h, FuncInfo) or h.node is fi.node or h in _stack or h.module.relpath.startswith(_TRUSTED_API):
            return None
        if h.name == "__init__":
            return None
        ret = _straight_line_return(h)
        if ret is None:
            return None
        decos = [chain(d) for d in h.node.decorator_list]
        is_method = h.cls is not None and "staticmethod" not in decos
        by_attr = isinstance(n.func, ast.Attribute)
        recv = None
        if is_method:
            if not by_attr:
                return None
            recv = n.func.value
            if isinstance(recv, ast.Call) and chain(recv.func) == "super":
                recv = ast.Name(id="self", ctx=ast.Load())
            if "classmethod" in decos or repo.resolve_class_expr(fi.module, recv) is not None:
                return None                     # Class.method(obj, ...) / classmethods: not followed
        bound = _bind_call(n, h, receiver=is_method)
        if bound is None:
            return None
        hp = h.params()
        mapping = dict(bound)
        if is_method:
            if not hp:
                return None
            mapping[hp[0]] = recv
        a = h.node.args
        named = [x.arg for x in a.posonlyargs + a.args + a.kwonlyargs]
        defaults = dict(zip([x.arg for x in (a.posonlyargs + a.args)][len(a.posonlyargs + a.args) - len(a.defaults):], a.defaults))
        defaults.update({x.arg: d for x, d in zip(a.kwonlyargs, a.kw_defaults) if d is not None})
        for pname in named:
            if pname not in mapping:
                d = defaults.get(pname)
                if not isinstance(d, ast.Constant):
                    return None
                mapping[pname] = d
        x = _expand(h, ret)
        # the helper's own helpers / records / constants, in the helper's module
        x = _inline_calls(ctx, h, x, depth - 1, _stack + (fi,))
        hlocals = _local_names(h)
        mine = _local_names(fi)

        def fold(m):
            if isinstance(m, (ast.Name, ast.Call, ast.Attribute, ast.BinOp)) and isinstance(getattr(m, "ctx", None) or ast.Load(), ast.Load) \
                    and not (isinstance(m, ast.Name) and m.id in hlocals):
                v = _fold_const(ctx, h.module, h.cls, h, m)
                if isinstance(v, int) and not isinstance(v, bool):
                    return ast.copy_location(ast.Constant(value=v), m)
            return m

        x = _map_bottom_up(x, fold)
        for name in _free_names(x):
            if name in hlocals:
                if name not in mapping or not _is_param_unmodified(h, name):
                    return None                  # helper state that has no name in the caller
            elif name in mine:
                return None                      # a global of the helper spelled like a local of the caller
        return _subst_names(x, mapping)

    def fn(n):
        if isinstance(n, ast.Call):
            v = value_of_call(n)
            if v is not None:
                return v
        sel = _selector(n)
        if sel is not None and isinstance(strip_cast(sel[0]), ast.Call):
            comp = _project(ctx, fi, strip_cast(sel[0]), sel[1])
            if comp is not _NOPROJ:
                return comp
        return n

    return _map_bottom_up(e, fn)


def _xs_calls(ctx: Ctx, fi: FuncInfo, e: ast.AST | None):
    """_xs, with the calls of straight-line helpers replaced by their values (see _inline_calls)"""
    v = _xs(fi, e)
    if v is None:
        return None
    w = _inline_calls(ctx, fi, v)
    if w is v:
        return v
    return _simplify_slices(_slice_objects_to_syntax(fi, _desugar_functional(fi, w)))


# ------------------------------------------------------------------------------------------ _verify_signature contract
class _VSContract:
    """
    What a caller of `_verify_signature` may rely on, read off the reviewed method itself rather than assumed:
    which parameter is the datagram, which one carries the key (the auth payload or its public_key_bin), and where in
    the returned value the verdict and the signed remainder are (`completion`: the method returns only when the
    signature is valid, the verdict is its normal completion).
    """

    def __init__(self, fi, data_param, key_param, key_kind, verdict_idx, remainder_idx, derived, fields=None) -> None:
        self.fi, self.data_param, self.key_param, self.key_kind = fi, data_param, key_param, key_kind
        self.verdict_idx, self.remainder_idx, self.derived = verdict_idx, remainder_idx, derived
        self.fields = fields          # names of the components when the result is a record (NamedTuple, dataclass, ...)
        self.verdict_enc = None       # (constants that mean valid, constants that mean invalid) when the verdict is re-coded

    def position(self, idx):
        """position in the result of the component a caller reads as `[idx]` / `.idx`"""
        return _index_in(self.fields, idx)

    def roles(self):
        pos = self.fi.params()
        return (pos.index(self.data_param) if self.data_param in pos else None,
                pos.index(self.key_param) if self.key_param in pos else None,
                self.data_param, self.key_param, self.key_kind, self.verdict_idx, self.remainder_idx)


_COMPLETION = "completion"


def _kw_or_pos(call: ast.Call, index: int, name: str):
    return arg(call, index, name)


def _vs_shape(ctx: Ctx, fi: FuncInfo, r: ast.Return) -> dict:
    """One return of a `_verify_signature` definition: where the verdict / remainder are and whether they are the right ones."""
    v = _xs_calls(ctx, fi, r.value) if r.value is not None else None
    fields = None
    rec = _record_of(ctx, fi, v) if isinstance(v, ast.Call) else None
    if rec is not None:
        # a result object: the same pair, its components also have names
        v = ast.copy_location(ast.Tuple(elts=list(rec.values), ctx=ast.Load()), v)
        fields = tuple(rec.names)
    out = {"value": v, "verdict_idx": None, "remainder_idx": None, "vcall": None, "remainder": None,
           "data_param": None, "key_param": None, "key_kind": None, "fields": fields, "verdict_enc": None}

    def is_vcall(e) -> bool:
        return isinstance(e, ast.Call) and call_name(e) == "is_valid_signature"

    def encoded(comp):
        """
        (the is_valid_signature call, static values handed back when it was true, ... when it was false) when the
        component re-codes the outcome of ONE is_valid_signature call as constants (`GOOD if ok(...) else BAD`, a local
        set to Enum members / booleans on the two branches of `if ok(...)`): every way the component can get its value
        is a static constant obtained under a known outcome of that call, and no constant stands for both outcomes
        """
        cfg = ctx.cfg(fi)
        nodes = [n for n in cfg.nodes_for(r) if cfg.reachable(n)]
        if len(nodes) != 1:
            return None
        try:
            cases = _value_cases(ctx, fi, cfg, nodes[0], comp)
        except (RecursionError, AnalysisError):
            return None
        vc, pos, neg = None, [], []
        for val, fs, _o in cases:
            sv = _static_value(ctx, fi, val) if val is not None else None
            if sv is None or sv[0] == "display":
                return None
            pol = None
            for a, p in fs:
                x = _xs(fi, a)
                if is_vcall(x) and not _in_assert(a):
                    if vc is not None and norm(vc) != norm(x):
                        return None
                    vc, pol = x, p
            if pol is None:
                return None
            (pos if pol else neg).append(sv)
        if vc is None or not pos or not neg or any(_static_equal(a, b, False) is not False for a in pos for b in neg):
            return None
        return vc, tuple(pos), tuple(neg)

    if isinstance(v, ast.Tuple) and len(v.elts) == 2 and sum(1 for e in v.elts if is_vcall(e)) == 1:
        vi = 0 if is_vcall(v.elts[0]) else 1
        out.update(verdict_idx=vi, remainder_idx=1 - vi, vcall=v.elts[vi], remainder=v.elts[1 - vi])
    elif isinstance(v, ast.Tuple) and len(v.elts) == 2 and not any(is_vcall(e) for e in v.elts):
        encs = [(i, encoded(e)) for i, e in enumerate(v.elts)]
        encs = [(i, e) for i, e in encs if e is not None]
        if len(encs) == 1:
            vi, (vc_, pos_, neg_) = encs[0]
            out.update(verdict_idx=vi, remainder_idx=1 - vi, vcall=vc_, remainder=v.elts[1 - vi], verdict_enc=(pos_, neg_))
    elif v is not None and not isinstance(v, ast.Tuple) and not is_vcall(v):
        # `if not is_valid_signature(...): raise ...` ... `return remainder`: the verdict is the normal completion
        for f in facts_at(ctx.cfg(fi), r):
            if f.op == "truthy" and f.pos and not _in_assert(f.atom):
                e = _xs(fi, f.left)
                if is_vcall(e):
                    out.update(verdict_idx=_COMPLETION, remainder_idx=None, vcall=e, remainder=v)
    vc = out["vcall"]
    if vc is None:
        return out
    k, d = _kw_or_pos(vc, 0, "ec_key"), _kw_or_pos(vc, 1, "data")
    if isinstance(d, ast.Subscript) and isinstance(d.value, ast.Name) and _is_param_unmodified(fi, d.value.id):
        out["data_param"] = d.value.id
    if isinstance(k, ast.Call) and call_name(k) == "key_from_public_bin" and len(k.args) == 1 and not k.keywords:
        kb = k.args[0]
        if isinstance(kb, ast.Attribute) and kb.attr == "public_key_bin" and isinstance(kb.value, ast.Name) \
                and _is_param_unmodified(fi, kb.value.id):
            out.update(key_param=kb.value.id, key_kind="auth")
        elif isinstance(kb, ast.Name) and _is_param_unmodified(fi, kb.id):
            out.update(key_param=kb.id, key_kind="keybin")
    return out


def _function_returns(fi: FuncInfo) -> list:
    return [n for n in walk_no_nested(fi.node) if isinstance(n, ast.Return)]


def _vs_delegate(ctx: Ctx, fi: FuncInfo, rets: list):
    """
    (helper, parameter of the helper -> argument in fi's terms) when this definition of _verify_signature is a thin
    delegation - its whole body is `return helper(<own parameters / attributes of them>)` - to ONE function of this
    repository whose value the expression-level analysis could not write out (the helper has branches): the helper is
    then the definition to examine, its parameters standing for what fi hands it.  None otherwise.
    """
    body = [b for b in fi.node.body if not (isinstance(b, ast.Expr) and isinstance(b.value, ast.Constant))]
    if len(rets) != 1 or body != [rets[0]] or rets[0].value is None:
        return None
    call = strip_cast(rets[0].value)
    if not isinstance(call, ast.Call) or call_name(call) == "is_valid_signature":
        return None
    still = _xs_calls(ctx, fi, call)
    if not isinstance(still, ast.Call) or _record_of(ctx, fi, still) is not None:
        return None                              # written out: judged as an expression of fi
    targets = _helper_targets(ctx, fi, call)
    if len(targets) != 1 or not isinstance(targets[0], FuncInfo):
        return None
    h = targets[0]
    if h.node is fi.node or isinstance(h.node, ast.Lambda) or h.is_async or h.module.relpath.startswith(_TRUSTED_API) \
            or h.name == "_verify_signature":
        return None
    decos = [chain(d) for d in h.node.decorator_list]
    if any(d not in ("staticmethod",) for d in decos):
        return None
    is_method = h.cls is not None and "staticmethod" not in decos
    if is_method and not (isinstance(call.func, ast.Attribute) and isinstance(call.func.value, ast.Name)
                          and call.func.value.id == "self"):
        return None
    bound = _bind_call(call, h, receiver=is_method)
    if bound is None:
        return None
    for a in bound.values():
        a = strip_cast(a)
        base = a.value if isinstance(a, ast.Attribute) else a
        if not (isinstance(base, ast.Name) and _is_param_unmodified(fi, base.id)):
            return None
    return h, bound


def _translate_shape(fi: FuncInfo, sh: dict, mapping: dict) -> dict:
    """a shape of the delegate's return with the roles of ITS parameters expressed as roles of fi's parameters"""
    out = dict(sh)
    dp, kp, kk = sh["data_param"], sh["key_param"], sh["key_kind"]
    out["data_param"] = out["key_param"] = out["key_kind"] = None
    d = strip_cast(mapping[dp]) if dp in mapping else None
    if isinstance(d, ast.Name) and _is_param_unmodified(fi, d.id):
        out["data_param"] = d.id
    k = strip_cast(mapping[kp]) if kp in mapping else None
    if isinstance(k, ast.Name) and _is_param_unmodified(fi, k.id):
        out.update(key_param=k.id, key_kind=kk)
    elif kk == "keybin" and isinstance(k, ast.Attribute) and k.attr == "public_key_bin" and isinstance(k.value, ast.Name) \
            and _is_param_unmodified(fi, k.value.id):
        out.update(key_param=k.value.id, key_kind="auth")
    return out


def _mark_rejecting(shapes: list) -> None:
    """
    A return whose verdict component is the literal False / None / 0 hands the callers `invalid`: no handler runs for
    it, whatever else it carries, so it promises nothing about signed bytes or remainder.  Recognised only where the
    other returns fix the place of a plain boolean verdict.
    """
    known = {(s["verdict_idx"], s["fields"]) for s in shapes if s["vcall"] is not None}
    if len(known) != 1:
        return
    (vi, _fields), = known
    if not isinstance(vi, int) or any(s["verdict_enc"] is not None for s in shapes):
        return
    for s in shapes:
        v = s["value"]
        if s["vcall"] is None and isinstance(v, ast.Tuple) and len(v.elts) == 2:
            x = strip_cast(v.elts[vi])
            if isinstance(x, ast.Constant) and x.value in (False, None, 0) and not isinstance(x.value, (bytes, str, float)):
                s["rejecting"] = True


def _vs_shapes(ctx: Ctx, fi: FuncInfo, rets: list, depth: int = 0) -> list[dict]:
    """shapes of the returns of a definition of _verify_signature, followed through a thin delegation"""
    dele = _vs_delegate(ctx, fi, rets) if depth < 2 else None
    if dele is not None:
        h, mapping = dele
        return [_translate_shape(fi, sh, mapping) for sh in _vs_shapes(ctx, h, _function_returns(h), depth + 1)]
    shapes = [_vs_shape(ctx, fi, r) for r in rets]
    _mark_rejecting(shapes)
    return shapes


def _vs_base(ctx: Ctx) -> FuncInfo:
    return ctx.repo.method("EZPackOverlay", "_verify_signature", LC)


def _vs_contract(ctx: Ctx) -> _VSContract:
    cached = getattr(ctx, "_c01_vs", None)
    if cached is not None:
        return cached
    fi = _vs_base(ctx)
    params = fi.params()
    if len(params) < 3:
        raise AnalysisError("anchor-lost: EZPackOverlay._verify_signature takes the datagram and the key container")
    rets = [n for n in walk_no_nested(fi.node) if isinstance(n, ast.Return)]
    shapes = [s for s in _vs_shapes(ctx, fi, rets) if not s.get("rejecting")]
    keys = {(s["data_param"], s["key_param"], s["key_kind"], s["verdict_idx"], s["remainder_idx"], s["fields"],
             s["verdict_enc"]) for s in shapes}
    vs = None
    if len(keys) == 1:
        dp, kp, kk, vi, ri, fields, enc = next(iter(keys))
        if dp is not None and kp is not None and vi is not None and dp != kp:
            vs = _VSContract(fi, dp, kp, kk, vi, ri, True, fields)
            vs.verdict_enc = enc
    if vs is None:
        # not recognisable (reported by whole-prefix): callers are judged against the reviewed layout
        # _verify_signature(self, auth, data) -> (verdict, remainder)
        vs = _VSContract(fi, params[2], params[1], "auth", 0, 1, False)
    ctx._c01_vs = vs        # type: ignore[attr-defined]
    return vs


def _is_self_vs(f) -> bool:
    return isinstance(f, ast.Attribute) and f.attr == "_verify_signature" and isinstance(f.value, ast.Name) \
        and f.value.id == "self"


def _is_vs_call(e) -> bool:
    if not isinstance(e, ast.Call):
        return False
    if _is_self_vs(e.func):
        return True
    if isinstance(e.func, ast.Name):
        # the bound method read early into a local: `verify = self._verify_signature` ... `verify(auth, data)`
        fn = enclosing_function(e)
        fi = getattr(fn, "_info", None) if fn is not None else None
        if isinstance(fi, FuncInfo) and any(n is e for n in walk_no_nested(fn)):
            return _is_self_vs(_early_bound_callee(fi, e))
    return False


def _verify_call_link(ctx: Ctx, fi: FuncInfo, name_expr: ast.AST, rule: str, site: ast.AST) -> tuple[ast.Call | None, int | None]:
    """`name_expr` must be component idx of a single self._verify_signature(...) call (through local aliases)."""
    val, idx = _tuple_component(fi, name_expr)
    if _is_vs_call(val):
        return val, idx
    return None, None


def _check_auth_unpack(ctx: Ctx, fi: FuncInfo, auth_expr: ast.AST, data_name: str, site: ast.AST, rule: str) -> bool:
    """auth must come from unpack_serializable(BinMemberAuthenticationPayload, <data param>, offset=23)[0]."""
    val, idx = _tuple_component(fi, auth_expr)
    return _is_auth_unpack(ctx, fi, val, idx, data_name, 2)


def _resolve_in_function(ctx: Ctx, fi: FuncInfo, name: str):
    """what global `name` denotes inside fi: an import made inside the function wins over the module's bindings"""
    if name in _local_names(fi):
        return None
    li = _local_function_imports(fi)
    if name in li:
        mod, attr = li[name]
        target = ctx.repo.modules.get(mod)
        return ctx.repo.resolve_name(target, attr) if target is not None and attr else None
    return ctx.repo.resolve_name(fi.module, name)


def _is_auth_unpack(ctx: Ctx, fi: FuncInfo, val, idx, data_name: str, depth: int) -> bool:
    """is component idx of the value of call `val` the authentication header decoded from the datagram parameter at
    offset 23?  (directly, spelled through functools.partial, or by a helper all of whose returns are such a decode)"""
    if not isinstance(val, ast.Call):
        return False
    call = _desugar_functional(fi, _expand(fi, val))
    if isinstance(call, ast.Call) and chain(call.func) == "self.serializer.unpack_serializable":
        if idx != 0:
            return False
        a0, a1, off = arg(call, 0, "serializable"), arg(call, 1, "data"), arg(call, 2, "offset")
        ok = (a0 is not None and chain(a0) == "BinMemberAuthenticationPayload"
              and isinstance(a1, ast.Name) and a1.id == data_name and _is_param_unmodified(fi, data_name)
              and off is not None and _const(ctx, fi, off) == 23)
        if ok:
            r = _resolve_in_function(ctx, fi, "BinMemberAuthenticationPayload")
            ok = isinstance(r, ClassInfo) and r.module.relpath == "ipv8/messaging/payload_headers.py"
        return ok
    if depth <= 0:
        return False
    # a helper that decodes the header: every value it can return, in this function's terms
    try:
        cases = _return_cases(ctx, fi, val, 2)
    except (RecursionError, AnalysisError):
        cases = None
    if not cases:
        return False
    for v, _fs, _o in cases:
        if v is None:
            return False
        if idx is not None:
            v = _project(ctx, fi, v, idx)
            if v is _NOPROJ:
                return False
        v = strip_cast(v)
        sel = _selector(v)
        if sel is None or not isinstance(strip_cast(sel[0]), ast.Call) \
                or not _is_auth_unpack(ctx, fi, strip_cast(sel[0]), sel[1], data_name, depth - 1):
            return False
    return True


_ASSERT_REASON = ("the only signature check on the way to the handler is an `assert` statement: it is compiled away under "
                  "python -O / PYTHONOPTIMIZE, after which the handler runs for forged and tampered datagrams")


def _known_true_operand(f: Fact) -> ast.AST | None:
    """the expression that fact f says is true: `x` (truthy), `x is True`, `x == True` (either side)"""
    if f.op == "truthy":
        return f.left if f.pos else None
    if f.op in ("is", "eq") and f.pos and f.right is not None:
        for a, b in ((f.left, f.right), (f.right, f.left)):
            if isinstance(b, ast.Constant) and b.value is True:
                return a
    return None


def _known_valid_operand(ctx: Ctx, fi: FuncInfo, f: Fact, enc) -> ast.AST | None:
    """the expression that fact f says holds one of the constants that mean `signature valid` (enc: see _vs_shape):
    `x is/== GOOD`, `x is not BAD` when BAD is the only constant for invalid, plain truthiness when the constants for
    valid are all true and those for invalid all false"""
    pos, neg = enc
    if f.op == "truthy":
        def truth(sv):
            return None if sv[0] != "const" else bool(sv[1])
        if f.pos and all(truth(p) is True for p in pos) and all(truth(n) is False for n in neg):
            return f.left
        return None
    if f.op in ("is", "eq") and f.right is not None:
        for a, b in ((f.left, f.right), (f.right, f.left)):
            sb = _static_value(ctx, fi, b)
            if sb is None:
                continue
            if f.pos and any(_static_equal(sb, p, False) is True for p in pos) \
                    and all(_static_equal(sb, n, False) is False for n in neg):
                return a
            if not f.pos and all(_static_equal(sb, n, f.op == "is") is True for n in neg):
                return a
    return None


def _dominating_verification(ctx: Ctx, fi: FuncInfo, facts, site: ast.AST) -> tuple[ast.Call | None, bool]:
    """(the _verify_signature call whose verdict is known to be positive at the site through a real branch - or, when
    _verify_signature itself returns only for valid signatures, through its normal completion -,
    True when such a fact exists only through an assert statement)."""
    vs = _vs_contract(ctx)
    vcall, asserted = None, False
    if vs.verdict_idx == _COMPLETION:
        cfg = ctx.cfg(fi)
        for c in calls(fi):
            if _is_vs_call(c):
                through = cfg.nodes_for(c)
                nodes = cfg.nodes_for(site)
                if through and nodes and all(cfg.must_complete(n, through) for n in nodes if cfg.reachable(n)):
                    vcall = c
        return vcall, False
    for f in facts:
        known_true = _known_true_operand(f) if vs.verdict_enc is None else _known_valid_operand(ctx, fi, f, vs.verdict_enc)
        if known_true is not None:
            vc, idx = _verify_call_link(ctx, fi, known_true, "verify-before-call", site)
            if vc is not None and vs.position(idx) == vs.verdict_idx:
                if _fact_in_assert(f):
                    asserted = True
                else:
                    vcall = vc
    return vcall, asserted and vcall is None


def _vs_call_args(ctx: Ctx, fi: FuncInfo, vcall: ast.Call) -> tuple[ast.AST | None, ast.AST | None]:
    """(datagram argument, expression of the auth payload whose key is used) of a self._verify_signature(...) call"""
    vs = _vs_contract(ctx)
    bound = _bind_call(vcall, vs.fi, receiver=True)
    if bound is None:
        return None, None
    a_data, a_key = bound.get(vs.data_param), bound.get(vs.key_param)
    if a_key is None or vs.key_kind == "auth":
        return a_data, a_key
    kb = resolve(fi, a_key)
    if isinstance(kb, ast.Attribute) and kb.attr == "public_key_bin":
        return a_data, kb.value
    return a_data, None


def _self_class(ctx: Ctx, fi: FuncInfo) -> ClassInfo | None:
    """class of `self` in fi: the enclosing class, or - for the wrappers of this module's decorators, which are plain
    functions - the class their first parameter is annotated with (a TypeVar stands for its bound); the decorators of
    lazy_community.py are written for EZPackOverlay instances"""
    if fi.cls is not None:
        return fi.cls
    a = fi.node.args
    pos = a.posonlyargs + a.args
    if not pos:
        return None
    ann = pos[0].annotation
    if isinstance(ann, ast.Constant) and isinstance(ann.value, str):
        try:
            ann = ast.parse(ann.value, mode="eval").body
        except SyntaxError:
            ann = None
    if isinstance(ann, ast.Name):
        r = ctx.repo.resolve_name(fi.module, ann.id)
        if isinstance(r, ClassInfo):
            return r
        if isinstance(r, tuple) and r[0] == "const" and isinstance(r[2], ast.Call) and call_name(r[2]) == "TypeVar":
            for k in r[2].keywords:
                if k.arg == "bound":
                    c = ctx.repo.resolve_class_expr(r[1], k.value)
                    if c is not None:
                        return c
    if fi.module.relpath == LC and pos[0].arg == "self":
        return ctx.repo.try_cls("EZPackOverlay", LC)
    # a plain function that was followed from a caller which handed it its own overlay (see _object_function)
    return getattr(fi, "_c01_self_cls", None)


def _is_function(t, f: FuncInfo) -> bool:
    """is call target t function f (or the copy of f with its object parameter spelled `self`, see _object_function)?"""
    return isinstance(t, FuncInfo) and (t.node is f.node or getattr(t, "_c01_origin", None) is f.node)


def _object_function(ctx: Ctx, fi: FuncInfo, call: ast.Call, h: FuncInfo) -> FuncInfo:
    """
    A method turned into a module-level function that takes the object: `h(self, ...)` called with the caller's own overlay
    as first argument.  Inside h the first parameter then IS that overlay; when it has another name (`overlay`,
    `community`) the rules - which recognise `self.<...>` chains - are given an alpha-renamed copy of h whose first
    parameter is spelled `self` (renaming a parameter that is never re-bound, in a function that uses no other `self`,
    changes nothing).  The class of that parameter is the class of the caller's overlay.
    """
    if h.cls is not None or isinstance(h.node, ast.Lambda) or not isinstance(call.func, (ast.Name, ast.Attribute)):
        return h
    a = h.node.args
    pos = a.posonlyargs + a.args
    if not pos or not call.args or isinstance(call.args[0], ast.Starred):
        return h
    first = strip_cast(call.args[0])
    if not (isinstance(first, ast.Name) and first.id == "self" and fi.params() and fi.params()[0] == "self"
            and not local_defs(fi, "self")):
        return h
    owner = _self_class(ctx, fi)
    if owner is None:
        return h
    me = pos[0].arg
    if me == "self":
        if getattr(h, "_c01_self_cls", None) is None and pos[0].annotation is None:
            try:
                h._c01_self_cls = owner           # type: ignore[attr-defined]
            except Exception:  # noqa: BLE001
                pass
        return h
    cache = getattr(ctx, "_c01_object_functions", None)
    if cache is None:
        cache = ctx._c01_object_functions = {}       # type: ignore[attr-defined]
    key = id(h.node)
    if key in cache:
        return cache[key][1]
    out = h
    nested = [n for n in ast.walk(h.node) if isinstance(n, (ast.FunctionDef, ast.AsyncFunctionDef, ast.ClassDef)) and n is not h.node]
    rebinds = any((isinstance(n, ast.Name) and n.id == me and isinstance(n.ctx, (ast.Store, ast.Del)))
                  or (isinstance(n, ast.arg) and n.arg == me and n is not pos[0])
                  or (isinstance(n, (ast.Global, ast.Nonlocal)) and me in n.names)
                  or (isinstance(n, ast.ExceptHandler) and n.name == me)
                  or (isinstance(n, ast.alias) and (n.asname or n.name).split(".")[0] == me)
                  for n in ast.walk(h.node))
    uses_self = any((isinstance(n, ast.Name) and n.id == "self") or (isinstance(n, ast.arg) and n.arg == "self")
                    for n in ast.walk(h.node))
    if not nested and not rebinds and not uses_self and "self" not in h.module.constants and "self" not in h.module.imports:
        from ..model import clone, set_parents
        node = clone(h.node)
        for n in ast.walk(node):
            if isinstance(n, ast.Name) and n.id == me:
                n.id = "self"
            elif isinstance(n, ast.arg) and n.arg == me:
                n.arg = "self"
        set_parents(node)
        node._parent = parent(h.node)            # type: ignore[attr-defined]
        out = FuncInfo(h.name, h.qualname, node, h.module, None)
        out._c01_origin = h.node                  # type: ignore[attr-defined]
        node._info = out                          # type: ignore[attr-defined]
        if (node.args.posonlyargs + node.args.args)[0].annotation is None:
            out._c01_self_cls = owner             # type: ignore[attr-defined]
    cache[key] = (h.node, out)
    return out


def _targets(ctx: Ctx, fi: FuncInfo, call: ast.Call) -> list[FuncInfo]:
    """repo.resolve_call, plus `self.<method>(...)` inside a plain function whose `self` is an overlay instance, plus
    functions that are handed the caller's overlay (see _object_function)"""
    out = _targets0(ctx, fi, call)
    if not out:
        out = _import_targets(ctx, fi, call) or []
    if out and isinstance(call.func, (ast.Name, ast.Attribute)) and call.args and all(isinstance(t, FuncInfo) and t.cls is None for t in out):
        out = [_object_function(ctx, fi, call, t) for t in out]
    return out


def _targets0(ctx: Ctx, fi: FuncInfo, call: ast.Call) -> list[FuncInfo]:
    f = call.func
    if fi.cls is None and isinstance(f, ast.Attribute) and isinstance(f.value, ast.Name) and fi.params() \
            and f.value.id == fi.params()[0] and not local_defs(fi, f.value.id):
        c = _self_class(ctx, fi)
        if c is not None:
            return ctx.repo.dispatch(c, f.attr)
    if fi.cls is None and isinstance(f, ast.Attribute) and isinstance(f.value, ast.Attribute) \
            and isinstance(f.value.value, ast.Name) and fi.params() and f.value.value.id == fi.params()[0] \
            and not local_defs(fi, f.value.value.id):
        # self.<attr>.<method>(...) in such a function: the attribute's class as the overlay declares / constructs it
        c = _self_class(ctx, fi)
        t = ctx.repo.attr_type(c, f.value.attr) if c is not None else None
        if t is not None:
            return ctx.repo.dispatch(t, f.attr)
        # the attribute's class is not declared (`self.network = settings.network`): every method of that name in the
        # repository (dispatch over-approximated; callers require their condition of ALL targets)
        index = getattr(ctx, "_c01_methods_by_name", None)
        if index is None:
            index = {}
            for g in ctx.repo.all_functions():
                if g.cls is not None:
                    index.setdefault(g.name, []).append(g)
            ctx._c01_methods_by_name = index          # type: ignore[attr-defined]
        cands = index.get(f.attr, [])
        if 0 < len(cands) <= 3 and not f.attr.startswith("__"):
            return list(cands)
    try:
        return ctx.repo.resolve_call(fi, call)
    except Exception:  # noqa: BLE001
        return []


def _from_calls(fi: FuncInfo, e: ast.AST, calls_: list, idx, depth: int = 4, fields=None) -> bool:
    """does e denote component idx (None: the whole result) of one of calls_ - on EVERY definition that can reach it?
    fields: the names of the components when the calls return a record (`r.name` is then component fields.index(name))"""
    e = strip_cast(e)
    if depth <= 0:
        return False
    if isinstance(e, ast.Call):
        # the call itself, or a copy of it that stands where a single-assignment local holding its result was expanded
        # (a second evaluation of the same verifying call on the same unmodified datagram returns the same material)
        return idx is None and any(e is c or (parent(e) is None and norm(e) in (norm(c), _xnorm(fi, c))) for c in calls_)
    if isinstance(e, ast.Subscript) and isinstance(e.slice, ast.Constant) and idx is not None and e.slice.value == idx \
            and not isinstance(e.slice.value, bool):
        return _from_calls(fi, e.value, calls_, None, depth - 1, fields)
    if isinstance(e, ast.Attribute) and idx is not None and fields and e.attr in fields and fields.index(e.attr) == idx:
        base = strip_cast(e.value)
        if isinstance(base, ast.Call) or (isinstance(base, ast.Name) and not _fields_written(fi, base.id)):
            return _from_calls(fi, base, calls_, None, depth - 1, fields)
        return False
    if isinstance(e, ast.Name) and e.id not in fi.params():
        defs = local_defs(fi, e.id)
        if not defs:
            return False
        for _, val, i in defs:
            if val is None:
                return False
            if i is None:
                if not _from_calls(fi, val, calls_, idx, depth - 1, fields):
                    return False
            elif not (i == idx and _from_calls(fi, val, calls_, None, depth - 1, fields)):
                return False
        return True
    return False


class _Verified:
    """a successful verification that dominates a site: directly (`vcall`: the self._verify_signature call; `a_auth`:
    the auth payload expression whose key verified) or through helper(s) that return only verified material (`ucalls`:
    the calls - one of them has completed -, `auth_idx` / `key_idx`: where their result carries the verified auth payload
    / the verified key; auth_idx None with has_auth: the result itself is the auth payload)"""

    def __init__(self, fi, vcall=None, a_auth=None, ucalls=(), auth_idx=None, has_auth=True, key_idx=None, fields=None,
                 verdict_idx=None) -> None:
        self.fi, self.vcall, self.a_auth = fi, vcall, a_auth
        self.ucalls, self.auth_idx, self.has_auth, self.key_idx = list(ucalls), auth_idx, has_auth, key_idx
        self.fields = list(fields) if fields else None      # component names when the helpers return a record
        # not None: the helper hands its VERDICT back as this component of its result (a phase helper that leaves the
        # decision to its caller) and the site is dominated by a test that found that component true
        self.verdict_idx = verdict_idx

    def is_auth(self, e: ast.AST) -> bool:
        """does expression e (of the same function) denote the verified auth payload?"""
        fi = self.fi
        if self.vcall is not None:
            return self.a_auth is not None and norm(_desugar_functional(fi, _expand(fi, e))) == \
                norm(_desugar_functional(fi, _expand(fi, self.a_auth)))
        return self.has_auth and _from_calls(fi, e, self.ucalls, self.auth_idx, fields=self.fields)

    def is_key(self, k: ast.AST) -> bool:
        """does expression k denote <verified auth>.public_key_bin ?"""
        fi = self.fi
        for x in (strip_cast(k), resolve(fi, k), _expand(fi, k)):
            if isinstance(x, ast.Attribute) and x.attr == "public_key_bin" and self.is_auth(x.value):
                return True
        return self.vcall is None and self.key_idx is not None \
            and _from_calls(fi, k, self.ucalls, None if self.key_idx == "whole" else self.key_idx, fields=self.fields)


def _quiet(ctx: Ctx) -> Ctx:
    """a scratch context (same repository, same CFG cache): lets a rule be asked as a question"""
    sub = Ctx(ctx.prop, ctx.repo, ctx.tier)
    sub._cfgs = ctx._cfgs
    for k in ("_c01_vs", "_c01_unpackers", "_c01_methods_by_name", "_c01_effects", "_c01_verdict_helpers"):
        if hasattr(ctx, k):
            setattr(sub, k, getattr(ctx, k))
    return sub


def _unpacker_summary(ctx: Ctx, h: FuncInfo, replay: bool = True) -> dict | None:
    """
    Is h a helper that hands out verified material only - every return dominated by a positive verdict on its datagram
    parameter with the key carried in it, payloads decoded from the signed remainder (the very conditions checked for
    _ez_unpack_auth)?  -> {'data_param', 'auth_idx' (component of the result that is the verified auth payload; None:
    the result itself), 'has_auth'} or None.  Evaluated on a scratch context; on success the checks are replayed on the
    real one so that they are counted.
    """
    cache = getattr(ctx, "_c01_unpackers", None)
    if cache is None:
        cache = {}
        ctx._c01_unpackers = cache        # type: ignore[attr-defined]
    k = id(h.node)
    if k in cache:
        return cache[k]
    cache[k] = None                       # recursion guard
    if h.is_async or h.node.decorator_list or any(isinstance(n, (ast.Yield, ast.YieldFrom)) for n in walk_no_nested(h.node)) \
            or len(h.params()) < 2:
        return None
    if not any(_is_vs_call(c) for c in calls(h)):
        # no verification of its own: only worth a look when it goes through another such helper of the overlay
        inner = [c for c in calls(h) if isinstance(c.func, ast.Attribute) and isinstance(c.func.value, ast.Name)
                 and c.func.value.id == h.params()[0] and h.cls is not None
                 and not _is_vs_call(c) and c.func.attr != h.name]
        ok = False
        for c in inner:
            ts = ctx.repo.dispatch(h.cls, c.func.attr)
            if ts and len(ts) <= 4 and all(_unpacker_summary(ctx, t, replay) is not None for t in ts):
                ok = True
        if not ok:
            return None
    sub = _quiet(ctx)
    try:
        summ = _check_unpack_auth(sub, h, strict_first=False)
    except AnalysisError:
        return None
    if sub.findings or summ is None:
        if sub.findings:
            why = getattr(ctx, "_c01_unpacker_why", None)
            if why is None:
                why = ctx._c01_unpacker_why = {}          # type: ignore[attr-defined]
            why[h.qualname] = sub.findings[0].human()
        return None
    if replay:
        _check_unpack_auth(ctx, h, strict_first=False)
    cache[k] = summ
    return summ


def _is_rejecting_component(x: ast.AST | None) -> bool:
    """the literal False / None / 0: a verdict component that no caller can read as `valid`"""
    x = strip_cast(x) if x is not None else None
    return isinstance(x, ast.Constant) and (x.value is False or x.value is None or (type(x.value) is int and x.value == 0))


def _return_components(ctx: Ctx, h: FuncInfo, r: ast.Return):
    """(component expressions as written in the return statement itself, field names | None) of `return (a, b, ...)` /
    `return Record(a, b, ...)`, else None.  Only a display / construction written in the return statement counts: its
    components are then evaluated by that statement, so a statement about one of them is a statement about the moment of
    the return."""
    if r.value is None:
        return None
    v = strip_cast(r.value)
    if not isinstance(v, (ast.Tuple, ast.Call)):
        return None
    cs = _components(ctx, h, v)
    if cs is None or not cs[2] or any(isinstance(x, ast.Starred) for x in cs[0]):
        return None
    return cs[0], (tuple(cs[1]) if cs[1] else None)


def _verdict_sites(ctx: Ctx, h: FuncInfo, j: int) -> list | None:
    """
    The returns of helper h read as `component j is the verdict`: [(return, assumed facts)] for every return that can hand
    its caller a TRUE component j (a return whose component j is the literal False / None / 0 tells the caller `invalid`
    and promises nothing else) - what must hold at such a return is asked under the assumption that the component is
    true, because that is all a caller that tests the component learns.  None when some return is not a display of more
    than j components (or returns nothing: then the caller cannot even unpack it - kept out of reach).
    """
    out = []
    rets = [n for n in walk_no_nested(h.node) if isinstance(n, ast.Return)]
    hcfg = ctx.cfg(h)
    if hcfg.exit in hcfg.reach(cut_nodes=[n for r in rets for n in hcfg.nodes_for(r)]):
        return None                                   # can fall off its end
    width = None
    for r in rets:
        rc = _return_components(ctx, h, r)
        if rc is None or j >= len(rc[0]) or (width is not None and len(rc[0]) != width):
            return None
        width = len(rc[0])
        if _is_rejecting_component(rc[0][j]):
            continue
        out.append((r, [(rc[0][j], True)]))
    return out or None


def _verdict_summary(ctx: Ctx, h: FuncInfo, replay: bool = True) -> dict:
    """
    Is h a phase helper that hands its caller the VERDICT next to the material - `return auth, signature_valid, payloads`
    - and leaves the decision to it?  -> {j: summary} for every component j such that every return of h either has the
    literal False / None / 0 there or satisfies, GIVEN that component j is true, the very conditions checked for
    _ez_unpack_auth (a positive _verify_signature verdict on the datagram parameter with the key carried in it,
    payloads decoded from the signed remainder).  A caller that is dominated by a test which found component j of the
    result true is then in the position of a caller of a helper that returns only after the check.
    """
    cache = getattr(ctx, "_c01_verdict_helpers", None)
    if cache is None:
        cache = ctx._c01_verdict_helpers = {}         # type: ignore[attr-defined]
    k = id(h.node)
    if k in cache:
        return cache[k][1]
    cache[k] = (h.node, {})                           # recursion guard
    out: dict = {}
    if h.is_async or h.node.decorator_list or isinstance(h.node, ast.Lambda) or len(h.params()) < 2 \
            or any(isinstance(n, (ast.Yield, ast.YieldFrom)) for n in walk_no_nested(h.node)) \
            or not any(_is_vs_call(c) for c in calls(h)):
        return out
    rets = [n for n in walk_no_nested(h.node) if isinstance(n, ast.Return)]
    widths = {len(rc[0]) if rc is not None else None for rc in (_return_components(ctx, h, r) for r in rets)}
    if len(widths) != 1 or None in widths:
        return out
    for j in range(min(next(iter(widths)), 6)):
        sites = _verdict_sites(ctx, h, j)
        if not sites:
            continue
        sub = _quiet(ctx)
        try:
            summ = _check_unpack_auth(sub, h, strict_first=False, verdict_idx=j)
        except (AnalysisError, RecursionError):
            continue
        if sub.findings or summ is None:
            continue
        if replay:
            _check_unpack_auth(ctx, h, strict_first=False, verdict_idx=j)
        out[j] = summ
    cache[k] = (h.node, out)
    return out


def _unpacker_calls(ctx: Ctx, fi: FuncInfo, data_name: str, replay: bool = True, skip=(), verdict: bool = False) -> list[tuple[ast.Call, tuple]]:
    """(call, (auth_idx, has_auth, key_idx, fields)) for every call in fi of helper(s) that hand out verified material only
    and are given fi's unmodified datagram parameter `data_name`;  verdict=True: instead (call, (auth_idx, has_auth,
    key_idx, fields, j)) for helpers that hand back the verdict as component j of their result (see _verdict_summary)"""
    out = []
    for c in calls(fi):
        if _is_vs_call(c) or not isinstance(c.func, (ast.Name, ast.Attribute)) or any(c is x for x in skip):
            continue
        if isinstance(c.func, ast.Attribute) and not (isinstance(c.func.value, ast.Name) and fi.params()
                                                      and c.func.value.id == fi.params()[0]) \
                and not _import_targets(ctx, fi, c):            # `<module>.<function>(...)` is followed as well
            continue
        if isinstance(c.func, ast.Name) and (c.func.id in fi.params() or local_defs(fi, c.func.id)):
            continue
        targets = _targets(ctx, fi, c)
        if not targets or len(targets) > 4 or any(t.node is fi.node for t in targets):
            continue
        if verdict:
            per_target = []
            for t in targets:
                if _unpacker_summary(ctx, t, replay) is not None:
                    per_target = None             # returns only after the check: the unconditional reading applies
                    break
                per_target.append(_verdict_summary(ctx, t, replay))
            for j in sorted(set.intersection(*[set(vs_) for vs_ in per_target])) if per_target else ():
                summs = []
                for t, vs_ in zip(targets, per_target):
                    sm = vs_[j]
                    is_method = t.cls is not None and not any(chain(d) == "staticmethod" for d in t.node.decorator_list)
                    bound = _bind_call(c, t, receiver=is_method)
                    a = bound.get(sm["data_param"]) if bound else None
                    if not (isinstance(a, ast.Name) and a.id == data_name and _is_param_unmodified(fi, data_name)):
                        summs = None
                        break
                    summs.append((sm["auth_idx"], sm["has_auth"], sm["key_idx"], sm.get("fields"), j))
                if summs and len(set(summs)) == 1:
                    out.append((c, summs[0]))
            continue
        summs = []
        for t in targets:
            sm = _unpacker_summary(ctx, t, replay)
            if sm is None:
                summs = None
                break
            is_method = t.cls is not None and not any(chain(d) == "staticmethod" for d in t.node.decorator_list)
            bound = _bind_call(c, t, receiver=is_method)
            a = bound.get(sm["data_param"]) if bound else None
            if not (isinstance(a, ast.Name) and a.id == data_name and _is_param_unmodified(fi, data_name)):
                summs = None
                break
            summs.append((sm["auth_idx"], sm["has_auth"], sm["key_idx"], sm.get("fields")))
        if summs and len(set(summs)) == 1:
            out.append((c, summs[0]))
    return out


def _dominating_verdict_helper(ctx: Ctx, fi: FuncInfo, facts, data_name: str):
    """
    A call of helper(s) that hand back the verdict as component j of their result (see _verdict_summary), given fi's
    unmodified datagram parameter, such that a fact that holds at the site through a real branch says that component j
    of the result of THAT call is true (`auth, ok, payloads = self._parse(data)` ... `if not ok: raise`)  -> _Verified
    (the call has completed - its result was tested - and every return of the helper that can have produced a true
    component j hands out verified material only) or None.
    """
    cands = None
    for f in facts:
        if _fact_in_assert(f):
            continue
        e = _known_true_operand(f)
        if e is None:
            continue
        if cands is None:
            cands = _unpacker_calls(ctx, fi, data_name, verdict=True)
        for c, (auth_idx, has_auth, key_idx, fields, j) in cands:
            if _from_calls(fi, e, [c], j, fields=fields):
                return _Verified(fi, ucalls=[c], auth_idx=auth_idx, has_auth=has_auth, key_idx=key_idx, fields=fields,
                                 verdict_idx=j)
    return None


def _dominating_unpacker(ctx: Ctx, fi: FuncInfo, cfg, site: ast.AST, data_name: str):
    """calls of helper(s) that hand out verified material only, one of which has completed normally on every path to
    the site (e.g. a first attempt and the fallback in its except clause) -> _Verified or None"""
    nodes = [n for n in cfg.nodes_for(site) if cfg.reachable(n)]
    cands = _unpacker_calls(ctx, fi, data_name)
    if not nodes or not cands:
        return None
    kinds = {k for _, k in cands}
    for kind in kinds:
        group = [c for c, k in cands if k == kind]
        through = [n for c in group for n in cfg.nodes_for(c)]
        if any(n in through for n in nodes) and not isinstance(site, ast.Return):
            continue
        if through and all(n in through or cfg.must_complete(n, through) for n in nodes):
            return _Verified(fi, ucalls=group, auth_idx=kind[0], has_auth=kind[1], key_idx=kind[2], fields=kind[3])
    return None


def _check_verified_site(ctx: Ctx, fi: FuncInfo, site: ast.AST, label: str, data_name: str, what: str, unverified: str,
                         assume=()):
    """verify-before-call at one site (handler call / return of payloads): -> _Verified or None
    (assume: what the asker takes as given at the site, see _site_facts)"""
    cfg = ctx.cfg(fi)
    facts = _site_facts(ctx, fi, cfg, site, assume=assume)
    vcall, asserted = _dominating_verification(ctx, fi, facts, site)
    through = None
    if vcall is None:
        through = _dominating_unpacker(ctx, fi, cfg, site, data_name)
    if vcall is None and through is None:
        through = _dominating_verdict_helper(ctx, fi, facts, data_name)
        if through is not None:
            ctx.check(True, "verify-before-call", fi, site,
                      f"{label}: {what} dominated by a test that found component {through.verdict_idx} of the result of "
                      f"`{norm(through.ucalls[0].func)}` true, which is the _verify_signature(...) verdict on the datagram that "
                      "helper hands back (checked there)", "", [str(f) for f in facts])
            return through
    if through is not None:
        ctx.check(True, "verify-before-call", fi, site,
                  f"{label}: {what} dominated by the normal completion of `{norm(through.ucalls[0].func)}`, which returns only "
                  "after a positive _verify_signature(...) verdict on the datagram (checked there)", "", [str(f) for f in facts])
        return through
    if vcall is None and not asserted and getattr(ctx.repo, "_c01_thin_other", {}).get(id(fi.node)):
        raise AnalysisError(f"undecided: {fi.qualname} reads the verdict through `{ctx.repo._c01_thin_other[id(fi.node)][0]}`, a wrapper that "
                            "hands back the result of _verify_signature on its own parameters in another form (not followed)")
    if vcall is None and not asserted:
        for hq, hw in sorted(getattr(ctx, "_c01_unpacker_why", {}).items()):
            if any(call_name(c) == hq.rsplit(".", 1)[-1] for c in calls(fi)):
                unverified += f" (the helper {hq} it goes through does not guarantee one: {hw})"
    ctx.check(vcall is not None, "verify-before-call", fi, site,
              f"{label}: {what} dominated by a positive _verify_signature(...) verdict (a real branch, not an assert)",
              _ASSERT_REASON if asserted else unverified, [str(f) for f in facts])
    if vcall is None:
        return None
    a_data, a_auth = _vs_call_args(ctx, fi, vcall)
    ok_data = isinstance(a_data, ast.Name) and a_data.id == data_name and _is_param_unmodified(fi, data_name)
    ctx.check(ok_data, "verify-before-call", fi, vcall,
              f"{label}: verification is given the unmodified datagram parameter `{data_name}`",
              "signature verification does not receive the complete, unmodified datagram")
    ok_auth = a_auth is not None and _check_auth_unpack(ctx, fi, a_auth, data_name, vcall, "verify-before-call")
    ctx.check(ok_auth, "verify-before-call", fi, vcall,
              f"{label}: key container is BinMemberAuthenticationPayload unpacked from the datagram at offset 23",
              "the verification key is not the one carried in this datagram")
    return _Verified(fi, vcall=vcall, a_auth=a_auth)


def _returned_function(ctx: Ctx, fi: FuncInfo, depth: int = 3) -> FuncInfo | None:
    """the function object fi returns on every path: a closure defined in fi, or what a factory of this module returns"""
    found = []
    for r in walk_no_nested(fi.node):
        if not isinstance(r, ast.Return):
            continue
        v = strip_cast(resolve(fi, r.value)) if r.value is not None else None
        got = None
        # functools.wraps(f)(closure) / update_wrapper(closure, f) return the closure itself
        if isinstance(v, ast.Call) and isinstance(v.func, ast.Call) and call_name(v.func) == "wraps" and len(v.args) == 1 \
                and not v.keywords:
            v = strip_cast(resolve(fi, v.args[0]))
        elif isinstance(v, ast.Call) and call_name(v) == "update_wrapper" and v.args:
            v = strip_cast(resolve(fi, v.args[0]))
        if isinstance(v, ast.Name):
            for n in walk_no_nested(fi.node):
                if isinstance(n, (ast.FunctionDef, ast.AsyncFunctionDef)) and n is not fi.node and n.name == v.id \
                        and not local_defs(fi, v.id):
                    got = ctx.repo.info(n)
        elif isinstance(v, ast.Call) and isinstance(v.func, ast.Name) and depth > 0 and not local_defs(fi, v.func.id):
            g = ctx.repo.resolve_name(fi.module, v.func.id)
            if isinstance(g, FuncInfo) and g.cls is None and g.module is fi.module and g.node is not fi.node:
                got = _returned_function(ctx, g, depth - 1)
            elif isinstance(g, ClassInfo) and g.module is fi.module and not g.subclasses and "__call__" in g.methods \
                    and not ({"__new__", "__getattr__", "__getattribute__", "__get__"} & set(g.methods)) \
                    and not g.node.decorator_list and not g.methods["__call__"].node.decorator_list:
                # an instance of a small callable class stands for its __call__ (a closure spelled as a class)
                got = g.methods["__call__"]
        if got is None:
            return None
        found.append(got)
    if found and all(f.node is found[0].node for f in found):
        return found[0]
    return None


def _find_wrapper(ctx: Ctx, deco: str) -> tuple[FuncInfo, str]:
    """(the function that receives (self, address, datagram) for a handler decorated with `deco`, name of the handler):
    deco(*payloads) returns the decorator (its own closure or one made by a factory), which returns the wrapper"""
    top = ctx.repo.func(LC, deco)
    d = _returned_function(ctx, top)
    own = [] if d is None else d.params()[1:] if (d.cls is not None and d.name == "__call__") else d.params()
    w = _returned_function(ctx, d) if d is not None and len(own) == 1 else None
    if w is None or len(w.params()) < 3 or w.node.args.vararg is not None:
        raise AnalysisError(f"anchor-lost: {deco} wrapper signature")
    return w, own[0]


def _closures_calling(fi: FuncInfo, fname: str) -> list[tuple[ast.AST, ast.Call]]:
    """(nested def / lambda directly inside fi, call of `fname` in it)"""
    out = []
    for n in walk_no_nested(fi.node):
        if n is fi.node or not isinstance(n, (ast.FunctionDef, ast.AsyncFunctionDef, ast.Lambda)):
            continue
        for c in ast.walk(n):
            if isinstance(c, ast.Call) and chain(c.func) == fname:
                out.append((n, c))
    return out


def _auth_deco_of_call(ctx: Ctx, fi: FuncInfo, e: ast.AST) -> str | None:
    """name of the authenticating decorator when e is `lazy_wrapper(...)` / `lazy_wrapper_wd(...)` of this module"""
    if isinstance(e, ast.Call) and isinstance(e.func, ast.Name):
        t = ctx.repo.resolve_name(fi.module, e.func.id)
        if isinstance(t, FuncInfo) and t.module.relpath == LC and t.name in AUTH_DECOS and t.cls is None:
            return t.name
    return None


def _check_delegation(ctx: Ctx, deco: str, fi: FuncInfo, fname: str, inner: ast.AST, call: ast.Call) -> None:
    """
    The handler is called from a local closure of the wrapper.  That is as good as a dominated call iff the closure is
    itself an authenticated handler: wrapped (decorator, or `lazy_wrapper(..)(closure)`) by an authenticating decorator
    whose own wrapper verifies directly, reachable only through that wrapping, invoked with the wrapper's own
    (self, address, datagram), and handing on the peer / payloads it was given by the verifying wrapper.
    """
    repo = ctx.repo
    params = fi.params()
    label = f"{deco} (delegating)"
    from ..model import parent
    # --- which authenticating decorator wraps the closure, and what denotes the wrapped closure in fi
    target = None
    wrapped_is = None            # predicate: expression denotes the wrapped closure
    if isinstance(inner, (ast.FunctionDef, ast.AsyncFunctionDef)) and inner.decorator_list:
        info = repo.info(inner)
        if classify_handler(ctx, info) == "authenticated":
            for d in inner.decorator_list:
                target = target or _auth_deco_of_call(ctx, fi, d)
        name = inner.name
        rebound = len(local_defs(fi, name)) > 0
        if target is not None and not rebound:
            def wrapped_is(e, name=name):
                return isinstance(e, ast.Name) and e.id == name
        inside = {id(n) for n in ast.walk(inner)}
        loads = [n for n in ast.walk(fi.node) if isinstance(n, ast.Name) and n.id == name and isinstance(n.ctx, ast.Load)
                 and id(n) not in inside]
    else:
        # undecorated closure: every mention must be the single argument of `<auth decorator>(...)(closure)`
        if isinstance(inner, ast.Lambda):
            mentions_ = [inner]
        else:
            mentions_ = [n for n in walk_no_nested(fi.node) if isinstance(n, ast.Name) and n.id == inner.name
                         and isinstance(n.ctx, ast.Load)]
            if local_defs(fi, inner.name):
                mentions_ = []
        apps = []
        for m in mentions_:
            p = parent(m)
            t = _auth_deco_of_call(ctx, fi, p.func) if isinstance(p, ast.Call) and len(p.args) == 1 and p.args[0] is m \
                and not p.keywords else None
            apps.append((p, t))
        if apps and all(t is not None for _, t in apps) and len({t for _, t in apps}) == 1:
            target = apps[0][1]
            app_nodes = [p for p, _ in apps]

            def wrapped_is(e, app_nodes=app_nodes):
                r = resolve(fi, e)
                return any(r is a for a in app_nodes)
        loads = []
        if target is not None:
            for a in app_nodes:
                loads.append(a)
            loads += [n for n in walk_no_nested(fi.node) if isinstance(n, ast.Name) and isinstance(n.ctx, ast.Load)
                      and single_def(fi, n.id) is not None and any(resolve(fi, n) is a for a in app_nodes)]
    grounded = False
    if target is not None and target != deco:
        tw, tf = _find_wrapper(ctx, target)
        grounded = bool(calls(tw, tf))          # the other decorator's wrapper calls its handler itself (checked there)
    ctx.check(target is not None and wrapped_is is not None and grounded, "verify-before-call", fi, call,
              f"{label}: handler called from a closure that is wrapped by a directly verifying authenticating decorator",
              "the wrapped handler can be reached without a successful signature verification (it is called from a local "
              "closure that is not itself wrapped by a verifying decorator)")
    if target is None or wrapped_is is None or not grounded:
        return
    # --- the wrapped closure is only ever called, with the wrapper's own (self, address, datagram)
    ok_uses = True
    for n in loads:
        p = parent(n)
        if isinstance(p, ast.Assign) and p.value is n:
            continue                                  # bound to a local: its loads are in the list as well
        if not (isinstance(p, ast.Call) and p.func is n):
            ok_uses = False
            continue
        got = [a.id if isinstance(a, ast.Name) else None for a in p.args]
        if got != params[:3] or p.keywords or not all(_is_param_unmodified(fi, x) for x in params[:3]):
            ok_uses = False
    ctx.check(ok_uses, "verify-before-call", fi, inner if not isinstance(inner, ast.Lambda) else call,
              f"{label}: the verifying closure is only invoked, with the wrapper's own (self, address, datagram)",
              "the verifying closure is handed something other than the received datagram (or escapes): the handler "
              "runs for bytes that are not the datagram that was received")
    # --- inside the closure: peer and payloads are the ones the verifying wrapper passed in
    ia = inner.args
    ipos = [x.arg for x in ia.posonlyargs + ia.args]
    own = set(ipos) | ({ia.vararg.arg} if ia.vararg else set())

    own_args = {id(x) for x in ia.posonlyargs + ia.args + ia.kwonlyargs + [y for y in (ia.vararg, ia.kwarg) if y is not None]}

    def assigned_in_closure(name: str) -> bool:
        for n in ast.walk(inner):
            if isinstance(n, ast.Name) and n.id == name and isinstance(n.ctx, (ast.Store, ast.Del)):
                return True
            if isinstance(n, ast.arg) and n.arg == name and id(n) not in own_args:
                return True          # shadowed in a nested scope: not followed
        return False

    peer = call.args[1] if len(call.args) >= 2 else None
    ok_peer = len(ipos) >= 2 and isinstance(peer, ast.Name) and peer.id == ipos[1] and not assigned_in_closure(ipos[1])
    ctx.check(ok_peer, "peer-from-auth-key", fi, call,
              f"{label}: the peer handed on is the one the verifying wrapper built from the verified key",
              "the peer handed to the handler is not derived from the verified key")
    ok_pay = True
    rest = list(call.args[2:]) + [k.value for k in call.keywords]
    flat = []
    for a in rest:
        if isinstance(a, ast.Starred) and isinstance(a.value, (ast.List, ast.Tuple)):
            flat.extend(a.value.elts)
        else:
            flat.append(a)
    for a in flat:
        e = a.value if isinstance(a, ast.Starred) else a
        if not isinstance(e, ast.Name):
            ok_pay = False
        elif e.id in own:
            ok_pay = ok_pay and not assigned_in_closure(e.id)
        else:
            ok_pay = ok_pay and e.id == params[2] and _is_param_unmodified(fi, params[2]) and not isinstance(a, ast.Starred)
    ctx.check(ok_pay, "payload-from-signed-bytes", fi, call,
              f"{label}: payload arguments are the ones decoded by the verifying wrapper (plus the raw datagram)",
              "payloads handed to the handler are decoded from bytes other than the signed remainder")


def _check_unpack_auth(ctx: Ctx, fi: FuncInfo, strict_first: bool = True, verdict_idx: int | None = None) -> dict | None:
    """
    Every return (of a value) of fi hands out verified material only.  strict_first: the reviewed _ez_unpack_auth
    contract (the verified auth payload is the first component of the result).  -> summary for callers, None when the
    returns disagree about where the auth payload is.
    verdict_idx: fi is read as a helper that hands the verdict back as that component of its result (see
    _verdict_summary): only the returns that can carry a true verdict are examined, each GIVEN that its verdict is true.
    """
    params = fi.params()
    if len(params) < 2:
        raise AnalysisError(f"anchor-lost: {fi.qualname} signature")
    # the datagram is the parameter that is handed to the verification (reviewed position: last)
    data_name = params[2] if len(params) > 2 else params[-1]
    cands = set()
    for c in calls(fi):
        if _is_vs_call(c):
            a_data, _ = _vs_call_args(ctx, fi, c)
            if isinstance(a_data, ast.Name) and a_data.id in params:
                cands.add(a_data.id)
        elif isinstance(c.func, ast.Attribute) and isinstance(c.func.value, ast.Name) and c.func.value.id == "self" and fi.cls:
            for t in _targets(ctx, fi, c):
                sm = getattr(ctx, "_c01_unpackers", {}).get(id(t.node)) if t.node is not fi.node else None
                bound = _bind_call(c, t, receiver=True) if sm else None
                a = bound.get(sm["data_param"]) if bound else None
                if isinstance(a, ast.Name) and a.id in params:
                    cands.add(a.id)
    if len(cands) == 1:
        data_name = next(iter(cands))
    label = fi.name
    rets = [n for n in walk_no_nested(fi.node) if isinstance(n, ast.Return) and n.value is not None]
    ctx.anchor(rets, f"{fi.qualname} return")
    assumed: dict = {}
    if verdict_idx is not None:
        sites = _verdict_sites(ctx, fi, verdict_idx)
        if not sites:
            return None
        assumed = {id(r): a for r, a in sites}
        for r in rets:
            if id(r) not in assumed:
                ctx.instance("verify-before-call", fi.where, f"{label}: `{norm(r)}` hands back the literal verdict `invalid` "
                             f"(component {verdict_idx})", line=getattr(r, "lineno", 0))
        rets = [r for r in rets if id(r) in assumed]
    where = set()
    for r in rets:
        ver = _check_verified_site(
            ctx, fi, r, label, data_name, "return" if verdict_idx is None else f"return of a true component {verdict_idx}",
            f"{label} can return payloads without a successful signature verification", assume=assumed.get(id(r), ()))
        if ver is None:
            where.add("unverified")
            continue
        rv = _expand(fi, r.value)
        cs_rv = _components(ctx, fi, rv) if isinstance(rv, (ast.Tuple, ast.Call)) else None
        comps = cs_rv[0] if cs_rv is not None else None
        names = tuple(cs_rv[1]) if cs_rv is not None and cs_rv[1] else None     # a result object: named components
        raw = strip_cast(resolve(fi, r.value))
        cs_raw = _components(ctx, fi, raw) if isinstance(raw, (ast.Tuple, ast.Call)) else None
        raw_comps = cs_raw[0] if cs_raw is not None and len(cs_raw[0]) == len(comps or []) else None
        def find(pred):
            if comps is None:
                return None if pred(r.value) else -1
            for cs in (raw_comps, comps):
                for i, x in enumerate(cs or []):
                    if not isinstance(x, ast.Starred) and pred(x):
                        return i
            return -1
        idx, kidx = find(ver.is_auth), find(ver.is_key)
        if comps is None and ver.vcall is None and ver.ucalls and _from_calls(fi, r.value, ver.ucalls, None):
            # the whole result of the verifying helper is handed on: its components are where that helper has them
            idx = (ver.auth_idx if ver.has_auth else -1)
            kidx = -1 if ver.key_idx is None else (None if ver.key_idx == "whole" else ver.key_idx)
            names = tuple(ver.fields) if ver.fields else None
        where.add((idx, kidx, names))
        if strict_first:
            ctx.check(idx == 0, "peer-from-auth-key", fi, r, f"{label} returns the auth payload that was verified",
                      "the returned auth payload is not the one whose key verified the signature")
        if ver.vcall is not None:
            _payload_source(ctx, fi, r, ver.vcall, label)
        elif calls(fi, "self.serializer.unpack_serializable_list"):
            raise AnalysisError(f"undecided: {fi.qualname} decodes payloads itself next to a verifying helper")
    if len(where) != 1 or "unverified" in where:
        return None
    idx, kidx, names = next(iter(where))
    return {"data_param": data_name, "auth_idx": None if idx in (None, -1) else idx, "has_auth": idx != -1,
            "key_idx": None if kidx == -1 else ("whole" if kidx is None else kidx), "fields": names}


def _is_super_delegation(fi: FuncInfo, base: FuncInfo, r: ast.Return) -> bool:
    """`return super().<same method>(<own parameters, same positions>)` (also spelled Base.<method>(self, ...))"""
    v = strip_cast(resolve(fi, r.value)) if r.value is not None else None
    if not (isinstance(v, ast.Call) and isinstance(v.func, ast.Attribute) and v.func.attr == fi.name):
        return False
    recv = v.func.value
    if isinstance(recv, ast.Call) and isinstance(recv.func, ast.Name) and recv.func.id == "super" and not recv.args:
        bound = _bind_call(v, base, receiver=True)
    else:
        return False
    if bound is None:
        return False
    own, theirs = fi.params(), base.params()
    for p in theirs[1:]:
        a = bound.get(p)
        i = theirs.index(p)
        if not (isinstance(a, ast.Name) and i < len(own) and a.id == own[i] and _is_param_unmodified(fi, a.id)):
            return False
    return True


def rule_wrappers(ctx: Ctx) -> None:
    repo = ctx.repo
    for deco in sorted(AUTH_DECOS):
        fi, fname = _find_wrapper(ctx, deco)
        params = fi.params()
        addr_name, data_name = params[1], params[2]
        fcalls = calls(fi, fname)
        nested = _closures_calling(fi, fname)
        # the handler applied through functools.partial: partial(func, self, ...)(peer, ...) is func(self, ..., peer, ...)
        effective: dict[int, ast.Call] = {}
        for c in calls(fi):
            if any(c is x for x in fcalls) or not isinstance(strip_cast(resolve(fi, c.func)), ast.Call):
                continue
            full = _desugar_functional(fi, _expand(fi, c))
            if isinstance(full, ast.Call) and chain(full.func) == fname:
                fcalls = [*fcalls, c]
                effective[id(c)] = full
        ctx.anchor(fcalls or nested, f"call of wrapped func in {deco}")
        for call in fcalls:
            ver = _check_verified_site(
                ctx, fi, call, deco, data_name, "handler call",
                "the wrapped handler can be reached without a successful signature verification")
            if ver is not None:
                # --- payloads come from the signed remainder
                if ver.vcall is not None:
                    _payload_source(ctx, fi, call, ver.vcall, deco)
                elif calls(fi, "self.serializer.unpack_serializable_list"):
                    raise AnalysisError(f"undecided: the {deco} wrapper decodes payloads itself next to a verifying helper")
                # --- peer-from-auth-key
                _peer_arg(ctx, fi, call, ver, addr_name, deco, effective.get(id(call)))
        for inner, call in nested:
            _check_delegation(ctx, deco, fi, fname, inner, call)
    base = repo.method("EZPackOverlay", "_ez_unpack_auth", LC)
    if len(base.params()) < 3:
        raise AnalysisError("anchor-lost: EZPackOverlay._ez_unpack_auth signature")
    _check_unpack_auth(ctx, base)
    # manual handlers call self._ez_unpack_auth: an override in a subclass is what they get
    for o in repo.dispatch(base.cls, "_ez_unpack_auth"):
        if o is base:
            continue
        rets = [n for n in walk_no_nested(o.node) if isinstance(n, ast.Return)]
        if rets and all(_is_super_delegation(o, base, r) for r in rets):
            ctx.instance("verify-before-call", o.where, f"{o.qualname}: pure delegation to the reviewed _ez_unpack_auth")
            continue
        _check_unpack_auth(ctx, o)


def _payload_source(ctx: Ctx, fi: FuncInfo, site: ast.AST, vcall: ast.Call, label: str) -> None:
    """Every unpack_serializable_list whose result reaches the site decodes the `remainder` from _verify_signature."""
    vs = _vs_contract(ctx)
    ulist = calls(fi, "self.serializer.unpack_serializable_list")
    ctx.anchor(ulist, f"unpack_serializable_list in {label}")
    for u in ulist:
        src = arg(u, 1, "data")
        if vs.remainder_idx is None:
            ok = src is not None and resolve(fi, src) is vcall
        else:
            prod, idx = _tuple_component(fi, src) if src is not None else (None, None)
            ok = prod is vcall and vs.position(idx) == vs.remainder_idx
        ctx.check(ok, "payload-from-signed-bytes", fi, u,
                  f"{label}: payloads are decoded from the remainder returned by _verify_signature",
                  "payloads handed to the handler are decoded from bytes other than the signed remainder")


def _peer_from_helper(ctx: Ctx, fi: FuncInfo, ver: "_Verified", peer_arg: ast.AST, addr_name: str, label: str, depth: int) -> bool:
    idx = None
    for i in range(6):
        if _from_calls(fi, peer_arg, ver.ucalls, i, fields=ver.fields):
            idx = i
            break
    if idx is None:
        return False
    for c in ver.ucalls:
        targets = _targets(ctx, fi, c)
        if not targets:
            return False
        for h in targets:
            assumed: dict = {}
            if ver.verdict_idx is None:
                sm = _unpacker_summary(ctx, h)
            else:
                # the helper hands back its verdict: only the returns that can carry a true verdict reach the handler call
                sm = _verdict_summary(ctx, h).get(ver.verdict_idx)
                assumed = {id(r): a for r, a in (_verdict_sites(ctx, h, ver.verdict_idx) or [])}
            if sm is None:
                return False
            rets = [n for n in walk_no_nested(h.node) if isinstance(n, ast.Return) and n.value is not None]
            if ver.verdict_idx is not None:
                rets = [r for r in rets if id(r) in assumed]
            if not rets:
                return False
            for r in rets:
                sub = _quiet(ctx)
                try:
                    hver = _check_verified_site(sub, h, r, h.name, sm["data_param"], "return", "", assume=assumed.get(id(r), ()))
                except AnalysisError:
                    return False
                if hver is None or sub.findings:
                    return False
                cs = _components(ctx, h, _expand(h, r.value))
                if cs is None or not cs[2] or idx >= len(cs[0]) or isinstance(cs[0][idx], ast.Starred):
                    return False
                # the component plays the role of the peer argument of a call `f(<self>, <component>)`
                fake = ast.Call(func=ast.Name(id="<handler>", ctx=ast.Load()),
                                args=[ast.Name(id="self", ctx=ast.Load()), cs[0][idx]], keywords=[])
                _peer_arg(sub, h, fake, hver, addr_name, label, _depth=depth + 1, _site=r)
                if sub.findings:
                    return False
    return True


_PEER_REGISTRY = "self.network.verified_by_public_key_bin"


def _peer_value_kind(ctx: Ctx, fi: FuncInfo, ver: "_Verified", e: ast.AST, depth: int = 2) -> tuple[str, str]:
    """
    Is e (expanded, one alternative of a Peer-valued expression of fi) the registry entry stored under the verified key
    K = <verified auth>.public_key_bin or a fresh Peer built from K?  -> ('good' | 'bad' | 'unknown', why).
    'bad' only for a value that is recognised as a peer obtained otherwise (a Peer built from another key, a registry /
    network lookup that is not given K); anything that is not recognised is 'unknown'.
    """
    if isinstance(e, ast.Call) and chain(e.func) == "Peer":
        k = arg(e, 0)
        if not isinstance(_resolve_in_function(ctx, fi, "Peer"), ClassInfo):
            return ("unknown", f"`Peer` in `{norm(e)}` is not the Peer class")
        if k is not None and ver.is_key(k):
            return ("good", "")
        return ("bad", f"`{norm(e)}` is a Peer built from a key other than the verified auth payload's public_key_bin")
    if isinstance(e, ast.Call) and chain(e.func) == _PEER_REGISTRY + ".get":
        k = arg(e, 0)
        if k is not None and ver.is_key(k):
            return ("good", "") if len(e.args) == 1 and not e.keywords else ("unknown", f"`{norm(e)}` has a default")
        return ("bad", f"`{norm(e)}` is the verified peer stored under another key than the one that verified the signature")
    if isinstance(e, ast.Subscript) and chain(e.value) == _PEER_REGISTRY and not isinstance(e.slice, ast.Slice):
        if ver.is_key(e.slice):                          # registry[K]: the same entry that .get(K) returns
            return ("good", "")
        return ("bad", f"`{norm(e)}` is the verified peer stored under another key than the one that verified the signature")
    if isinstance(e, ast.Call) and depth > 0:
        # a helper that resolves the sender: every value it can return, in this function's terms
        cases = _return_cases(ctx, fi, e, 2)
        kinds = []
        if cases:
            vals = [x for v, _, _ in cases for x in ([None] if v is None else _alternatives(fi, v))]
            kinds = [("unknown", f"a value returned by `{norm(e.func)}`") if x is None
                     else _peer_value_kind(ctx, fi, ver, _desugar_functional(fi, _expand(fi, x)), depth - 1) for x in vals]
            if kinds and all(k[0] == "good" for k in kinds):
                return ("good", "")
        c = chain(_expand(fi, e.func)) or ""
        if not kinds and c.startswith("self.network.") and c.count(".") == 2 and isinstance(e.func, ast.Attribute):
            # a one-expression accessor of Network (`return self.verified_by_public_key_bin.get(public_key_bin)`): its
            # value in this function's terms, with the accessor's self standing for self.network
            net = ctx.repo.try_cls("Network", "ipv8/peerdiscovery/network.py")
            h = net.lookup(e.func.attr) if net is not None else None
            rv = _straight_line_return(h) if h is not None else None
            if rv is not None and len([b for b in h.node.body if not (isinstance(b, ast.Expr) and isinstance(b.value, ast.Constant))]) == 1 \
                    and not h.node.decorator_list:
                bound = _bind_call(e, h, receiver=True)
                hp = h.params()
                if bound is not None and hp and _free_names(rv) <= set(hp) \
                        and all(p in bound for p in _free_names(rv) if p != hp[0]):
                    mapping = dict(bound)
                    mapping[hp[0]] = _expand(fi, e.func.value)
                    k = _peer_value_kind(ctx, fi, ver, _subst_names(rv, mapping), depth - 1)
                    if k[0] == "good":
                        return k
                    kinds = [k]
        if ".network." in "." + c and c.endswith("network." + c.rsplit(".", 1)[-1]) and not any(k[0] == "good" for k in kinds):
            allargs = [*e.args, *[kw.value for kw in e.keywords]]
            if not any(isinstance(a, ast.Starred) for a in allargs) and not any(kw.arg is None for kw in e.keywords) \
                    and not any(ver.is_key(a) for a in allargs):
                return ("bad", f"`{norm(e)}` looks the peer up in the network without the key that verified the signature "
                               "(whoever is known under that address / criterion, not the signer)")
        for k in kinds:
            if k[0] == "bad":
                return k
        return ("unknown", f"`{norm(e)}`")
    return ("unknown", f"`{norm(e)}`")


def _peer_arg(ctx: Ctx, fi: FuncInfo, call: ast.Call, ver: "_Verified", addr_name: str, label: str, effective=None,
              _depth: int = 0, _site=None) -> None:
    """effective: the call as it is really made when `call` applies a functools.partial of the handler"""
    args = (effective or call).args
    peer_arg = args[1] if len(args) >= 2 else None
    ok = False
    why = "the peer handed to the handler is not derived from the verified key"

    def good_value(e, depth: int = 2) -> bool:
        """e (expanded) is the registry entry stored under the verified key or a fresh Peer built from the verified key"""
        return _peer_value_kind(ctx, fi, ver, e, depth)[0] == "good"

    if peer_arg is not None and ver is not None and not isinstance(peer_arg, ast.Starred):
        # every value the argument can take (`a or b`, conditional expression, a local assigned on several branches)
        good = [good_value(_desugar_functional(fi, _expand(fi, alt))) for alt in _alternatives(fi, peer_arg)]
        ok = bool(good) and all(good)
        if not ok and ver.vcall is None and ver.ucalls and _depth < 2:
            # the peer is a component of what the verifying helper returned: the same question, asked of every return
            # of that helper in the helper's own terms (its verdict, its key)
            ok = _peer_from_helper(ctx, fi, ver, peer_arg, addr_name, label, _depth)
    ctx.check(ok, "peer-from-auth-key", fi, _site if _site is not None else call,
              f"{label}: peer argument is verified_by_public_key_bin.get(K) / [K] or Peer(K, addr) with K = auth.public_key_bin",
              why)


# ------------------------------------------------------------------------------- manual handlers: peer-from-auth-key
_CONTAINER_WRITES = {"add", "append", "remove", "pop", "update", "discard", "setdefault", "clear", "insert", "extend", "popitem",
                     "appendleft", "popleft", "move_to_end"}
_NETWORK_FILE = "ipv8/peerdiscovery/network.py"


def _network_peer_mutators(ctx: Ctx) -> dict[str, str]:
    """{method name: name of its peer parameter} for the methods of Network whose first parameter is a Peer and that
    write the membership state of the peer graph (a store into / a growing or shrinking call on an attribute of self,
    directly or through another method of Network that does)"""
    cached = getattr(ctx, "_c01_net_mutators", None)
    if cached is not None:
        return cached
    net = ctx.repo.try_cls("Network", _NETWORK_FILE)
    if net is None:
        raise AnalysisError("anchor-lost: class Network")

    def writes(m: FuncInfo, seen: tuple = ()) -> bool:
        ps = m.params()
        if not ps or isinstance(m.node, ast.Lambda):
            return False
        me = ps[0]

        def on_self(x) -> bool:
            while isinstance(x, (ast.Attribute, ast.Subscript)):
                x = x.value
            return isinstance(x, ast.Name) and x.id == me

        for n in walk_no_nested(m.node):
            if isinstance(n, (ast.Attribute, ast.Subscript)) and isinstance(n.ctx, (ast.Store, ast.Del)) and on_self(n):
                return True
            if isinstance(n, ast.AugAssign) and on_self(n.target):
                return True
            if isinstance(n, ast.Call) and isinstance(n.func, ast.Attribute):
                f = n.func
                if f.attr in _CONTAINER_WRITES and isinstance(f.value, (ast.Attribute, ast.Subscript)) and on_self(f.value):
                    return True
                if isinstance(f.value, ast.Name) and f.value.id == me and f.attr not in seen and f.attr != m.name:
                    t = net.lookup(f.attr)
                    if t is not None and not _is_reader_name(f.attr) and writes(t, (*seen, m.name)):
                        return True
        return False

    out: dict[str, str] = {}
    for name, m in sorted(net.methods.items()):
        ps = m.params()
        if len(ps) < 2 or _is_reader_name(name) or name.startswith("__") or isinstance(m.node, ast.Lambda):
            continue
        a = m.node.args
        first = (a.posonlyargs + a.args)[1] if len(a.posonlyargs + a.args) > 1 else None
        if first is None:
            continue
        ann = norm(first.annotation) if first.annotation is not None else ""
        if not (first.arg == "peer" or "Peer" in ann):
            continue
        if writes(m):
            out[name] = first.arg
    if not out:
        raise AnalysisError("anchor-lost: no method of Network registers a peer")
    ctx._c01_net_mutators = out              # type: ignore[attr-defined]
    return out


def _manual_auth_functions(ctx: Ctx) -> list[FuncInfo]:
    """functions (other than the wrappers and the definitions of _ez_unpack_auth) that obtain a verified auth payload by
    calling _ez_unpack_auth, or a helper of this repository that does and hands out verified material only"""
    skip = set()
    for deco in sorted(AUTH_DECOS):
        skip.add(id(_find_wrapper(ctx, deco)[0].node))
    found: dict[int, FuncInfo] = {}
    names = ["_ez_unpack_auth"]
    seen_names = set(names)
    for _round in range(3):
        nxt = []
        for nm in names:
            for _m, g, _c in ctx.repo.callers_of_name(nm):
                if g is None or isinstance(g.node, ast.Lambda) or g.name == "_ez_unpack_auth" or id(g.node) in skip \
                        or id(g.node) in found:
                    continue
                found[id(g.node)] = g
                if g.name not in seen_names and not g.name.startswith("__") and len(g.params()) >= 2 \
                        and _unpacker_summary(ctx, g, replay=False) is not None:
                    seen_names.add(g.name)
                    nxt.append(g.name)
        names = nxt
        if not names:
            break
    return sorted(found.values(), key=lambda g: (g.module.relpath, g.qualname))


def rule_manual_handlers(ctx: Ctx) -> None:
    """
    peer-from-auth-key for the handlers that decode by hand: a function that calls self._ez_unpack_auth(...) itself (no
    lazy_wrapper builds the peer for it) and then registers the sender in the peer graph - self.network.add_verified_peer(p),
    self.network.discover_services(p, ...), any method of Network that takes a peer first and writes membership - must hand
    over the key that signed: every value p can take is Peer(K, addr) or the registry entry stored under K, with
    K = <the verified auth payload>.public_key_bin.  `network.get_verified_by_address(addr) or Peer(K, addr)` registers /
    credits whoever is verified at that ADDRESS - another key than the one the signature was verified under.
    """
    mutators = _network_peer_mutators(ctx)
    n_sites = 0
    for fi in _manual_auth_functions(ctx):
        sites = []
        for c in calls(fi):
            f = c.func
            if not (isinstance(f, ast.Attribute) and f.attr in mutators):
                continue
            ch = chain(_expand(fi, f)) or ""
            if not (".network." in "." + ch and ch.endswith("network." + f.attr)):
                continue
            sites.append(c)
        if not sites:
            continue
        cfg = ctx.cfg(fi)
        cands = []
        for p in fi.params()[1:]:
            if _is_param_unmodified(fi, p) and _unpacker_calls(ctx, fi, p, replay=False):
                cands.append(p)
        if len(cands) != 1:
            raise AnalysisError(f"undecided: {fi.qualname} registers a peer next to _ez_unpack_auth, but which of its parameters "
                                f"is the verified datagram cannot be read ({cands})")
        data_name = cands[0]
        for c in sites:
            if not any(cfg.reachable(n) for n in cfg.nodes_for(c)):
                continue
            pname = mutators[c.func.attr]
            peer_arg = _kw_or_pos(c, 0, pname)
            if peer_arg is None or isinstance(peer_arg, ast.Starred) or any(kw.arg is None for kw in c.keywords) \
                    or any(isinstance(a, ast.Starred) for a in c.args):
                raise AnalysisError(f"undecided: {fi.qualname}: the peer argument of `{norm(c)}` cannot be read")
            ver = _dominating_unpacker(ctx, fi, cfg, c, data_name)
            if ver is None:
                ver = _dominating_verdict_helper(ctx, fi, _site_facts(ctx, fi, cfg, c), data_name)
            if ver is None:
                raise AnalysisError(f"undecided: {fi.qualname}: `{norm(c)}` is not dominated by the completion of the "
                                    "_ez_unpack_auth call(s) of the function")
            n_sites += 1
            alts = _alternatives(fi, peer_arg)
            kinds = [(alt, _peer_value_kind(ctx, fi, ver, _desugar_functional(fi, _expand(fi, alt)))) for alt in alts]
            bad = [(alt, k) for alt, k in kinds if k[0] == "bad"]
            unknown = [(alt, k) for alt, k in kinds if k[0] == "unknown"]
            if not bad and unknown:
                if _peer_from_helper(ctx, fi, ver, peer_arg, "", fi.name, 0):
                    unknown = []
                else:
                    raise AnalysisError(f"undecided: {fi.qualname}: cannot read where the peer given to `{norm(c)}` comes from "
                                        f"({unknown[0][1][1]})")
            ctx.check(not bad, "peer-from-auth-key", fi, c,
                      f"{fi.qualname}: the peer handed to network.{c.func.attr} is Peer(K, addr) / verified_by_public_key_bin.get(K) "
                      "/ [K] with K = public_key_bin of the auth payload verified by _ez_unpack_auth",
                      (f"{fi.qualname} verifies the signature under the key carried in the datagram but registers "
                       f"`{norm(bad[0][0])}` with network.{c.func.attr}: {bad[0][1][1]} - the identity the handler acts on is "
                       "not the key the signature was verified under") if bad else "")
    ctx.instance("peer-from-auth-key", _NETWORK_FILE,
                 f"{n_sites} registration(s) of a peer by functions that decode with _ez_unpack_auth themselves examined "
                 f"(network mutators: {', '.join(sorted(mutators))})", nontrivial=n_sites > 0)


# ------------------------------------------------------------------------------------------ effects before the verdict
_REGISTRY = "verified_by_public_key_bin"
_DICT_READS = {"get", "keys", "values", "items", "copy", "__contains__", "__getitem__", "__len__", "__iter__"}


def _is_reader_name(name: str) -> bool:
    return name.startswith(("get_", "is_", "has_")) or name in ("__str__", "__repr__", "__hash__", "__eq__")


def _registry_effects(ctx: Ctx, fi: FuncInfo, depth: int = 2, _stack: tuple = ()) -> list[tuple[ast.AST, str]]:
    """
    (site, what) for every place in fi that changes what the node believes about a verified peer: a (non-reader) method
    call on / an attribute store into an entry looked up in network.verified_by_public_key_bin, a change of that
    registry itself or a (non-reader) call on the network that owns it, and calls of helpers of this repository that
    do one of these (followed `depth` levels; the site is then the call of the helper).
    """
    cache = getattr(ctx, "_c01_effects", None)
    if cache is None:
        cache = ctx._c01_effects = {}            # type: ignore[attr-defined]
    key = (id(fi.node), depth)
    if key in cache:
        return cache[key][1]
    if id(fi.node) in _stack:
        return []

    def is_lookup(x) -> bool:
        x = strip_cast(x)
        if isinstance(x, ast.Call):
            c = chain(x.func) or ""
            return c.endswith(_REGISTRY + ".get") or c.endswith("get_" + _REGISTRY) or c.endswith(_REGISTRY + ".__getitem__") \
                or c.endswith(_REGISTRY + ".setdefault") or c.endswith(_REGISTRY + ".pop")
        if isinstance(x, ast.Subscript):
            return (chain(x.value) or "").endswith(_REGISTRY)
        return False

    def is_entry(e, d: int = 3) -> bool:
        """can e be an entry of the registry (any of its possible values is a lookup, or `lookup or fresh`)?"""
        for alt in _alternatives(fi, e):
            if is_lookup(alt):
                return True
            x = _desugar_functional(fi, _expand(fi, alt))
            if x is not alt and d > 0 and any(is_lookup(y) for y in _alternatives(fi, x)):
                return True
        return False

    out: list[tuple[ast.AST, str]] = []
    own_params = set(fi.params())
    for n in walk_no_nested(fi.node):
        if isinstance(n, ast.Call):
            f = n.func
            c = chain(_expand(fi, f)) or ""
            if isinstance(f, ast.Attribute):
                last = f.attr
                if is_entry(f.value) and not _is_reader_name(last):
                    out.append((n, f"`{norm(n)}` changes the verified-peer entry stored under the key named in the datagram"))
                    continue
                if c.endswith(f"{_REGISTRY}.{last}") and last not in _DICT_READS:
                    out.append((n, f"`{norm(n)}` changes the verified-peer registry"))
                    continue
                if ".network." in "." + c and c.endswith(f"network.{last}") and not _is_reader_name(last) \
                        and last not in ("snapshot",):
                    out.append((n, f"`{norm(n)}` changes the network's view of its peers"))
                    continue
            # helpers of this repository that have such an effect
            follow = depth > 0 and (
                (isinstance(f, ast.Name) and f.id not in own_params and not local_defs(fi, f.id))
                or (isinstance(f, ast.Attribute) and isinstance(f.value, ast.Name) and fi.params() and f.value.id == fi.params()[0]
                    and not _is_vs_call(n)))
            if follow:
                for h in _targets(ctx, fi, n):
                    if not isinstance(h, FuncInfo) or h.node is fi.node or isinstance(h.node, ast.Lambda) or h.name == "__init__":
                        continue
                    inner = _registry_effects(ctx, h, depth - 1, _stack + (id(fi.node),))
                    if inner:
                        out.append((n, f"`{norm(n.func)}(...)` runs {h.qualname}, where {inner[0][1]}"))
                        break
        elif isinstance(n, (ast.Attribute, ast.Subscript)) and isinstance(n.ctx, (ast.Store, ast.Del)):
            if is_entry(n.value):
                out.append((n, f"`{norm(n)}` is stored into the verified-peer entry found under the key named in the datagram"))
            elif isinstance(n, ast.Subscript) and (chain(_expand(fi, n.value)) or "").endswith(_REGISTRY):
                out.append((n, f"`{norm(n)}` writes the verified-peer registry"))
    cache[key] = (fi.node, out)
    return out


def rule_effects_after_verdict(ctx: Ctx) -> None:
    """
    A datagram that names key K in its authentication header proves nothing about K until its signature has been
    verified.  Necessary condition decided here: inside the authenticating wrappers (and _ez_unpack_auth) nothing that
    changes a verified-peer entry - in particular `peer.add_address(source_address)` on the entry looked up under K -
    is reachable without a positive verdict: otherwise anybody who knows K's PUBLIC key moves the verified peer K to an
    address of his choice with an unsigned datagram, i.e. makes the node attribute a datagram to a key he does not hold.
    """
    repo = ctx.repo
    todo: list[tuple[FuncInfo, str, str]] = []
    for deco in sorted(AUTH_DECOS):
        fi, _fname = _find_wrapper(ctx, deco)
        todo.append((fi, fi.params()[2], deco))
    base = repo.method("EZPackOverlay", "_ez_unpack_auth", LC)
    for o in repo.dispatch(base.cls, "_ez_unpack_auth"):
        if len(o.params()) >= 3:
            todo.append((o, o.params()[2], o.qualname))
    n_sites = 0
    examined = set()
    for fi, data_name, label in todo:
        if id(fi.node) in examined:
            continue
        examined.add(id(fi.node))
        cfg = ctx.cfg(fi)
        verifying = None
        for site, what in _registry_effects(ctx, fi):
            nodes = [n for n in cfg.nodes_for(site) if cfg.reachable(n)]
            if not nodes:
                continue
            if isinstance(site, ast.Call) and "(...)` runs " in what:
                # the change is made inside a helper.  When that helper is itself a verifying one (returns only after a
                # positive verdict on the datagram it is given - fi's own datagram), the change is judged INSIDE it,
                # against its own verdict, exactly as it is judged here for the wrappers
                if verifying is None:
                    verifying = {id(c): None for c, _k in _unpacker_calls(ctx, fi, data_name)}
                    # ... or hands its verdict back to fi next to the material (judged inside against that verdict too)
                    for c, k_ in _unpacker_calls(ctx, fi, data_name, verdict=True):
                        verifying.setdefault(id(c), k_[4])
                if id(site) in verifying:
                    moved = []
                    for t in _targets(ctx, fi, site):
                        vj = verifying[id(site)]
                        sm = _unpacker_summary(ctx, t) if vj is None else _verdict_summary(ctx, t).get(vj)
                        if sm is None:
                            moved = None
                            break
                        moved.append((t, sm["data_param"], f"{label} -> {t.qualname}"))
                    if moved:
                        todo.extend(moved)
                        continue
            n_sites += 1
            facts = _site_facts(ctx, fi, cfg, site)
            vcall, _asserted = _dominating_verification(ctx, fi, facts, site)
            ok = vcall is not None or _dominating_unpacker(ctx, fi, cfg, site, data_name) is not None \
                or _dominating_verdict_helper(ctx, fi, facts, data_name) is not None
            ctx.check(ok, "effect-after-verdict", fi, site,
                      f"{label}: change of a verified-peer entry only after a positive _verify_signature(...) verdict",
                      f"{label}: {what} on a path on which the signature of the datagram has not (yet) been found valid: "
                      "an unsigned datagram that merely NAMES a key in its authentication header already changes what the "
                      "node believes about the verified peer with that key (e.g. peer.add_address(source_address) re-homes "
                      "it to the sender's address), although the handler itself is never called",
                      [str(f) for f in facts])
    ctx.instance("effect-after-verdict", LC, f"{n_sites} change(s) of verified-peer state in the authenticating wrappers examined",
                 nontrivial=n_sites > 0)


def _check_vs_definition(ctx: Ctx, fi: FuncInfo, skip=(), override: bool = False, _depth: int = 0) -> list[dict]:
    """whole-prefix / payload-from-signed-bytes for one definition of _verify_signature; -> the shapes of its returns"""
    rets = [n for n in walk_no_nested(fi.node) if isinstance(n, ast.Return) and n not in skip]
    ctx.anchor(rets, f"{fi.qualname} return")
    dele = _vs_delegate(ctx, fi, rets) if _depth < 2 and not skip else None
    if dele is not None:
        # thin delegation: the delegate is the definition; what it is handed decides which parameter plays which role
        h, mapping = dele
        inner = _check_vs_definition(ctx, h, override=override, _depth=_depth + 1)
        shapes = [_translate_shape(fi, sh, mapping) for sh in inner]
        linked = all(s["data_param"] is not None and s["key_param"] is not None and s["data_param"] != s["key_param"]
                     for s in shapes if s["vcall"] is not None and not s.get("rejecting"))
        ctx.check(linked, "whole-prefix", fi, rets[0],
                  f"{fi.qualname} delegates to {h.qualname} with its own datagram and key parameters",
                  f"{fi.qualname} delegates to {h.qualname} but does not hand it its own datagram / the key carried in it "
                  "in the places where that function verifies them")
        return shapes
    all_shapes = [_vs_shape(ctx, fi, r) for r in rets]
    _mark_rejecting(all_shapes)
    shapes = []
    for r, sh in zip(rets, all_shapes):
        # all comparisons below are made on fully expanded expressions (single-assignment locals substituted, slices of
        # slices composed), so it does not matter which sub-expressions were hoisted into locals, in which order the
        # verdict and the remainder are returned, or whether the remainder is cut from the datagram or from the signed part
        shapes.append(sh)
        if sh.get("rejecting"):
            ctx.instance("whole-prefix", fi.where, f"{fi.qualname}: `{norm(r)}` hands back `invalid` (no handler runs)",
                         line=r.lineno)
            continue
        vc = sh["vcall"]
        data_name, key_param = sh["data_param"], sh["key_param"]
        good = False
        key_txt = None
        carried = None
        reason = "return value is not is_valid_signature(...) together with the remainder"

        def is_data(e) -> bool:
            return data_name is not None and isinstance(e, ast.Name) and e.id == data_name

        def siglen_ok(e) -> bool:
            return (isinstance(e, ast.Call) and call_name(e) == "get_signature_length" and len(e.args) == 1
                    and not e.keywords and key_txt is not None and norm(e.args[0]) == key_txt)

        def neg_len(e) -> bool:
            return isinstance(e, ast.UnaryOp) and isinstance(e.op, ast.USub) and siglen_ok(e.operand)

        if vc is not None:
            k, d, s = _kw_or_pos(vc, 0, "ec_key"), _kw_or_pos(vc, 1, "data"), _kw_or_pos(vc, 2, "signature")
            n_args = len(vc.args) + len(vc.keywords)
            key_ok = key_param is not None and n_args == 3
            if isinstance(k, ast.Call):
                key_txt = norm(k)
                if key_param is not None:
                    carried = norm(k.args[0])
            d_ok = (isinstance(d, ast.Subscript) and is_data(d.value)
                    and isinstance(d.slice, ast.Slice) and _none_or_zero(d.slice.lower) and d.slice.step is None
                    and d.slice.upper is not None and neg_len(d.slice.upper))
            s_ok = (isinstance(s, ast.Subscript) and is_data(s.value)
                    and isinstance(s.slice, ast.Slice) and s.slice.upper is None and s.slice.step is None
                    and s.slice.lower is not None and neg_len(s.slice.lower))
            good = key_ok and d_ok and s_ok
            reason = ("is_valid_signature must be given (key_from_public_bin(<key carried in the datagram>), data[:-L], "
                      f"data[-L:]) with L = get_signature_length(that key): key_ok={key_ok} signed_bytes_ok={d_ok} "
                      f"signature_slice_ok={s_ok} data_unmodified={data_name is not None}")
        if override:
            reason = (f"{fi.qualname} overrides _verify_signature - it is what `self._verify_signature(...)` in the "
                      f"authenticating wrappers runs for every signed handler of {fi.cls.name if fi.cls else '?'} - and does "
                      "not keep its promise: " + reason)
        ctx.check(good, "whole-prefix", fi, r, "_verify_signature verifies every byte before the signature with the carried key",
                  reason)
        # remainder: data[2+len(pk) : -L]
        second = sh["remainder"]
        if second is None and isinstance(sh["value"], ast.Tuple) and len(sh["value"].elts) == 2:
            second = sh["value"].elts[1]
        if data_name is None:
            # verification not recognised: the remainder is judged against the datagram parameter of the reviewed layout
            ps = fi.params()
            data_name = ps[2] if len(ps) > 2 and _is_param_unmodified(fi, ps[2]) else None
            if carried is None and len(ps) > 1:
                carried = f"{ps[1]}.public_key_bin"
        rem_ok = False
        if isinstance(second, ast.Subscript) and is_data(second.value) and isinstance(second.slice, ast.Slice) \
                and second.slice.upper is not None and second.slice.step is None:
            up = second.slice.upper
            lo = second.slice.lower
            # upper bound: -L with L the signature length (of the verification key when that one was recognised)
            up_ok = neg_len(up) if key_txt is not None else (
                isinstance(up, ast.UnaryOp) and isinstance(up.op, ast.USub) and isinstance(up.operand, ast.Call)
                and call_name(up.operand) == "get_signature_length")
            lo_ok = lo is not None and carried is not None and _sum_terms(_fold_ints(ctx, fi, lo)) == (2, [f"len({carried})"])
            rem_ok = up_ok and lo_ok
        ctx.check(rem_ok, "payload-from-signed-bytes", fi, r,
                  "remainder = data[2+len(key) : -L] (inside the signed bytes; the auth header is skipped exactly)",
                  "the remainder handed on for payload decoding is not the signed region minus the auth header")
    return shapes


def rule_verify_signature(ctx: Ctx) -> None:
    base = _vs_base(ctx)
    vs = _vs_contract(ctx)
    _check_vs_definition(ctx, base)
    # `self._verify_signature(...)` in the wrappers is dispatched on the overlay instance: an override in any overlay
    # class is what the authenticated handlers of that overlay really get, so it has to keep the same promise
    for o in ctx.repo.dispatch(base.cls, "_verify_signature"):
        if o is base:
            continue
        rets = [n for n in walk_no_nested(o.node) if isinstance(n, ast.Return)]
        ctx.anchor(rets, f"{o.qualname} return")
        rest = [r for r in rets if not _is_super_delegation(o, base, r)]
        for r in rets:
            if r not in rest:
                ctx.instance("whole-prefix", o.where, f"{o.qualname}: `{norm(r)}` delegates to the reviewed _verify_signature",
                             line=r.lineno)
        if not rest:
            continue
        before = len(ctx.findings)
        shapes = _check_vs_definition(ctx, o, skip=[r for r in rets if r not in rest], override=True)
        if len(ctx.findings) == before:
            # same promise also means: same places for datagram / key / verdict / remainder as the reviewed method
            op, bp = o.params(), base.params()
            same = all((op.index(s["data_param"]), op.index(s["key_param"]), s["key_kind"], s["verdict_idx"], s["remainder_idx"],
                        s["verdict_enc"])
                       == (bp.index(vs.data_param), bp.index(vs.key_param), vs.key_kind, vs.verdict_idx, vs.remainder_idx,
                           vs.verdict_enc)
                       for s in shapes if not s.get("rejecting"))
            ctx.check(same, "whole-prefix", o, o.node, f"{o.qualname}: same parameter / result layout as the reviewed method",
                      "an override of _verify_signature returns verdict / remainder in other places than the callers read them")


def _function_imports(fi: FuncInfo) -> dict:
    """module imports plus the imports made inside fi: local name -> (module, attribute | None)"""
    imports = dict(fi.module.imports)
    for n in walk_no_nested(fi.node):
        if isinstance(n, ast.ImportFrom) and not n.level:
            imports.update({a.asname or a.name: (n.module or "", a.name) for a in n.names})
        elif isinstance(n, ast.Import):
            imports.update({a.asname or a.name.split(".")[0]: (a.name if a.asname else a.name.split(".")[0], None)
                            for a in n.names})
    return imports


def _imported_as(fi: FuncInfo, f: ast.AST, module: str, names: tuple[str, ...]) -> bool:
    """is expression f (a callee) `<module>.<name>` / a name imported `from <module> import <name>`?"""
    imports = _function_imports(fi)
    if isinstance(f, ast.Name) and f.id not in _local_names(fi):
        return imports.get(f.id, (None, None))[0] == module and imports[f.id][1] in names
    if isinstance(f, ast.Attribute) and isinstance(f.value, ast.Name) and f.value.id not in _local_names(fi):
        return f.attr in names and imports.get(f.value.id) == (module, None)
    return False


def _builtin_chain(fi: FuncInfo, e: ast.AST) -> str | None:
    return e.id if isinstance(e, ast.Name) and not _module_binds(fi, e.id) else None


def _is_concat_function(fi: FuncInfo, f: ast.AST) -> bool:
    """operator.add / operator.concat / lambda a, b: a + b"""
    if _imported_as(fi, f, "operator", ("add", "concat", "iadd", "iconcat")):
        return True
    if isinstance(f, ast.Lambda) and len(f.args.args) == 2 and not (f.args.vararg or f.args.kwarg or f.args.kwonlyargs
                                                                     or f.args.defaults or f.args.posonlyargs):
        a, b = (x.arg for x in f.args.args)
        body = f.body
        return isinstance(body, ast.BinOp) and isinstance(body.op, ast.Add) and isinstance(body.left, ast.Name) \
            and isinstance(body.right, ast.Name) and (body.left.id, body.right.id) == (a, b)
    return False


def _sequence_items(fi: FuncInfo, seq: ast.AST, depth: int = 4) -> list[ast.AST] | None:
    """
    the item expressions, in order, of a sequence that is spelled out: a list / tuple display (also with `*display`
    items), a single-assignment local holding one that is never mutated, list(..) / tuple(..) / iter(..) of one,
    display + display, itertools.chain(d1, d2, ...) and chain.from_iterable(display of displays).  Else None.
    """
    seq = strip_cast(seq)
    if depth <= 0:
        return None
    if isinstance(seq, ast.Name):
        d = single_def(fi, seq.id)
        mutated = any(isinstance(n, ast.Attribute) and isinstance(n.value, ast.Name) and n.value.id == seq.id
                      for n in walk_no_nested(fi.node)) or \
            any(isinstance(n, ast.Subscript) and isinstance(n.ctx, (ast.Store, ast.Del)) and isinstance(n.value, ast.Name)
                and n.value.id == seq.id for n in walk_no_nested(fi.node)) or \
            any(isinstance(n, ast.AugAssign) and isinstance(n.target, ast.Name) and n.target.id == seq.id
                for n in walk_no_nested(fi.node))
        return _sequence_items(fi, d[0], depth - 1) if d is not None and d[1] is None and not mutated else None
    if isinstance(seq, (ast.List, ast.Tuple)):
        out: list[ast.AST] = []
        for x in seq.elts:
            if isinstance(x, ast.Starred):
                sub = _sequence_items(fi, x.value, depth - 1)
                if sub is None:
                    return None
                out.extend(sub)
            else:
                out.append(x)
        return out
    if isinstance(seq, ast.BinOp) and isinstance(seq.op, ast.Add):
        left, right = _sequence_items(fi, seq.left, depth - 1), _sequence_items(fi, seq.right, depth - 1)
        if left is None or right is None or not (isinstance(strip_cast(seq.left), (ast.List, ast.Tuple, ast.Name))):
            return None
        return left + right
    if isinstance(seq, ast.Call) and not seq.keywords and not any(isinstance(a, ast.Starred) for a in seq.args):
        if len(seq.args) == 1 and _builtin_chain(fi, seq.func) in ("list", "tuple", "iter"):
            return _sequence_items(fi, seq.args[0], depth - 1)
        if _imported_as(fi, seq.func, "itertools", ("chain",)):
            out = []
            for a in seq.args:
                sub = _sequence_items(fi, a, depth - 1)
                if sub is None:
                    return None
                out.extend(sub)
            return out
        f = seq.func
        if isinstance(f, ast.Attribute) and f.attr == "from_iterable" and _imported_as(fi, f.value, "itertools", ("chain",)) \
                and len(seq.args) == 1:
            outer = _sequence_items(fi, seq.args[0], depth - 1)
            if outer is None:
                return None
            out = []
            for a in outer:
                sub = _sequence_items(fi, a, depth - 1)
                if sub is None:
                    return None
                out.extend(sub)
            return out
    return None


def _is_empty_bytes_join(e: ast.AST, fi: FuncInfo) -> ast.AST | None:
    """the sequence argument when e is `b"".join(seq)` / `bytes.join(b"", seq)`, else None"""
    if not (isinstance(e, ast.Call) and isinstance(e.func, ast.Attribute) and e.func.attr == "join" and not e.keywords
            and not any(isinstance(a, ast.Starred) for a in e.args)):
        return None
    recv = e.func.value
    if len(e.args) == 1 and isinstance(recv, ast.Constant) and isinstance(recv.value, bytes) and recv.value == b"":
        return e.args[0]
    if len(e.args) == 2 and _builtin_chain(fi, recv) == "bytes" and isinstance(e.args[0], ast.Constant) \
            and isinstance(e.args[0].value, bytes) and e.args[0].value == b"":
        return e.args[1]
    return None


def _grown_items(fi: FuncInfo, st: ast.AST, name: str, kind: str = "list") -> list[ast.AST] | None:
    """the items statement `st` appends to the end of accumulator `name`.  kind 'list' (items are joined later):
    `name.append(x)` -> [x], `name.extend(<spelled-out sequence>)` / `name += <spelled-out sequence>` -> its items.
    kind 'bytes' (a bytearray; the items are the byte strings put in): `name += e` / `name.extend(e)` -> [e],
    `name.append(n)` -> [bytes([n])].  None: st is not such a statement."""
    if isinstance(st, ast.AugAssign):
        if not (isinstance(st.op, ast.Add) and isinstance(st.target, ast.Name) and st.target.id == name):
            return None
        if kind == "bytes":
            return [st.value]
        return _sequence_items(fi, st.value) if isinstance(strip_cast(st.value), (ast.List, ast.Tuple)) else None
    if isinstance(st, ast.Expr) and isinstance(st.value, ast.Call):
        c = st.value
        f = c.func
        if isinstance(f, ast.Attribute) and isinstance(f.value, ast.Name) and f.value.id == name and len(c.args) == 1 \
                and not c.keywords and not isinstance(c.args[0], ast.Starred):
            if f.attr == "append":
                if kind == "bytes":
                    one = ast.Call(func=ast.Name(id="bytes", ctx=ast.Load()),
                                   args=[ast.List(elts=[c.args[0]], ctx=ast.Load())], keywords=[])
                    return [ast.copy_location(one, c)] if not _module_binds(fi, "bytes") else None
                return [c.args[0]]
            if f.attr == "extend":
                if kind == "bytes":
                    return [c.args[0]]
                return _sequence_items(fi, c.args[0]) if isinstance(strip_cast(c.args[0]), (ast.List, ast.Tuple)) else None
    return None


def _bytearray_local(fi: FuncInfo, name: str) -> bool:
    """is `name` a local whose one plain binding is `bytearray(..)`?"""
    if name in fi.params():
        return False
    base = [d for d in _match_local_defs(fi, name) if not isinstance(d[0], ast.AugAssign)]
    v = strip_cast(base[0][1]) if len(base) == 1 and base[0][1] is not None and base[0][2] is None else None
    return isinstance(v, ast.Call) and _builtin_chain(fi, v.func) == "bytearray"


def _list_builder_at(cfg, fi: FuncInfo, node, name: str, kind: str = "list") -> list[list[tuple]] | None:
    """
    The contents of local list `name` on entry to CFG node `node`, when the list is a private accumulator of the
    function: bound exactly once, to a fresh spelled-out list (`[a, b]`, `[]`, `list(<display>)`); grown only at its END,
    by statements `name.append(x)` / `name.extend(<display>)` / `name += <display>`; and otherwise only READ as the
    argument of `b"".join(..)` (so it has no alias and nothing else can change it).  Its contents at a program point
    are then the initial items followed by the items of the growing statements that completed on the path taken (a
    growing statement whose argument raises appends nothing) - computed by forward propagation over the CFG, one item
    list per path class.  -> [[(cfg node at which the item expression is evaluated, item expression), ...], ...];
    None when the list is not such an accumulator or grows inside a loop (not followed).
    kind 'bytes': the same for a private bytearray - bound once to `bytearray()` / `bytearray(<bytes expression>)`, grown
    by `name += e` / `name.extend(e)` / `name.append(n)` (one byte), read only by bytes(name) / memoryview(name) /
    len(name) / as the data handed to create_signature / by `return name`; the items are the byte strings put in.
    """
    from ..model import enclosing_stmt
    if name in fi.params():
        return None
    defs = _match_local_defs(fi, name)
    base = [d for d in defs if not isinstance(d[0], ast.AugAssign)]
    if len(base) != 1 or base[0][1] is None or base[0][2] is not None or not isinstance(base[0][0], (ast.Assign, ast.AnnAssign)):
        return None
    init = strip_cast(base[0][1])
    if kind == "bytes":
        if not (isinstance(init, ast.Call) and _builtin_chain(fi, init.func) == "bytearray" and not init.keywords
                and len(init.args) <= 1 and not any(isinstance(a, ast.Starred) for a in init.args)):
            return None
        a0 = strip_cast(init.args[0]) if init.args else None
        if a0 is not None and not (isinstance(a0, (ast.BinOp, ast.Call, ast.Attribute, ast.Name))
                                   or (isinstance(a0, ast.Constant) and isinstance(a0.value, bytes))):
            return None                      # bytearray(<int>) is that many zero bytes, not a copy
        first = [] if a0 is None or (isinstance(a0, ast.Constant) and a0.value == b"") else [a0]
    elif isinstance(init, ast.Call) and _builtin_chain(fi, init.func) == "list" and not init.keywords and len(init.args) <= 1:
        first = _sequence_items(fi, init.args[0]) if init.args else []
    elif isinstance(init, ast.List):
        first = _sequence_items(fi, init)
    else:
        return None
    if first is None:
        return None
    effects: dict = {}                      # cfg node -> ("set" | "grow", items)
    for n in cfg.nodes_for(base[0][0]):
        effects[n] = ("set", first)
    for n in ast.walk(fi.node):
        if isinstance(n, ast.arg) and n.arg == name:
            return None                      # a nested scope has a parameter of that name: not followed
        if not (isinstance(n, ast.Name) and n.id == name):
            continue
        from ..model import enclosing_function
        if enclosing_function(n) is not fi.node:
            return None                      # read or written by a closure: not followed
        st = enclosing_stmt(n)
        if isinstance(n.ctx, ast.Store):
            if st is base[0][0]:
                continue
            items = _grown_items(fi, st, name, kind) if isinstance(st, ast.AugAssign) and st.target is n else None
            if items is None:
                return None
        elif isinstance(n.ctx, ast.Load):
            p = parent(n)
            if kind == "list" and isinstance(p, ast.Call) and _is_empty_bytes_join(p, fi) is n:
                continue
            if kind == "bytes" and (
                    (isinstance(p, ast.Return) and p.value is n)
                    or (isinstance(p, ast.Call) and p.args == [n] and not p.keywords
                        and _builtin_chain(fi, p.func) in ("bytes", "memoryview", "len"))
                    or (isinstance(p, ast.Call) and call_name(p) == "create_signature" and any(a is n for a in p.args))):
                continue
            items = _grown_items(fi, st, name, kind) if isinstance(p, ast.Attribute) and isinstance(st, ast.Expr) \
                and isinstance(st.value, ast.Call) and st.value.func is p else None
            if items is None:
                return None
        else:
            return None
        nodes = cfg.nodes_for(st)
        if not nodes:
            return None
        for x in nodes:
            effects[x] = ("grow", items)
    state: dict = {cfg.entry: {None}}       # None: the name is not bound yet
    todo = [cfg.entry]
    while todo:
        u = todo.pop()
        for v, lab in u.succ:
            out = set()
            for s in state[u]:
                eff = effects.get(u) if lab != "exc" else None
                if eff is None:
                    out.add(s)
                elif eff[0] == "set":
                    out.add(tuple((u, x) for x in eff[1]))
                elif s is not None:
                    out.add(s + tuple((u, x) for x in eff[1]))
            cur = state.setdefault(v, set())
            if not out <= cur:
                cur |= out
                if len(cur) > 32 or any(s is not None and len(s) > 64 for s in cur):
                    return None              # grows in a loop / too many path classes
                todo.append(v)
    return [list(s) for s in state.get(node, set()) if s is not None]


def _rebound_sequence(fi: FuncInfo, name: str) -> bool:
    """
    Is local `name` a sequence that the function RE-BINDS instead of mutating - `parts = (a, b)` ... `parts = (*parts, c)`
    / `parts = parts + (c,)` / `parts += (c,)` - and reads only in places that take its items in order: `*parts` inside a
    display, an operand of `+`, a constant slice `parts[1:]`, tuple(parts) / list(parts), `b"".join(parts)`?  Then no
    other name can refer to the object (no alias is ever made, it is never handed to other code), so at every program
    point its items are those of the definition that reaches the point (for `+=`: the items before, then the new ones).
    """
    from ..model import enclosing_function
    if name in fi.params():
        return False
    for n in ast.walk(fi.node):
        if isinstance(n, ast.arg) and n.arg == name:
            return False
        if isinstance(n, (ast.Global, ast.Nonlocal)) and name in n.names:
            return False
        if not (isinstance(n, ast.Name) and n.id == name):
            continue
        if enclosing_function(n) is not fi.node:
            return False
        p = parent(n)
        if isinstance(n.ctx, ast.Store):
            if isinstance(p, ast.Assign) and len(p.targets) == 1 and p.targets[0] is n:
                continue
            if isinstance(p, ast.AnnAssign) and p.target is n and p.value is not None:
                continue
            if isinstance(p, ast.AugAssign) and p.target is n and isinstance(p.op, ast.Add):
                continue
            return False
        if not isinstance(n.ctx, ast.Load):
            return False
        if isinstance(p, ast.Starred) and isinstance(parent(p), (ast.Tuple, ast.List)) and isinstance(parent(p).ctx, ast.Load):
            continue
        if isinstance(p, ast.BinOp) and isinstance(p.op, ast.Add):
            continue
        if isinstance(p, ast.Subscript) and p.value is n and isinstance(p.ctx, ast.Load) and isinstance(p.slice, ast.Slice):
            continue
        if isinstance(p, ast.Call) and p.args == [n] and not p.keywords and (
                _builtin_chain(fi, p.func) in ("tuple", "list") or _is_empty_bytes_join(p, fi) is n):
            continue
        return False
    return True


def _const_bound(e) -> tuple[bool, int | None]:
    """(is a constant slice bound, its value) - None / absent, an int literal, a negated int literal"""
    if e is None or (isinstance(e, ast.Constant) and e.value is None):
        return True, None
    if isinstance(e, ast.Constant) and type(e.value) is int:
        return True, e.value
    if isinstance(e, ast.UnaryOp) and isinstance(e.op, ast.USub) and isinstance(e.operand, ast.Constant) and type(e.operand.value) is int:
        return True, -e.operand.value
    return False, None


def _sequence_items_at(cfg, fi: FuncInfo, node, seq: ast.AST, depth: int = 8) -> list[list[tuple]] | None:
    """
    The items, in order, of sequence expression `seq` evaluated on entry to CFG node `node`: one list of (cfg node at
    which the item expression is evaluated, item expression) per combination of reaching definitions.  Follows displays
    (with `*s` items), `s + t`, tuple(s) / list(s), constant slices s[a:b], and locals that are re-bound rather than
    mutated (_rebound_sequence) through their reaching definitions.  None when it cannot be followed (loop-carried, ...).
    """
    seq = strip_cast(seq)
    if depth <= 0:
        return None
    if isinstance(seq, (ast.Tuple, ast.List)):
        acc: list[list[tuple]] = [[]]
        for x in seq.elts:
            sub = _sequence_items_at(cfg, fi, node, x.value, depth - 1) if isinstance(x, ast.Starred) else [[(node, x)]]
            if sub is None:
                return None
            acc = [a + b for a in acc for b in sub]
            if len(acc) > 32:
                return None
        return acc
    if isinstance(seq, ast.BinOp) and isinstance(seq.op, ast.Add):
        left, right = _sequence_items_at(cfg, fi, node, seq.left, depth - 1), _sequence_items_at(cfg, fi, node, seq.right, depth - 1)
        if left is None or right is None or len(left) * len(right) > 32:
            return None
        return [a + b for a in left for b in right]
    if isinstance(seq, ast.Call) and len(seq.args) == 1 and not seq.keywords and not isinstance(seq.args[0], ast.Starred) \
            and _builtin_chain(fi, seq.func) in ("tuple", "list"):
        return _sequence_items_at(cfg, fi, node, seq.args[0], depth - 1)
    if isinstance(seq, ast.Subscript) and isinstance(seq.slice, ast.Slice) and seq.slice.step is None:
        (ok_lo, lo), (ok_hi, hi) = _const_bound(seq.slice.lower), _const_bound(seq.slice.upper)
        base = _sequence_items_at(cfg, fi, node, seq.value, depth - 1) if ok_lo and ok_hi else None
        return None if base is None else [items[lo:hi] for items in base]
    if isinstance(seq, ast.Name) and local_defs(fi, seq.id) and _rebound_sequence(fi, seq.id):
        defs = {}
        for st, val, idx in local_defs(fi, seq.id):
            ns = cfg.nodes_for(st)
            if not ns or idx is not None or (val is None and not isinstance(st, ast.AugAssign)):
                return None
            for n in ns:
                defs[n] = (st, val)
        out: list[list[tuple]] = []
        for dn in _reaching(defs, cfg.entry).get(node, set()):
            if dn is None:
                continue                      # unassigned on this path: the read raises
            st, val = defs[dn]
            if isinstance(st, ast.AugAssign):
                val = ast.BinOp(left=ast.Name(id=seq.id, ctx=ast.Load()), op=ast.Add(), right=st.value)
            sub = _sequence_items_at(cfg, fi, dn, val, depth - 1)
            if sub is None:
                return None
            out.extend(sub)
            if len(out) > 32:
                return None
        return out or None
    return None


def _concat_items(cfg, fi: FuncInfo, alts: list[list[tuple]], depth: int) -> list[list[ast.AST]] | None:
    """the concatenation of the items of every alternative, each item followed to its leaf parts where it was evaluated"""
    out_: list[list[ast.AST]] = []
    for items in alts:
        if not items:
            return None
        acc_: list[list[ast.AST]] = [[]]
        for at, x in items:
            sub = _concat_parts_at(cfg, fi, at, x, depth - 1)
            if sub is None:
                return None
            acc_ = [a + b for a in acc_ for b in sub]
            if len(acc_) > 64:
                return None
        out_.extend(acc_)
    return out_


def _concat_parts_at(cfg, fi: FuncInfo, node, e: ast.AST, depth: int = 8) -> list[list[ast.AST]] | None:
    """
    The value of bytes expression `e` on entry to CFG node `node`, as a concatenation of leaf expressions: one list of
    parts per combination of reaching definitions (`x = a + b`, `x += c`, `x = x + c` are all followed).  None when a
    definition cannot be followed (loop-carried, tuple component, ...).
    """
    e = strip_cast(e)
    if depth <= 0:
        return None
    if isinstance(e, ast.BinOp) and isinstance(e.op, ast.Add):
        left, right = _concat_parts_at(cfg, fi, node, e.left, depth - 1), _concat_parts_at(cfg, fi, node, e.right, depth - 1)
        if left is None or right is None:
            return None
        return [a + b for a in left for b in right]
    seq = None
    joined = _is_empty_bytes_join(e, fi)
    acc_name, acc_kind = None, "list"
    if joined is not None and isinstance(strip_cast(joined), ast.Name) and _sequence_items(fi, joined) is None:
        acc_name = strip_cast(joined).id
    else:
        b = e
        if isinstance(b, ast.Call) and len(b.args) == 1 and not b.keywords and _builtin_chain(fi, b.func) in ("bytes", "memoryview"):
            b = strip_cast(b.args[0])                 # bytes(buf): the content of the bytearray `buf` at this point
        if isinstance(b, ast.Name) and _bytearray_local(fi, b.id):
            acc_name, acc_kind = b.id, "bytes"
    if acc_name is not None:
        # b"".join(parts), parts being a list that the function grows step by step (parts.append(x), parts += [y]):
        # the concatenation of what the list holds at this point, every item as it was when it was put in
        alts = _list_builder_at(cfg, fi, node, acc_name, acc_kind)
        if not alts and acc_kind == "list":
            # b"".join(parts), parts being re-bound instead of grown in place (`parts = (*parts, x)`): the concatenation
            # of the items of the definition that reaches this point
            alts = _sequence_items_at(cfg, fi, node, joined)
            return _concat_items(cfg, fi, alts, depth) if alts else None
        if not alts:
            return None
        out_: list[list[ast.AST]] = []
        for items in alts:
            if not items and acc_kind == "list":
                return None
            acc_: list[list[ast.AST]] = [[]]
            for at, x in items:
                sub = _concat_parts_at(cfg, fi, at, x, depth - 1)
                if sub is None:
                    return None
                acc_ = [a + b for a in acc_ for b in sub]
                if len(acc_) > 64:
                    return None
            out_.extend(acc_)
        return out_
    if isinstance(e, ast.Call) and isinstance(e.func, ast.Attribute) and e.func.attr == "join" and len(e.args) == 1 \
            and not e.keywords and isinstance(e.func.value, ast.Constant) and e.func.value.value == b"":
        # b"".join([a, b, c]) == a + b + c  (the list may sit in a single-assignment local that is not mutated)
        seq = _sequence_items(fi, e.args[0])
        if not seq:
            alts = _sequence_items_at(cfg, fi, node, e.args[0])     # a display / slice / sum over a re-bound sequence
            return _concat_items(cfg, fi, alts, depth) if alts else None
    elif isinstance(e, ast.Call) and not e.keywords and len(e.args) == 2 and not any(isinstance(a, ast.Starred) for a in e.args) \
            and (_imported_as(fi, e.func, "operator", ("add", "concat", "iadd", "iconcat"))
                 or (isinstance(e.func, ast.Attribute) and e.func.attr == "join"
                     and _builtin_chain(fi, e.func.value) == "bytes" and isinstance(e.args[0], ast.Constant)
                     and e.args[0].value == b"")):
        if isinstance(e.func, ast.Attribute) and e.func.attr == "join":
            seq = _sequence_items(fi, e.args[1])          # bytes.join(b"", [a, b])
            if not seq:
                return None
        else:
            seq = list(e.args)                            # operator.add(a, b) == a + b
    elif isinstance(e, ast.BinOp) and isinstance(e.op, ast.Mod) and isinstance(e.left, ast.Constant) \
            and isinstance(e.left.value, bytes) and e.left.value and len(e.left.value) % 2 == 0 \
            and all(e.left.value[i:i + 2] in (b"%b", b"%s") for i in range(0, len(e.left.value), 2)) \
            and isinstance(e.right, ast.Tuple) and len(e.right.elts) == len(e.left.value) // 2 \
            and not any(isinstance(x, ast.Starred) for x in e.right.elts):
        seq = list(e.right.elts)                          # b"%b%b" % (a, b) == a + b  (bytes operands)
    elif isinstance(e, ast.Call) and isinstance(e.func, ast.Attribute) and e.func.attr == "__add__" and len(e.args) == 1 \
            and not e.keywords and not isinstance(e.args[0], ast.Starred):
        seq = [e.func.value, e.args[0]]                   # a.__add__(b) == a + b
    elif isinstance(e, ast.Call) and not e.keywords and 2 <= len(e.args) <= 3 \
            and _imported_as(fi, e.func, "functools", ("reduce",)) and _is_concat_function(fi, e.args[0]):
        # reduce(add, [a, b, c][, start]) == start + a + b + c
        items = _sequence_items(fi, e.args[1])
        if not items:
            return None
        seq = ([e.args[2]] if len(e.args) == 3 else []) + items
    if seq is not None:
        acc: list[list[ast.AST]] = [[]]
        for x in seq:
            sub = _concat_parts_at(cfg, fi, node, x, depth - 1)
            if sub is None:
                return None
            acc = [a + b for a in acc for b in sub]
        return acc
    if isinstance(e, ast.Name) and e.id not in fi.params() and local_defs(fi, e.id):
        defs = {}
        for st, val, idx in local_defs(fi, e.id):
            for n in cfg.nodes_for(st):
                defs[n] = (st, val, idx)
        out: list[list[ast.AST]] = []
        for dn in _reaching(defs, cfg.entry).get(node, set()):
            if dn is None:
                continue                      # unassigned on this path: the read raises, nothing is signed / sent
            st, val, idx = defs[dn]
            if isinstance(st, ast.AugAssign) and isinstance(st.op, ast.Add) and isinstance(st.target, ast.Name):
                sub = _concat_parts_at(cfg, fi, dn, ast.BinOp(left=st.target, op=ast.Add(), right=st.value), depth - 1)
            elif val is not None and idx is None:
                sub = _concat_parts_at(cfg, fi, dn, val, depth - 1)
            else:
                sub = None
            if sub is None:
                return None
            out.extend(sub)
        return out
    return [[e]]


def _rebinds_sequence(fi: FuncInfo, st, value) -> bool:
    """is `st` the statement `<name> = <value>` for a local that is a re-bound sequence (see _rebound_sequence)?"""
    if isinstance(st, ast.Assign) and st.value is value and len(st.targets) == 1 and isinstance(st.targets[0], ast.Name):
        return _rebound_sequence(fi, st.targets[0].id)
    if isinstance(st, ast.AnnAssign) and st.value is value and isinstance(st.target, ast.Name):
        return _rebound_sequence(fi, st.target.id)
    return False


def _signature_flow(fi: FuncInfo, cfg, sig: ast.AST) -> tuple[list, bool, bool]:
    """
    Where the value of expression `sig` (a signature) ends up inside fi:
    ([(cfg nodes of the appending statement, buffer expression it is appended to)], returned as such?, lost track?).
    Followed through cast(), conditional expressions / `or` (the other alternative appends nothing signed), and locals.
    """
    from ..model import parent
    appended, returned, lost = [], False, False
    todo, seen = [sig], set()
    while todo:
        s = todo.pop()
        if id(s) in seen:
            continue
        seen.add(id(s))
        p = parent(s)
        while True:
            if isinstance(p, ast.Call) and strip_cast(p) is s and p is not s:                       # cast(T, sig)
                s, p = p, parent(p)
            elif isinstance(p, ast.IfExp) and (p.body is s or p.orelse is s):                        # sig if c else b""
                s, p = p, parent(p)
            elif isinstance(p, ast.BoolOp) and isinstance(p.op, ast.Or) and any(v is s for v in p.values):
                s, p = p, parent(p)
            else:
                break
        if isinstance(p, ast.AugAssign) and isinstance(p.op, ast.Add) and p.value is s and isinstance(p.target, ast.Name):
            appended.append((cfg.nodes_for(p), p.target))
        elif isinstance(p, ast.BinOp) and isinstance(p.op, ast.Add) and p.right is s:
            appended.append((cfg.nodes_for(p), p.left))
        elif isinstance(p, ast.Call) and p.args == [s] and not p.keywords and isinstance(p.func, ast.Attribute) \
                and p.func.attr == "extend" and isinstance(p.func.value, ast.Name) and isinstance(parent(p), ast.Expr) \
                and _bytearray_local(fi, p.func.value.id):
            appended.append((cfg.nodes_for(p), p.func.value))       # buf.extend(sig) on a bytearray is buf += sig
        elif isinstance(p, ast.Call) and p.args == [s] and not p.keywords and isinstance(p.func, ast.Attribute) \
                and p.func.attr == "append" and isinstance(p.func.value, ast.Name) and isinstance(parent(p), ast.Expr):
            # parts.append(sig): the signature is appended to what the list `parts` holds at this point, joined
            # (_concat_parts_at follows the list only when every read of it is b"".join(parts))
            before = ast.Call(func=ast.Attribute(value=ast.Constant(value=b""), attr="join", ctx=ast.Load()),
                              args=[ast.Name(id=p.func.value.id, ctx=ast.Load())], keywords=[])
            appended.append((cfg.nodes_for(p), before))
        elif isinstance(p, (ast.List, ast.Tuple)) and p.elts == [s] and (
                (isinstance(parent(p), ast.AugAssign) and isinstance(parent(p).op, ast.Add) and parent(p).value is p
                 and isinstance(parent(p).target, ast.Name))
                or (isinstance(parent(p), ast.Call) and parent(p).args == [p] and not parent(p).keywords
                    and isinstance(parent(p).func, ast.Attribute) and parent(p).func.attr == "extend"
                    and isinstance(parent(p).func.value, ast.Name) and isinstance(parent(parent(p)), ast.Expr))):
            # parts += [sig] / parts.extend([sig]): likewise
            pp = parent(p)
            lname = pp.target.id if isinstance(pp, ast.AugAssign) else pp.func.value.id
            before = ast.Call(func=ast.Attribute(value=ast.Constant(value=b""), attr="join", ctx=ast.Load()),
                              args=[ast.Name(id=lname, ctx=ast.Load())], keywords=[])
            appended.append((cfg.nodes_for(pp), before))
        elif isinstance(p, (ast.List, ast.Tuple)) and len(p.elts) >= 2 and p.elts[-1] is s and isinstance(parent(p), ast.Call) \
                and isinstance(parent(p).func, ast.Attribute) and parent(p).func.attr == "join" and parent(p).args == [p] \
                and isinstance(parent(p).func.value, ast.Constant) and parent(p).func.value.value == b"":
            # b"".join([a, b, sig]): the signature is appended to a + b
            before = ast.Call(func=parent(p).func, args=[ast.List(elts=list(p.elts[:-1]), ctx=ast.Load())], keywords=[])
            appended.append((cfg.nodes_for(p), before))
        elif isinstance(p, (ast.List, ast.Tuple)) and isinstance(p.ctx, ast.Load) and p.elts and p.elts[-1] is s and (
                (len(p.elts) >= 2 and _rebinds_sequence(fi, parent(p), p))
                or (len(p.elts) == 1 and isinstance(parent(p), ast.BinOp) and isinstance(parent(p).op, ast.Add)
                    and parent(p).right is p and _rebinds_sequence(fi, parent(parent(p)), parent(p)))):
            # parts = (*parts, sig) / parts = parts + (sig,): the re-bound sequence is only ever joined (_rebound_sequence),
            # so the signature is appended to the concatenation of the items that come before it
            first = list(p.elts[:-1]) if len(p.elts) >= 2 else [ast.Starred(value=parent(p).left, ctx=ast.Load())]
            st_ = parent(p) if len(p.elts) >= 2 else parent(parent(p))
            before = ast.Call(func=ast.Attribute(value=ast.Constant(value=b""), attr="join", ctx=ast.Load()),
                              args=[ast.List(elts=first, ctx=ast.Load())], keywords=[])
            appended.append((cfg.nodes_for(st_), before))
        elif isinstance(p, (ast.Assign, ast.AnnAssign)) and p.value is s:
            tgts = p.targets if isinstance(p, ast.Assign) else [p.target]
            if len(tgts) == 1 and isinstance(tgts[0], ast.Name):
                name = tgts[0].id
                todo.extend(n for n in walk_no_nested(fi.node) if isinstance(n, ast.Name) and n.id == name
                            and isinstance(n.ctx, ast.Load))
            else:
                lost = True
        elif isinstance(p, ast.Return) and p.value is s:
            returned = True
        elif isinstance(p, ast.Expr):
            pass                                     # computed and dropped
        else:
            lost = True
    return appended, returned, lost


def _one_byte_format(v) -> bool:
    return isinstance(v, str) and v.lstrip("@=<>!") in ("B", "b", "c") and len(v) <= 2


def _is_single_byte(ctx: Ctx, fi: FuncInfo, x: ast.AST) -> bool:
    """the message-id byte: bytes([n]) / bytes((n,)), n.to_bytes(1, ..), struct.pack("B", n), <Struct("B")>.pack(n)"""
    x = strip_cast(x)
    if not isinstance(x, ast.Call) or any(isinstance(a, ast.Starred) for a in x.args):
        return False
    if chain(x.func) == "bytes":
        return True
    f = x.func
    if isinstance(f, ast.Attribute) and f.attr == "to_bytes" and x.args:
        n = x.args[1] if _builtin_chain(fi, f.value) == "int" and len(x.args) > 1 else x.args[0]
        return _const(ctx, fi, n) == 1
    if _imported_as(fi, f, "struct", ("pack",)) and len(x.args) == 2:
        return _one_byte_format(ctx.repo.resolve_const(fi.module, x.args[0], fi.cls))
    if isinstance(f, ast.Attribute) and f.attr == "pack" and len(x.args) == 1 and not x.keywords:
        # a precompiled struct.Struct held in a module constant / class attribute
        recv = strip_cast(f.value)
        made = None
        if isinstance(recv, ast.Name) and recv.id not in _local_names(fi):
            r = ctx.repo.resolve_name(fi.module, recv.id)
            made = r[2] if isinstance(r, tuple) and r[0] == "const" else None
        elif isinstance(recv, ast.Name):
            d = single_def(fi, recv.id)
            made = d[0] if d is not None and d[1] is None else None
        elif isinstance(recv, ast.Attribute) and isinstance(recv.value, ast.Name) and recv.value.id in ("self", "cls") \
                and fi.cls is not None:
            made = fi.cls.lookup_attr(recv.attr)
        made = strip_cast(made) if made is not None else None
        if isinstance(made, ast.Call) and call_name(made) == "Struct" and len(made.args) == 1 and not made.keywords:
            return _one_byte_format(ctx.repo.resolve_const(fi.module, made.args[0], fi.cls))
    return False


def _called_from_overlay(ctx: Ctx, f: FuncInfo, depth: int = 2) -> bool:
    """is module-level function f called (by name) from a method of an overlay class, directly or through such functions?"""
    for _m, g, call2 in ctx.repo.callers_of_name(f.name):
        if g is None or g.node is f.node:
            continue
        if not any(_is_function(t, f) for t in _targets(ctx, g, call2)):
            continue
        if g.cls is not None and g.cls.is_subclass_of("Overlay"):
            return True
        if g.cls is None and depth > 0 and _called_from_overlay(ctx, g, depth - 1):
            return True
    return False


def rule_sign_side(ctx: Ctx) -> None:
    repo = ctx.repo
    from ..model import enclosing_function, enclosing_stmt
    sites = []                          # (function, expression that yields the signature, expression that was signed)
    pre_appended = set()                # id(call) of helper calls whose value is the signed buffer WITH the signature appended
    for fi in repo.all_functions():
        for c in calls(fi, "create_signature"):
            if fi.cls is not None and fi.cls.name == "ECCrypto":
                continue
            if fi.cls is not None and (fi.cls.is_subclass_of("Overlay")):
                sites.append((fi, c, arg(c, 1, "data"), 0))
            elif fi.cls is None and not isinstance(fi.node, ast.Lambda) and enclosing_function(fi.node) is None \
                    and not fi.module.relpath.startswith(_TRUSTED_API) and _called_from_overlay(ctx, fi):
                # signing code that was moved out of the overlay into a module-level function it calls
                sites.append((fi, c, arg(c, 1, "data"), 0))
        if fi.cls is not None and fi.cls.is_subclass_of("Overlay") and any(
                isinstance(n, ast.Attribute) and n.attr == "create_signature" and not (
                    isinstance(parent(n), ast.Call) and parent(n).func is n) for n in walk_no_nested(fi.node)):
            # create_signature handed to functools.partial / operator.methodcaller: the calls that apply the result
            for c in calls(fi):
                if isinstance(strip_cast(resolve(fi, c.func)), ast.Call):
                    full = _desugar_functional(fi, _expand(fi, c))
                    if isinstance(full, ast.Call) and call_name(full) == "create_signature":
                        signed = arg(full, 1, "data")
                        # the expression as written at the call (a local that is re-assigned must be read there)
                        orig = [a for a in ast.walk(c) if isinstance(a, ast.Name) and signed is not None
                                and isinstance(signed, ast.Name) and a.id == signed.id]
                        sites.append((fi, c, orig[0] if orig else signed, 0))
    # anchor floor: signing sites, plus call sites of the signing functions from other overlay methods (two packers that
    # were merged into one still sign for two callers)
    signing = {id(f.node): f for f, _, _, _ in sites}
    n_delegating = 0
    if len(sites) < 2:
        for f in signing.values():
            for _m, g, call2 in repo.callers_of_name(f.name):
                if g is not None and g.cls is not None and g.cls.is_subclass_of("Overlay") and id(g.node) not in signing \
                        and any(t.node is f.node for t in _targets(ctx, g, call2)):
                    n_delegating += 1
    ctx.floor("sign-covers-all", len(sites) + n_delegating, 2)
    done = set()
    while sites:
        fi, c, signed, depth = sites.pop(0)
        if id(c) in done:
            continue
        done.add(id(c))
        cfg = ctx.cfg(fi)
        st = enclosing_stmt(c)
        nodes = cfg.nodes_for(c)
        ok = False
        reason = "signature is not appended to the very buffer that was signed"

        def texts(alts, fi=fi):
            return None if alts is None else sorted({tuple(_xnorm(fi, p) for p in parts) for parts in alts})

        # where the signature is appended: `B += sig`, `... = B + sig` / `return B + sig`, sig being the call itself, a
        # conditional expression around it, or a local that holds it
        handed_on = id(c) in pre_appended
        appended_to, returned, lost = ([], False, False) if handed_on else _signature_flow(fi, cfg, c)
        signed_param = strip_cast(signed).id if signed is not None and isinstance(strip_cast(signed), ast.Name) \
            and _is_param_unmodified(fi, strip_cast(signed).id) else None
        # a signing helper: signs its own parameter and returns the signature, or that parameter with the signature
        # appended (and nothing else); what matters is what its callers hand in and - for the bare signature - where they
        # put the result
        appends_own = False
        if signed_param is not None and appended_to and not lost and not handed_on:
            rets = [n for n in walk_no_nested(fi.node) if isinstance(n, ast.Return)]
            appends_own = bool(rets)
            for ns, buf in appended_to:
                per = [_concat_parts_at(cfg, fi, n, buf) for n in ns]
                got = None if (not per or any(p is None for p in per)) else [a for p in per for a in p]
                appends_own = appends_own and got is not None and texts(got) == [(signed_param,)]
            # every value the helper returns is that buffer + signature, or the untouched parameter (`if sig ... else packet`)
            for r in rets:
                alts = _alternatives(fi, r.value) if r.value is not None else []
                for v in alts:
                    v = strip_cast(v)
                    if isinstance(v, ast.Name) and v.id == signed_param:
                        continue
                    if not any(x is c for x in ast.walk(v)) and not (
                            isinstance(v, ast.Name) and any(buf is not None and isinstance(strip_cast(buf), ast.Name)
                                                            and strip_cast(buf).id == v.id for _ns, buf in appended_to)):
                        appends_own = False
                if not alts:
                    appends_own = False
        if ((returned and not appended_to and not lost) or appends_own) and depth < 2 and signed_param is not None \
                and (fi.cls is not None or enclosing_function(fi.node) is None):
            pname = signed_param
            callers = []
            n_uses = 0
            for _m, g, call2 in repo.callers_of_name(fi.name):
                if g is None or g.node is fi.node:
                    continue
                if not any(_is_function(t, fi) for t in _targets(ctx, g, call2)):
                    continue
                is_method = fi.cls is not None and not any(chain(d) == "staticmethod" for d in fi.node.decorator_list)
                bound = _bind_call(call2, fi, receiver=is_method)
                callers.append((g, call2, bound.get(pname) if bound else None, depth + 1))
            if fi.cls is not None:
                n_uses = len([n for _m, _g, n in repo.attribute_uses(fi.name)])
            else:
                # a module-level function: every mention of its name outside import statements is one of these calls
                for m in repo.modules.values():
                    for n in ast.walk(m.tree):
                        if (isinstance(n, ast.Name) and n.id == fi.name and isinstance(n.ctx, ast.Load)) or \
                                (isinstance(n, ast.Attribute) and n.attr == fi.name):
                            n_uses += 1
            if callers and n_uses == len(callers):
                ctx.instance("sign-covers-all", fi.where, f"{fi.qualname}: signs its parameter `{pname}` and returns "
                             + ("that buffer with the signature appended" if appends_own else "the signature")
                             + f"; judged at its {len(callers)} call site(s)", line=st.lineno)
                if appends_own:
                    pre_appended.update(id(call2) for _g, call2, _a, _d in callers)
                sites.extend(callers)
                continue
        signed_alts = None
        if signed is not None and nodes:
            per = [_concat_parts_at(cfg, fi, n, signed) for n in nodes]
            signed_alts = None if any(p is None for p in per) else [a for p in per for a in p]
        if signed_alts and (handed_on or (appended_to and not lost)):
            same = True
            for ns, buf in appended_to:
                per = [_concat_parts_at(cfg, fi, n, buf) for n in ns]
                got = None if (not per or any(p is None for p in per)) else [a for p in per for a in p]
                same = same and got is not None and texts(got) == texts(signed_alts)
            # every possible content of the signed buffer: overlay prefix first, then the message id byte, and the payloads
            def is_prefix(p, fi=fi) -> bool:
                return _xnorm(fi, p) in ("prefix", "self._prefix")

            def is_msg(p, fi=fi) -> bool:
                return _is_single_byte(ctx, fi, _expand(fi, p))

            starts_with_prefix = all(parts and is_prefix(parts[0]) for parts in signed_alts)
            has_msg = all(len(parts) > 1 and is_msg(parts[1]) for parts in signed_alts)
            packs = all(any(mentions(_expand(fi, p), "pack_serializable_list") for p in parts[2:]) for parts in signed_alts)
            ok = same and starts_with_prefix and has_msg and packs
            reason = (f"signed buffer must be prefix + bytes([msg_id]) + packed payloads and the signature must be appended to "
                      f"exactly that buffer: appended_to_signed={same} prefix_first={starts_with_prefix} msg_id={has_msg} "
                      f"payloads={packs}")
        elif signed is not None and nodes and signed_alts is None:
            raise AnalysisError(f"undecided: cannot follow how the signed buffer `{norm(signed)}` is built in {fi.qualname}")
        ctx.check(ok, "sign-covers-all", fi, st, "signature computed over prefix+msg_id+payloads and appended to it", reason)


def _suppressed_types(fi: FuncInfo, item: ast.withitem) -> list[ast.AST] | None:
    """the exception classes E... when the context manager is `contextlib.suppress(E...)` (not bound with `as`)"""
    e = item.context_expr
    if item.optional_vars is not None or not isinstance(e, ast.Call) or e.keywords or not e.args \
            or any(isinstance(a, ast.Starred) for a in e.args):
        return None
    imports = _function_imports(fi)          # an import inside the function binds the name for the function
    f = e.func
    if isinstance(f, ast.Name) and f.id not in _local_names(fi) and imports.get(f.id) == ("contextlib", "suppress"):
        return list(e.args)
    if isinstance(f, ast.Attribute) and f.attr == "suppress" and isinstance(f.value, ast.Name) \
            and f.value.id not in _local_names(fi) and imports.get(f.value.id) == ("contextlib", None):
        return list(e.args)
    return None


def _without_suppress(ctx: Ctx, fi: FuncInfo) -> FuncInfo:
    """
    fi, or - when it uses `with contextlib.suppress(E...): BODY` - a copy of it in which every such statement is spelled
    `try: BODY` / `except (E...): pass`, which is what it means (suppress.__exit__ swallows exactly the exceptions that
    are instances of E... and execution continues after the statement).  The engine's CFG treats a `with` body like a
    plain block (an exception leaves the function), so the copy is what has to be analysed.  Several items of one
    `with` are nested left to right, as the language defines.
    """
    from ..model import clone, parent, set_parents
    if not any(isinstance(n, ast.With) and any(_suppressed_types(fi, i) is not None for i in n.items)
               for n in walk_no_nested(fi.node)):
        return fi
    cache = getattr(ctx, "_c01_desugared", None)
    if cache is None:
        cache = ctx._c01_desugared = {}       # type: ignore[attr-defined]
    if id(fi.node) in cache:
        return cache[id(fi.node)][1]
    new = clone(fi.node)

    def rewrite_block(stmts: list) -> list:
        out = []
        for st in stmts:
            for f in ("body", "orelse", "finalbody"):
                v = getattr(st, f, None)
                if isinstance(v, list) and v and isinstance(v[0], ast.stmt) \
                        and not isinstance(st, (ast.FunctionDef, ast.AsyncFunctionDef, ast.ClassDef)):
                    setattr(st, f, rewrite_block(v))
            for h in getattr(st, "handlers", []) or []:
                h.body = rewrite_block(h.body)
            for c in getattr(st, "cases", []) or []:
                c.body = rewrite_block(c.body)
            if isinstance(st, ast.With) and any(_suppressed_types(fi, i) is not None for i in st.items):
                inner = st.body
                for item in reversed(st.items):
                    types = _suppressed_types(fi, item)
                    if types is None:
                        w = ast.With(items=[item], body=inner)
                    else:
                        t = types[0] if len(types) == 1 else ast.Tuple(elts=types, ctx=ast.Load())
                        h = ast.copy_location(ast.ExceptHandler(type=t, name=None, body=[ast.copy_location(ast.Pass(), st)]), st)
                        w = ast.Try(body=inner, handlers=[h], orelse=[], finalbody=[])
                    inner = [ast.copy_location(w, st)]
                out.extend(inner)
            else:
                out.append(st)
        return out

    new.body = rewrite_block(new.body)
    ast.fix_missing_locations(new)
    set_parents(new)
    new._parent = parent(fi.node)         # type: ignore[attr-defined]
    nfi = FuncInfo(fi.name, fi.qualname, new, fi.module, fi.cls)
    new._info = nfi                       # type: ignore[attr-defined]
    cache[id(fi.node)] = (fi.node, nfi)
    return nfi


_PURE_BUILTINS = ("len", "bool", "isinstance", "int", "bytes", "tuple")


def _pure_expr(fi: FuncInfo, e: ast.AST) -> bool:
    """evaluating e twice in a row yields the same value and has no effect: names, constants, attribute / subscript
    reads, comparisons, boolean / arithmetic operators and len()/bool()/isinstance()/... of such"""
    for n in ast.walk(e):
        if isinstance(n, ast.Call):
            if not (isinstance(n.func, ast.Name) and n.func.id in _PURE_BUILTINS and _builtin_chain(fi, n.func) == n.func.id) \
                    or n.keywords or any(isinstance(a, ast.Starred) for a in n.args):
                return False
        elif not isinstance(n, (ast.Name, ast.Constant, ast.Attribute, ast.Subscript, ast.Slice, ast.Compare, ast.BoolOp,
                                ast.UnaryOp, ast.BinOp, ast.Tuple, ast.expr_context, ast.cmpop, ast.boolop, ast.unaryop,
                                ast.operator)):
            return False
    return True


def _bool_valued(fi: FuncInfo, e: ast.AST) -> bool:
    """e evaluates to True or False (never another object): not X, bool(X), is / in tests, comparisons of len()s and
    integer constants, ==/!= of subscripts / slices / names / attributes (builtin bytes, ints, strings, None, tuples:
    the values this repository compares), and/or of such"""
    e = strip_cast(e)
    if isinstance(e, ast.Constant):
        return isinstance(e.value, bool)
    if isinstance(e, ast.UnaryOp) and isinstance(e.op, ast.Not):
        return True
    if isinstance(e, ast.BoolOp):
        return all(_bool_valued(fi, v) for v in e.values)
    if isinstance(e, ast.Compare):
        return True
    if isinstance(e, ast.Call) and isinstance(e.func, ast.Name) and e.func.id in ("bool", "isinstance", "callable") \
            and _builtin_chain(fi, e.func) == e.func.id:
        return True
    return False


def _without_match(ctx: Ctx, fi: FuncInfo) -> FuncInfo:
    """
    fi, or - when it has `match (e0, e1, ...):` statements over a tuple DISPLAY whose cases are fixed-length sequence
    patterns of values / singletons / captures / wildcards / or-patterns (or a bare wildcard) - a copy in which each such
    statement is the if/elif chain the language executes for it: the elements are evaluated once, left to right
    (`_m_i = e_i`), then the first case whose sub-patterns all match runs (`x == V` for a value pattern, `x is S` for a
    singleton, a capture binds and always matches).  A display of n elements always matches the length test of an
    n-pattern and never that of another length.  Where an element is a pure expression the tests are written over the
    element itself instead of `_m_i` (same value: nothing runs between the evaluation and the tests); `x is True` over
    an element that can only be True or False is written `x`, `x is False` as `not x`.  A guard that reads a capture of
    its own case, star / mapping / class patterns, a non-display subject: the statement is left as it is (the CFG then
    lets every case be entered without a fact, which loses guards but invents none).
    The engine's load-time normaliser does this only for displays of plain names.
    """
    from ..model import clone, parent, set_parents
    if isinstance(fi.node, ast.Lambda) or not any(isinstance(n, ast.Match) for n in walk_no_nested(fi.node)):
        return fi
    cache = getattr(ctx, "_c01_nomatch", None)
    if cache is None:
        cache = ctx._c01_nomatch = {}       # type: ignore[attr-defined]
    if id(fi.node) in cache:
        return cache[id(fi.node)][1]
    new = clone(fi.node)
    counter = [0]
    changed = [False]

    def sub_pattern(p, ref, boolish):
        """(condition | None, captures) of one sub-pattern against the element denoted by ref, None: not expressible"""
        if isinstance(p, ast.MatchValue):
            return ast.Compare(left=clone(ref), ops=[ast.Eq()], comparators=[clone(p.value)]), []
        if isinstance(p, ast.MatchSingleton):
            if boolish and p.value is True:
                return clone(ref), []
            if boolish and p.value is False:
                return ast.UnaryOp(op=ast.Not(), operand=clone(ref)), []
            return ast.Compare(left=clone(ref), ops=[ast.Is()], comparators=[ast.Constant(value=p.value)]), []
        if isinstance(p, ast.MatchAs) and p.pattern is None:
            return None, ([(p.name, clone(ref))] if p.name else [])
        if isinstance(p, ast.MatchAs):
            r = sub_pattern(p.pattern, ref, boolish)
            if r is None:
                return None
            return r[0], r[1] + ([(p.name, clone(ref))] if p.name else [])
        if isinstance(p, ast.MatchOr):
            conds = []
            for q in p.patterns:
                r = sub_pattern(q, ref, boolish)
                if r is None or r[1]:
                    return None
                if r[0] is None:
                    return None, []
                conds.append(r[0])
            return ast.BoolOp(op=ast.Or(), values=conds), []
        return None

    def desugar(st: ast.Match):
        subj = st.subject
        if not isinstance(subj, ast.Tuple) or any(isinstance(x, ast.Starred) for x in subj.elts):
            return None
        k = counter[0]
        counter[0] += 1
        pre, refs, boolish = [], [], []
        for i, x in enumerate(subj.elts):
            if isinstance(x, (ast.Name, ast.Constant)):
                refs.append(x)
            else:
                tmp = f"_m{k}_{i}"
                pre.append(ast.copy_location(ast.Assign(targets=[ast.Name(id=tmp, ctx=ast.Store())], value=x), st))
                refs.append(x if _pure_expr(fi, x) else ast.Name(id=tmp, ctx=ast.Load()))
            boolish.append(_bool_valued(fi, x))
        arms = []
        for c in st.cases:
            p = c.pattern
            conds, caps = [], []
            if isinstance(p, ast.MatchAs) and p.pattern is None and p.name is None:
                pass
            elif isinstance(p, ast.MatchSequence) and not any(isinstance(q, ast.MatchStar) for q in p.patterns):
                if len(p.patterns) != len(refs):
                    continue                          # can never match a display of this length
                for q, ref, b in zip(p.patterns, refs, boolish):
                    r = sub_pattern(q, ref, b)
                    if r is None:
                        return None
                    if r[0] is not None:
                        conds.append(r[0])
                    caps += r[1]
            else:
                return None
            if c.guard is not None:
                if caps:
                    return None
                conds.append(c.guard)
            cond = None if not conds else conds[0] if len(conds) == 1 else ast.BoolOp(op=ast.And(), values=conds)
            body = [ast.copy_location(ast.Assign(targets=[ast.Name(id=n_, ctx=ast.Store())], value=v), c.body[0])
                    for n_, v in caps] + c.body
            arms.append((cond, body))
        if not arms:
            return None
        tail: list = []
        for cond, body in reversed(arms):
            tail = body if cond is None else [ast.copy_location(ast.If(test=cond, body=body, orelse=tail), st)]
        return pre + (tail or [ast.copy_location(ast.Pass(), st)])

    def rewrite_block(stmts: list) -> list:
        out = []
        for st in stmts:
            for f in ("body", "orelse", "finalbody"):
                v = getattr(st, f, None)
                if isinstance(v, list) and v and isinstance(v[0], ast.stmt) \
                        and not isinstance(st, (ast.FunctionDef, ast.AsyncFunctionDef, ast.ClassDef)):
                    setattr(st, f, rewrite_block(v))
            for h in getattr(st, "handlers", []) or []:
                h.body = rewrite_block(h.body)
            for c in getattr(st, "cases", []) or []:
                c.body = rewrite_block(c.body)
            r = desugar(st) if isinstance(st, ast.Match) else None
            if r is None:
                out.append(st)
            else:
                changed[0] = True
                out.extend(r)
        return out

    new.body = rewrite_block(new.body)
    if not changed[0]:
        cache[id(fi.node)] = (fi.node, fi)
        return fi
    ast.fix_missing_locations(new)
    set_parents(new)
    new._parent = parent(fi.node)         # type: ignore[attr-defined]
    nfi = FuncInfo(fi.name, fi.qualname, new, fi.module, fi.cls)
    new._info = nfi                       # type: ignore[attr-defined]
    cache[id(fi.node)] = (fi.node, nfi)
    return nfi


def rule_is_valid_signature(ctx: Ctx) -> None:
    fi = _without_suppress(ctx, ctx.repo.method("ECCrypto", "is_valid_signature", "ipv8/keyvault/crypto.py"))
    cfg = ctx.cfg(fi)
    params = fi.params()
    key, data, sig = params[1], params[2], params[3]
    vcalls = [c for c in calls(fi) if call_name(c) == "verify"]
    effective: dict[int, ast.Call] = {}
    for c in calls(fi):
        # operator.methodcaller("verify", sig, data)(key) / functools.partial(key.verify, sig)(data): the call they make
        if not any(c is x for x in vcalls) and isinstance(strip_cast(resolve(fi, c.func)), ast.Call):
            full = _desugar_functional(fi, _expand(fi, c))
            if isinstance(full, ast.Call) and isinstance(full.func, ast.Attribute) and full.func.attr == "verify":
                vcalls.append(c)
                effective[id(c)] = full
    ctx.anchor(vcalls, "ec_key.verify call in ECCrypto.is_valid_signature")
    from ..model import enclosing_stmt
    ret_stmts = [n for n in walk_no_nested(fi.node) if isinstance(n, ast.Return)]
    ret_nodes = [n for r in ret_stmts for n in cfg.nodes_for(r)]

    def is_false(e) -> bool:
        return isinstance(e, ast.Constant) and e.value is False

    def held_since(node, e, start) -> list:
        """values of `e` on entry to node on a path from start (not assigned since start: the value it had at start -
        an assignment that raised did not assign)"""
        got = _values_at(cfg, fi, node, e, start)
        if start is not cfg.entry and any(v is _UNBOUND for v in got):
            got = [v for v in got if v is not _UNBOUND] + _values_at(cfg, fi, start, e, cfg.entry)
        return got

    def excluded(node, test, pol: bool, start) -> bool:
        """can `test`, evaluated at node on a path from start, never come out as pol?  Decided for a test of a local
        flag all of whose possible values are constants (`if failed:`, `if not ok:`, `if tag is None:`)"""
        if isinstance(test, ast.UnaryOp) and isinstance(test.op, ast.Not):
            return excluded(node, test.operand, not pol, start)
        f = fact_of(test, pol)
        for operand, on_left in ((f.left, True), (f.right, False)):
            operand = strip_cast(operand) if operand is not None else None
            if isinstance(operand, ast.Name) and operand.id not in fi.params() and local_defs(fi, operand.id):
                vals = held_since(node, operand, start)
                if vals and all(v is not _UNBOUND and v is not _UNKNOWN and _contradicts(ctx, fi, f, on_left, v) for v in vals):
                    return True
        return False

    def feasible_from(start):
        """reachability from start without the outcomes of flag tests that the flag's possible values exclude"""
        cuts = {(c, pol) for c in cfg.nodes if c.kind == "cond" for pol in (True, False) if excluded(c, c.ast, pol, start)}
        return lambda **kw: cfg.reach([start], cut_edge=lambda u, v, lab: (u, lab) in cuts, **kw)

    def flag_sources(cnode, test, pol: bool, start) -> list | None:
        """the assignments (CFG nodes) of the local flag tested by `test` at cnode that can have produced outcome pol on
        a path from start; None unless `test` tests a local every possible value of which is a static constant.  When
        the test came out as pol, the flag was last assigned at one of these nodes."""
        if isinstance(test, ast.UnaryOp) and isinstance(test.op, ast.Not):
            return flag_sources(cnode, test.operand, not pol, start)
        f = fact_of(test, pol)
        for operand, on_left in ((f.left, True), (f.right, False)):
            operand = strip_cast(operand) if operand is not None else None
            if not (isinstance(operand, ast.Name) and operand.id not in fi.params() and local_defs(fi, operand.id)):
                continue
            defs = _def_nodes(cfg, fi, operand.id)
            rd = set(_reaching(defs, start).get(cnode, set()))
            if None in rd and start is not cfg.entry:
                rd.discard(None)
                rd |= _reaching(defs, cfg.entry).get(start, set())
            if not rd or None in rd or any(defs[d] is None or _static_value(ctx, fi, defs[d]) is None for d in rd):
                return None
            return [d for d in rd if not _contradicts(ctx, fi, f, on_left, defs[d])]
        return None

    def expr_values(node, e, start, depth: int = 4) -> list:
        """like held_since, also through conditional expressions / `flag and value` (excluded alternatives dropped; under
        a test of a constant-valued flag: the values the expression can have after the assignments of the flag that
        produce that outcome)"""
        e = strip_cast(e)
        if depth > 0 and isinstance(e, ast.IfExp):
            out = []
            for branch, pol in ((e.body, True), (e.orelse, False)):
                if excluded(node, e.test, pol, start):
                    continue
                srcs = flag_sources(node, e.test, pol, start)
                for st in ([start] if srcs is None else srcs):
                    out.extend(expr_values(node, branch, st, depth - 1))
            return out
        if depth > 0 and isinstance(e, ast.BoolOp) and isinstance(e.op, ast.And) and len(e.values) == 2:
            # `a and b`: a when a is falsy, else b
            first = expr_values(node, e.values[0], start, depth - 1)
            if all(isinstance(v, ast.Constant) and isinstance(v.value, bool) for v in first):
                out = [v for v in first if not v.value]
                if any(v.value for v in first):
                    out.extend(expr_values(node, e.values[1], start, depth - 1))
                return out
            return [e]
        got = held_since(node, e, start)
        if depth > 0 and any(isinstance(v, (ast.IfExp, ast.BoolOp)) and v is not e for v in got if isinstance(v, ast.AST)):
            return [_UNKNOWN]            # a conditional value stored in a local: evaluated elsewhere, not followed
        return got

    def returned_values(start) -> list[tuple[ast.Return, list]]:
        """for every return that can be reached from `start`: the expressions whose value it can hand back on a path
        from start (through locals: reaching definitions, so `v = verify(); ... return v` is the same as `return verify()`)"""
        seen = feasible_from(start)()
        out = []
        for r in ret_stmts:
            vals = []
            for n in cfg.nodes_for(r):
                if n not in seen:
                    continue
                if r.value is None:
                    vals.append(ast.Constant(value=None))
                    continue
                starts = [start]
                if start is cfg.entry:
                    # a dominating test of a constant-valued flag that is not re-assigned on the way to the return:
                    # the path came through one of the flag's assignments that produce that outcome
                    for atom, pol in _own_facts(cfg, n):
                        for cn in cfg.nodes_for(atom):
                            srcs = flag_sources(cn, atom, pol, start) if cn.kind == "cond" else None
                            if srcs is None:
                                continue
                            after = cfg.reach([v for v, lab in cn.succ if lab is pol], cut_nodes=[cn])
                            names = {x.id for x in ast.walk(atom) if isinstance(x, ast.Name)}
                            if any(d in after for nm in names if nm not in fi.params() and local_defs(fi, nm)
                                   for d in _def_nodes(cfg, fi, nm)):
                                continue
                            if len(starts) == 1 and starts[0] is start or len(srcs) < len(starts):
                                starts = srcs
                for st in starts:
                    vals.extend(expr_values(n, r.value, st))
            if vals:
                out.append((r, vals))
        return out

    from_entry = returned_values(cfg.entry)
    for c in vcalls:
        st = enclosing_stmt(c)
        # --- an exception raised by verify() ends in `False`: every exceptional successor of the statement is a try
        #     dispatch that catches everything, and from each of its handlers the function can only return False
        exc_succ = [v for n in cfg.nodes_for(c) for v, lab in n.succ if lab == "exc"]
        ok_try = bool(exc_succ)
        for d in exc_succ:
            if d.kind != "dispatch" or not all(h.kind == "handler" for h, _ in d.succ):
                ok_try = False       # not inside a try, or no handler for Exception / everything
                continue
            for h, _ in d.succ:
                for r, vals in returned_values(h):
                    if not all(v is not _UNBOUND and v is not _UNKNOWN and is_false(v) for v in vals):
                        ok_try = False
                if cfg.exit in feasible_from(h)(cut_nodes=ret_nodes):
                    ok_try = False   # falls off the end without a return
        ctx.check(ok_try, "exception-safe-validate", fi, st, "verify() wrapped in try/except Exception that yields False",
                  "an exception in verify() is not turned into `False`")
        ok_ret = any(any(v is c for v in vals) for _, vals in from_entry)
        ctx.check(ok_ret, "exception-safe-validate", fi, st, "is_valid_signature returns verify()'s own result",
                  "the result of verify() is not what is_valid_signature returns")
        cc = effective.get(id(c), c)
        ok_args = (chain(_expand(fi, cc.func)) == f"{key}.verify" and len(cc.args) == 2 and not cc.keywords
                   and _xnorm(fi, cc.args[0]) == sig and _xnorm(fi, cc.args[1]) == data
                   and not local_defs(fi, key) and not local_defs(fi, data) and not local_defs(fi, sig))
        ctx.check(ok_args, "exception-safe-validate", fi, c, "verify(signature, data) on the given key with unmodified arguments",
                  "verify() is not called as key.verify(signature, data) with the function's own arguments")
    # every value that can be returned is that call's result, or False (an unassigned local raises: nothing is returned)
    for r, vals in from_entry:
        good = all(v is _UNBOUND or (v is not _UNKNOWN and (any(v is c for c in vcalls) or is_false(v))) for v in vals)
        ctx.check(good, "exception-safe-validate", fi, r, "return is verify(...) or False",
                  "is_valid_signature can return something other than verify()'s verdict or False")


# ------------------------------------------------------------------------------------------ handler table
def _transparent_decorator(deco: FuncInfo) -> bool:
    """def deco(f): def wrapper(self, *args, **kwargs): ... return f(self, *args, **kwargs); return wrapper"""
    params = deco.params()
    if len(params) != 1:
        return False
    fname = params[0]
    inner = [n for n in walk_no_nested(deco.node) if isinstance(n, ast.FunctionDef) and n is not deco.node]
    if len(inner) != 1:
        return False
    w = inner[0]
    a = w.args
    if len(a.args) != 1 or a.vararg is None or a.kwarg is None or a.kwonlyargs or a.defaults:
        return False
    fcalls = [c for c in ast.walk(w) if isinstance(c, ast.Call) and chain(c.func) == fname]
    if len(fcalls) != 1:
        return False
    c = fcalls[0]
    shape = (len(c.args) == 2 and norm(c.args[0]) == a.args[0].arg and isinstance(c.args[1], ast.Starred)
             and norm(c.args[1].value) == a.vararg.arg and len(c.keywords) == 1 and c.keywords[0].arg is None
             and norm(c.keywords[0].value) == a.kwarg.arg)
    rets = [r for r in ast.walk(w) if isinstance(r, ast.Return)]
    return shape and len(rets) == 1 and rets[0].value is c


def _is_effect_call(c: ast.Call) -> bool:
    """the calls that the classification of a hand-written handler treats as effects"""
    ch = chain(c.func) or ""
    return ch.startswith(("self.network.", "self.endpoint.", "Peer")) or ch in ("self.ez_send", "self.create_introduction_response")


def _guard_decorator(ctx: Ctx, deco: FuncInfo, applied_with_args: bool) -> bool:
    return _guard_wrapper(ctx, deco, applied_with_args) is not None


def _guard_wrapper(ctx: Ctx, deco: FuncInfo, applied_with_args: bool):
    """(the wrapper closure, the name it calls the decorated function by) when the decorator is a guard, else None:

    `@deco` / `@deco(...)` is a GUARD around the function it decorates: what it puts in the function's place is a closure
    that can reach the function only by `f(<its own parameters, unchanged, in order>)` - it may decide not to call it
    (drop, log, hold a lock around the call), it cannot hand it other arguments - and that itself makes none of the
    calls that count as effects of a handler.  Whatever class the decorated function has (authenticated by a verifying
    decorator below this one, raw, ...), the function is entered with exactly the arguments the wrapper was entered with,
    so the class is that of the decorated function.
    """
    if deco.module.relpath == LC and deco.name in (AUTH_DECOS | UNSIGNED_DECOS):
        return None
    d = _returned_function(ctx, deco) if applied_with_args else deco
    if d is None or isinstance(d.node, ast.Lambda):
        return None
    dparams = d.params()[1:] if (d.cls is not None and d.name == "__call__") else d.params()
    if len(dparams) != 1 or local_defs(d, dparams[0]):
        return None
    fname = dparams[0]
    w = _returned_function(ctx, d)
    if w is None or isinstance(w.node, ast.Lambda) or w.node.decorator_list and not all(
            isinstance(x, ast.Call) and call_name(x) == "wraps" for x in w.node.decorator_list):
        return None
    a = w.node.args
    if a.kwonlyargs or a.posonlyargs or a.defaults:
        return None
    wparams = w.params()
    if fname in wparams or any(local_defs(w, p) for p in wparams) or fname in _local_names(w):
        return None
    expect = [x.arg for x in a.args] + (["*" + a.vararg.arg] if a.vararg else [])
    n_calls = 0
    for n in ast.walk(w.node):
        if isinstance(n, ast.Name) and n.id == fname:
            c = parent(n)
            if not (isinstance(c, ast.Call) and c.func is n):
                return None                    # the function escapes (stored, handed on): not followed
            got = [("*" + x.value.id) if isinstance(x, ast.Starred) and isinstance(x.value, ast.Name)
                   else x.id if isinstance(x, ast.Name) else None for x in c.args]
            kws = [(k.arg, k.value.id if isinstance(k.value, ast.Name) else None) for k in c.keywords]
            if got != expect or kws != ([(None, a.kwarg.arg)] if a.kwarg else []):
                return None
            n_calls += 1
        if isinstance(n, ast.Call) and _is_effect_call(n):
            return None
        if isinstance(n, (ast.FunctionDef, ast.AsyncFunctionDef, ast.Lambda)) and n is not w.node:
            return None
        if isinstance(n, (ast.Attribute, ast.Subscript)) and isinstance(n.ctx, (ast.Store, ast.Del)):
            # the wrapper may not edit what it hands on (self.<attr> = ... / data[...] = ...)
            return None
    return (w, fname) if n_calls >= 1 else None


def classify_handler(ctx: Ctx, fi: FuncInfo) -> str:
    decos = list(fi.node.decorator_list)
    while decos:
        d = decos[0]
        name = chain(d.func) if isinstance(d, ast.Call) else chain(d)
        target = ctx.repo.resolve_name(fi.module, name) if name and "." not in name else None
        if isinstance(target, FuncInfo) and not isinstance(d, ast.Call) and _transparent_decorator(target):
            decos.pop(0)       # passes (self, *args, **kwargs) through unchanged: look at the next decorator
            continue
        if isinstance(target, FuncInfo):
            if target.module.relpath == LC and target.name in AUTH_DECOS:
                return "authenticated"
            if target.module.relpath == LC and target.name in UNSIGNED_DECOS:
                return "unsigned"
            if target.name == "unpack_cell":
                return "cell"
            if target.cls is None and _guard_decorator(ctx, target, isinstance(d, ast.Call)):
                decos.pop(0)   # a guard: the decorated function is entered with the wrapper's own arguments or not at all
                continue
        return f"unknown-decorator:{name}"
    # manual: authenticated iff all effects are reached only after a completed _ez_unpack_auth
    # (or a helper of the overlay that itself returns only after one / after a positive verdict: followed, see
    #  _unpacker_summary; several such calls - first attempt, fallback in the except clause - count together)
    cfg = ctx.cfg(fi)
    params = fi.params()
    if len(params) < 3:
        return "raw"
    data_name = params[2]
    direct = calls(fi, "self._ez_unpack_auth")
    for c in direct:
        a = arg(c, 1, "data")
        if not (isinstance(a, ast.Name) and a.id == data_name and _is_param_unmodified(fi, data_name)):
            return "raw"
    # what each verifying call returns: (position of the verified auth payload, position of the verified key)
    ez_fields = None
    if direct:
        # the reviewed unpacker may hand its results back as a record: its components then also have names
        try:
            ez = ctx.repo.method("EZPackOverlay", "_ez_unpack_auth", LC)
            rets = [n for n in walk_no_nested(ez.node) if isinstance(n, ast.Return) and n.value is not None]
            layouts = {tuple(cs[1]) if cs is not None and cs[1] else None
                       for cs in (_components(ctx, ez, _expand(ez, r.value)) for r in rets)}
            ez_fields = next(iter(layouts)) if len(layouts) == 1 else None
        except AnalysisError:
            ez_fields = None
    kinds: dict[int, tuple] = {id(c): (0, True, None, ez_fields) for c in direct}
    ucalls = list(direct)
    if fi.cls is not None and fi.cls.is_subclass_of("EZPackOverlay"):
        try:
            for c, k in _unpacker_calls(ctx, fi, data_name, replay=ctx.prop == "C01", skip=direct):
                if id(c) not in kinds:
                    kinds[id(c)] = k
                    ucalls.append(c)
        except AnalysisError:
            pass
    if not ucalls:
        return "raw"
    unodes = [n for c in ucalls for n in cfg.nodes_for(c)]
    effects = [c for c in calls(fi) if _is_effect_call(c)]
    if not effects:
        return "raw"
    for e in effects:
        for n in cfg.nodes_for(e):
            if cfg.reachable(n) and not cfg.must_complete(n, unodes):
                return "raw"
    # Peer(...) built from the auth returned by the verifying call(s)
    # (the key may travel through locals: every value it can take must be <auth>.public_key_bin of such an auth, or the
    #  verified key itself when the helper hands that out)
    groups: dict[tuple, list] = {}
    for c in ucalls:
        groups.setdefault(kinds[id(c)], []).append(c)
    for c in calls(fi, "Peer"):
        k = arg(c, 0)
        if k is None:
            return "raw"
        for kk in _alternatives(fi, k):
            good = False
            for (a_idx, has_auth, k_idx, flds), grp in groups.items():
                # every definition of the value must come from this group; the other groups then cannot be its source
                if len(groups) > 1 and not all(cfg.must_complete(n, [m for g in grp for m in cfg.nodes_for(g)])
                                               for n in cfg.nodes_for(c) if cfg.reachable(n)):
                    continue
                if _Verified(fi, ucalls=grp, auth_idx=a_idx, has_auth=has_auth, key_idx=k_idx, fields=flds).is_key(kk):
                    good = True
            if not good:
                return "raw"
    return "manual-authenticated"


def _iter_elements(ctx: Ctx, fi: FuncInfo, it: ast.AST, depth: int = 4) -> list[ast.AST] | None:
    """
    The values a `for` over `it` binds to its target, when `it` denotes a display (list / tuple / set / dict literal),
    possibly through a local, a `self.<attr>` assigned exactly once in this function, a class attribute or a module
    constant, and through .items() / .keys() / .values() / enumerate / sorted / reversed / list / tuple / iter.  Else None.
    """
    from ..match import stores
    it = strip_cast(it)
    if depth <= 0:
        return None
    if isinstance(it, (ast.List, ast.Tuple, ast.Set)):
        return None if any(isinstance(x, ast.Starred) for x in it.elts) else list(it.elts)
    if isinstance(it, ast.Dict):
        return None if any(k is None for k in it.keys) else list(it.keys)
    if isinstance(it, ast.Name):
        if it.id in fi.params():
            return None
        if local_defs(fi, it.id):
            d = single_def(fi, it.id)
            return _iter_elements(ctx, fi, d[0], depth - 1) if d is not None and d[1] is None else None
        r = ctx.repo.resolve_name(fi.module, it.id)
        if isinstance(r, tuple) and r[0] == "const":
            return _iter_elements(ctx, fi, r[2], depth - 1) if r[1] is fi.module else _display_only(r[2])
        return None
    if isinstance(it, ast.Attribute) and isinstance(it.value, ast.Name) and it.value.id in ("self", "cls"):
        st = stores(fi, f"{it.value.id}.{it.attr}")
        if len(st) == 1 and isinstance(st[0][0], (ast.Assign, ast.AnnAssign)) and st[0][0].value is not None \
                and not isinstance(st[0][1], ast.Subscript):
            sub = [x for x in stores(fi, f"{it.value.id}.{it.attr}[]")]
            if not sub:
                return _iter_elements(ctx, fi, st[0][0].value, depth - 1)
            return None
        if not st and fi.cls is not None:
            a = fi.cls.lookup_attr(it.attr)
            return _display_only(a) if a is not None else None
        return None
    if isinstance(it, ast.Call) and not it.keywords:
        f = it.func
        if isinstance(f, ast.Attribute) and f.attr in ("items", "keys", "values") and not it.args:
            base = strip_cast(f.value)
            seen = 0
            while not isinstance(base, ast.Dict) and seen < 4:
                seen += 1
                nxt = None
                if isinstance(base, ast.Name) and base.id not in fi.params():
                    d = single_def(fi, base.id)
                    nxt = d[0] if d is not None and d[1] is None else None
                elif isinstance(base, ast.Attribute) and isinstance(base.value, ast.Name) and base.value.id == "self":
                    st = stores(fi, f"self.{base.attr}")
                    if len(st) == 1 and isinstance(st[0][0], (ast.Assign, ast.AnnAssign)) and not stores(fi, f"self.{base.attr}[]"):
                        nxt = st[0][0].value
                if nxt is None:
                    return None
                base = strip_cast(nxt)
            if not isinstance(base, ast.Dict) or any(k is None for k in base.keys):
                return None
            if f.attr == "keys":
                return list(base.keys)
            if f.attr == "values":
                return list(base.values)
            return [ast.Tuple(elts=[k, v], ctx=ast.Load()) for k, v in zip(base.keys, base.values)]
        if isinstance(f, ast.Name) and len(it.args) == 1 and f.id in ("sorted", "reversed", "list", "tuple", "iter", "set", "frozenset"):
            return _iter_elements(ctx, fi, it.args[0], depth - 1)
        if isinstance(f, ast.Name) and f.id == "enumerate" and len(it.args) == 1:
            inner = _iter_elements(ctx, fi, it.args[0], depth - 1)
            return None if inner is None else [ast.Tuple(elts=[ast.Constant(value=i), x], ctx=ast.Load())
                                                for i, x in enumerate(inner)]
        if isinstance(f, (ast.Name, ast.Attribute)) and not it.args:
            got = _helper_elements(ctx, fi, it, depth - 1)
            if got is not None:
                return got
        if isinstance(f, ast.Name) and f.id == "range" and 1 <= len(it.args) <= 3:
            vals = [ctx.repo.resolve_const(fi.module, a, fi.cls) for a in it.args]
            if all(isinstance(v, int) and not isinstance(v, bool) for v in vals):
                try:
                    r = range(*vals)
                except ValueError:
                    return None
                return [ast.Constant(value=i) for i in r] if len(r) <= 1024 else None
    return None


def _helper_elements(ctx: Ctx, fi: FuncInfo, call: ast.Call, depth: int) -> list[ast.AST] | None:
    """
    What iterating over the result of an argument-less call of a helper of this repository yields, when the helper only
    enumerates literal tables: a generator made of `yield <expr>`, `yield from <table>`, `for x in <table>: yield x`
    statements, or a function that returns such a table.  The elements are the helper's own expressions (`self.on_x`
    means the same in the caller when both are methods of the same object).
    """
    targets = _targets(ctx, fi, call)
    if len(targets) != 1 or depth <= 0:
        return None
    h = targets[0]
    if h.is_async or h.node.decorator_list and not all(chain(d) in ("staticmethod", "classmethod", "property")
                                                       for d in h.node.decorator_list):
        return None
    if (h.cls is None) != (fi.cls is None) or len(h.params()) > (1 if h.cls is not None else 0):
        return None
    body = [b for b in h.node.body if not (isinstance(b, ast.Expr) and isinstance(b.value, ast.Constant))]
    out: list[ast.AST] = []
    is_gen = any(isinstance(n, (ast.Yield, ast.YieldFrom)) for n in walk_no_nested(h.node))
    for i, st in enumerate(body):
        if is_gen and isinstance(st, ast.Expr) and isinstance(st.value, ast.Yield) and st.value.value is not None:
            out.append(st.value.value)
        elif is_gen and isinstance(st, ast.Expr) and isinstance(st.value, ast.YieldFrom):
            sub = _iter_elements(ctx, h, st.value.value, depth)
            if sub is None:
                return None
            out.extend(sub)
        elif is_gen and isinstance(st, ast.For) and not st.orelse and len(st.body) == 1 and isinstance(st.body[0], ast.Expr) \
                and isinstance(st.body[0].value, ast.Yield) and st.body[0].value.value is not None:
            sub = _iter_elements(ctx, h, st.iter, depth)
            if sub is None:
                return None
            y = st.body[0].value.value
            if isinstance(st.target, ast.Name):
                out.extend(_subst_names(y, {st.target.id: el}) for el in sub)
            elif isinstance(st.target, (ast.Tuple, ast.List)) and all(isinstance(x, ast.Name) for x in st.target.elts) \
                    and all(isinstance(el, (ast.Tuple, ast.List)) and len(el.elts) == len(st.target.elts) for el in sub):
                out.extend(_subst_names(y, {x.id: e2 for x, e2 in zip(st.target.elts, el.elts)}) for el in sub)
            else:
                return None
        elif not is_gen and isinstance(st, ast.Return) and st.value is not None and i == len(body) - 1:
            sub = _iter_elements(ctx, h, st.value, depth)
            if sub is None:
                return None
            out.extend(sub)
        elif isinstance(st, (ast.Assign, ast.AnnAssign)) and not is_gen:
            continue                                   # a local table built before the return: followed by _iter_elements
        else:
            return None
    return out or None


def _display_only(e: ast.AST | None) -> list[ast.AST] | None:
    e = strip_cast(e) if e is not None else None
    if isinstance(e, (ast.List, ast.Tuple, ast.Set)) and not any(isinstance(x, ast.Starred) for x in e.elts):
        return list(e.elts)
    if isinstance(e, ast.Dict) and not any(k is None for k in e.keys):
        return list(e.keys)
    return None


def _loop_bindings(ctx: Ctx, fi: FuncInfo, call: ast.Call) -> list[dict[str, ast.AST]] | None:
    """
    One environment (loop variable -> element expression) per iteration of the `for` loops (over displays) that enclose
    the call inside fi; [{}] when the call is in no loop; None when an enclosing loop cannot be enumerated.
    """
    from ..model import ancestors
    loops = []                       # innermost first: (target, iterable)
    inner = call
    for a in ancestors(call):
        if a is fi.node:
            break
        if isinstance(a, (ast.For, ast.AsyncFor)):
            if any(inner is x for x in a.orelse):
                pass                         # in the else clause: not inside the loop body
            else:
                loops.append((a.target, a.iter))
        elif isinstance(a, (ast.ListComp, ast.SetComp, ast.GeneratorExp, ast.DictComp)):
            # the element expression of a comprehension is evaluated once per combination of its generators
            if any(g.ifs or g.is_async for g in a.generators) or any(inner is g for g in a.generators):
                return None
            loops.extend((g.target, g.iter) for g in reversed(a.generators))
        elif isinstance(a, (ast.While, ast.Lambda)):
            return None
        inner = a
    envs: list[dict[str, ast.AST]] = [{}]
    for l_target, l_iter in reversed(loops):
        elems = _iter_elements(ctx, fi, l_iter)
        if elems is None:
            return None
        nxt = []
        for env in envs:
            for el in elems:
                e2 = dict(env)
                t = l_target
                if isinstance(t, ast.Name):
                    e2[t.id] = el
                elif isinstance(t, (ast.Tuple, ast.List)) and isinstance(el, (ast.Tuple, ast.List)) and len(t.elts) == len(el.elts) \
                        and all(isinstance(x, ast.Name) for x in t.elts):
                    for x, y in zip(t.elts, el.elts):
                        e2[x.id] = y
                else:
                    return None
                nxt.append(e2)
        envs = nxt
        if len(envs) > 4096:
            return None
    return envs


def _registration_calls(ctx: Ctx, fi: FuncInfo) -> list[tuple[ast.Call, str, ast.AST | None, ast.AST | None, dict]]:
    """
    (call node, 'add_message_handler' | 'add_cell_handler', message expr, handler expr, loop environment) for every
    registration fi makes: direct calls (one per iteration of enclosing loops / comprehensions over literal tables, a
    `*pair` argument standing for the entries of the pair), and the bound method handed to itertools.starmap / map
    together with literal tables.
    """
    names = ("add_message_handler", "add_cell_handler")
    out = []
    for c in calls(fi, ["self." + n for n in names]):
        kind = call_name(c)
        envs = _loop_bindings(ctx, fi, c)
        blind = envs is None           # inside a loop whose table cannot be enumerated: fine when the handler is fixed
        for env in (envs or [{}]):
            args: list = []
            for a in c.args:
                if isinstance(a, ast.Starred):
                    v = strip_cast(a.value)
                    if isinstance(v, ast.Name) and v.id in env:
                        v = strip_cast(env[v.id])
                    items = _sequence_items(fi, v)
                    if items is None:
                        raise AnalysisError(f"undecided: {fi.qualname} registers handlers with `*` arguments that "
                                            f"cannot be enumerated: `{norm(c)}`")
                    args.extend(items)
                else:
                    args.append(a)
            kw = {k.arg: k.value for k in c.keywords}
            msg = args[0] if args else kw.get("msg_num")
            h = args[1] if len(args) > 1 else (kw.get("callback") or kw.get("handler"))
            out.append((c, kind, msg, h, {**env, "<blind>": True} if blind else env))
    # the registration method itself handed to starmap / map
    for n in walk_no_nested(fi.node):
        if not (isinstance(n, ast.Attribute) and n.attr in names and isinstance(n.ctx, ast.Load)
                and isinstance(n.value, ast.Name) and n.value.id == "self"):
            continue
        p = parent(n)
        if isinstance(p, ast.Call) and p.func is n:
            continue
        pairs = None
        if isinstance(p, ast.Call) and p.args and p.args[0] is n and not p.keywords \
                and not any(isinstance(a, ast.Starred) for a in p.args):
            if len(p.args) == 2 and _imported_as(fi, p.func, "itertools", ("starmap",)):
                rows = _iter_elements(ctx, fi, p.args[1])
                if rows is not None and all(isinstance(r, (ast.Tuple, ast.List)) and len(r.elts) == 2 for r in rows):
                    pairs = [(r.elts[0], r.elts[1]) for r in rows]
            elif len(p.args) == 3 and _builtin_chain(fi, p.func) == "map":
                ms, hs = _iter_elements(ctx, fi, p.args[1]), _iter_elements(ctx, fi, p.args[2])
                if ms is not None and hs is not None:
                    pairs = list(zip(ms, hs))         # map stops at the shorter table
        if pairs is None or _loop_bindings(ctx, fi, p) != [{}]:
            raise AnalysisError(f"undecided: {fi.qualname} hands `{norm(n)}` on as a value; the registrations made "
                                "through it cannot be enumerated")
        out.extend((p, n.attr, m, h, {}) for m, h in pairs)
    return out


def registrations(ctx: Ctx):
    """
    (registering class, kind, msg expr, handler name, call, function) for every registration made by an
    add_message_handler / add_cell_handler call.  A call inside `for` loops over literal tables stands for one
    registration per iteration (the handler / message may be the loop variable: it denotes the table's entries).
    """
    out = []
    for ci in ctx.repo.all_classes():
        if not ci.is_subclass_of("Overlay") and ci.name != "Overlay":
            continue
        for fi in ci.methods.values():
            for c, kind, m, h0, env in _registration_calls(ctx, fi):
                h = strip_cast(h0) if h0 is not None else None
                if isinstance(h, ast.Name) and h.id in env:
                    h = strip_cast(env[h.id])
                elif isinstance(h, ast.Name):
                    h = strip_cast(resolve(fi, h))
                hn = h.attr if isinstance(h, ast.Attribute) and isinstance(h.value, ast.Name) and h.value.id == "self" else None
                if hn is None and isinstance(h, ast.Call) and isinstance(h.func, ast.Name) and h.func.id == "getattr" \
                        and len(h.args) == 2 and not h.keywords and isinstance(h.args[0], ast.Name) and h.args[0].id == "self":
                    # getattr(self, "on_x") with a name that is a literal (possibly the loop's table entry)
                    nm = h.args[1]
                    if isinstance(nm, ast.Name) and nm.id in env:
                        nm = env[nm.id]
                    nm = ctx.repo.resolve_const(fi.module, strip_cast(nm), fi.cls) if nm is not None else None
                    hn = nm if isinstance(nm, str) else None
                if hn is None and env.get("<blind>"):
                    raise AnalysisError(f"undecided: {fi.qualname} registers handlers in a loop / comprehension whose "
                                        f"table cannot be enumerated: `{norm(c)}`")
                if isinstance(m, ast.Name) and m.id in env:
                    m = env[m.id]
                out.append((ci, kind, m, hn, c, fi))
    return out


def rule_handler_table(ctx: Ctx) -> None:
    with open(TABLE, encoding="utf-8") as fh:
        table = json.load(fh)["handlers"]
    regs = registrations(ctx)
    ctx.floor("handler-auth", len(regs), 60)
    seen = {}
    for ci, kind, msg, hn, call, fi in regs:
        if hn is None:
            ctx.check(False, "handler-auth", fi, call, "registration names a bound method of self",
                      "handler is not a plain `self.<method>` (cannot be classified; a lambda or unwrapped function "
                      "would bypass the unpacking decorator)")
            continue
        for cls in [ci, *ci.all_subclasses()]:
            target = cls.lookup(hn)
            if target is None:
                continue
            key = f"{cls.name}.{hn}:{'socket' if kind == 'add_message_handler' else 'cell'}"
            klass = classify_handler(ctx, target)
            seen[key] = klass
            ref = table.get(key)
            if ref is None:
                ctx.note(f"new-handler {key} ({klass}) defined at {target.where}: no reference class, not judged")
                ctx.instance("handler-auth", target.where, f"{key} -> {klass} (new, not judged)", nontrivial=False)
                continue
            strength = {"authenticated": 2, "manual-authenticated": 2}
            ok = klass == ref or strength.get(klass, 0) >= strength.get(ref, 0) and ref not in ("cell",) or \
                (ref in ("unsigned", "raw") and klass in ("authenticated", "manual-authenticated"))
            if ref == "cell":
                ok = klass in ("cell", "authenticated", "manual-authenticated")
            ctx.check(ok, "handler-auth", target, target.node,
                      f"{key}: classified {klass}, reference {ref}",
                      f"handler {key} was {ref} on the reviewed tree and is now {klass} (authentication downgraded)")
    ctx.extra["handler_table_seen"] = seen
    missing = sorted(k for k in table if k not in seen)
    if missing:
        ctx.note("handlers in the reference table no longer registered: " + ", ".join(missing))
    n_auth = sum(1 for v in seen.values() if v in ("authenticated", "manual-authenticated"))
    ctx.floor("handler-auth.authenticated", n_auth, 25)


def _reads_table(fi: FuncInfo, e: ast.AST, table: str) -> bool:
    """does e mention the table - as written, or after replacing single-assignment locals by what they were bound to
    (`handlers = self.decode_map` ... `handlers[msg_id]`: the same table object, read early)"""
    if mentions(e, table):
        return True
    x = _expand(fi, e)
    return x is not e and x is not None and mentions(x, table)


def _dispatch_sites(ctx: Ctx, fi: FuncInfo, cfg) -> list[tuple[ast.Call, list[ast.AST]]]:
    """
    Where fi invokes a handler taken from decode_map: [(call in fi, the argument expressions - in fi's terms - that the
    handler is given)].  Either the callee is a decode_map entry (through locals, or looked up by a helper that returns
    it), or the call goes to a helper of the overlay that makes the invocation (with a handler it is handed, or one it
    looks up itself); in the latter case the site that must be guarded is the call of the helper.
    """
    out = []
    for c in calls(fi):
        nodes = cfg.nodes_for(c)
        if not nodes:
            continue
        direct = any(_reads_table(fi, a, "self.decode_map") for a in _alternatives(fi, c.func))
        fsel = _selector(c.func)
        if not direct and (isinstance(c.func, ast.Name) or (
                fsel is not None and isinstance(strip_cast(fsel[0]), ast.Name) and strip_cast(fsel[0]).id not in fi.params()
                and local_defs(fi, strip_cast(fsel[0]).id))):
            direct = any(v is not None and _reads_table(fi, v, "self.decode_map")
                         for v, _, _ in _value_cases(ctx, fi, cfg, nodes[0], c.func))
        if direct:
            out.append((c, list(c.args)))
            continue
        f = c.func
        as_method = isinstance(f, ast.Attribute) and isinstance(f.value, ast.Name) and f.value.id == "self"
        # a helper of the overlay: a method called on self, or a plain function that is handed the overlay (`self`)
        as_function = isinstance(f, (ast.Name, ast.Attribute)) and not as_method and \
            any(isinstance(a, ast.Name) and a.id == "self" for a in list(c.args) + [k.value for k in c.keywords])
        if not (as_method or as_function) or "self" not in fi.params() or local_defs(fi, "self"):
            continue
        targets = _targets(ctx, fi, c)
        if not targets or len(targets) > 3:
            continue
        for t in targets:
            if not isinstance(t, FuncInfo) or t.node is fi.node or isinstance(t.node, ast.Lambda):
                continue
            is_method = t.cls is not None and not any(chain(d) == "staticmethod" for d in t.node.decorator_list)
            if as_method != is_method:
                continue
            bound = _bind_call(c, t, receiver=is_method)
            if bound is None:
                continue
            extra = _bound_varargs(c, t, receiver=is_method)
            if is_method:
                me = t.params()[0] if t.params() else None
            else:
                # the parameter(s) of the function that hold the overlay
                mine = [p for p, a in bound.items() if isinstance(a, ast.Name) and a.id == "self" and _is_param_unmodified(t, p)]
                me = mine[0] if len(mine) == 1 else None
            if me is None or not _is_param_unmodified(t, me):
                continue
            own_map = f"{me}.decode_map"
            for c2 in calls(t):
                f2 = strip_cast(c2.func)
                from_map = any(_reads_table(t, a, own_map) for a in _alternatives(t, c2.func))
                from_param = False
                if isinstance(f2, ast.Name) and _is_param_unmodified(t, f2.id) and f2.id in bound:
                    given = bound[f2.id]
                    from_param = any(_reads_table(fi, a, "self.decode_map") for a in _alternatives(fi, given)) or \
                        any(v is not None and _reads_table(fi, v, "self.decode_map")
                            for v, _, _ in _value_cases(ctx, fi, cfg, nodes[0], given))
                if not (from_map or from_param):
                    continue
                handed = []
                for x in c2.args:
                    if isinstance(x, ast.Starred):
                        # `handler(*args)` with args the helper's own, never re-assigned `*args`: the handler is given
                        # exactly the surplus positional arguments of the call of the helper
                        sv = strip_cast(x.value)
                        if extra is not None and t.node.args.vararg is not None and isinstance(sv, ast.Name) \
                                and sv.id == t.node.args.vararg.arg and _is_param_unmodified(t, sv.id):
                            handed.extend(extra)
                        continue
                    x = strip_cast(resolve(t, x))
                    if isinstance(x, ast.Name) and _is_param_unmodified(t, x.id) and x.id in bound:
                        handed.append(bound[x.id])
                out.append((c, handed))
                inner = getattr(ctx, "_c01_inner_sites", None)
                if inner is None:
                    inner = ctx._c01_inner_sites = {}         # type: ignore[attr-defined]
                if not any(x[1] is c2 for x in inner.setdefault(id(c), [])):
                    inner[id(c)].append((t, c2))
    return out


def _reached_only_from(ctx: Ctx, f: FuncInfo, allowed: tuple[str, ...], depth: int = 3) -> bool:
    """
    f is a helper of the allowed member functions: a method of the same class, and every mention of its name anywhere in
    the repository is the callee of a call made inside an allowed function or inside another such helper.  It then runs
    only as part of an allowed function and shares its permission.
    """
    from ..model import parent
    if f.cls is None or depth <= 0:
        return False
    owners = {a.split(".")[0] for a in allowed}
    if f.cls.name not in owners:
        return False
    uses = list(ctx.repo.attribute_uses(f.name))
    if not uses:
        return False
    for _m, g, node in uses:
        p = parent(node)
        if not (isinstance(p, ast.Call) and p.func is node) or g is None or g.node is f.node:
            return False
        if g.qualname in allowed:
            continue
        if not _reached_only_from(ctx, g, allowed, depth - 1):
            return False
    for m in ctx.repo.modules.values():              # never taken as a bare name / string (getattr)
        for n in ast.walk(m.tree):
            if isinstance(n, ast.Constant) and n.value == f.name:
                return False
    return True


def rule_own_prefix(ctx: Ctx) -> None:
    """
    The signature covers the 22-byte overlay prefix, but that binds a signed message to ONE overlay only if the receiving
    overlay compares the prefix with its own before it dispatches: without the comparison a datagram that a victim
    signed for overlay A verifies just as well in overlay B (same bytes, same key) and B's authenticated handlers run
    - and create a verified-peer entry - for a message the key holder never addressed to B.  The endpoint's prefix map
    is not a substitute: on_packet is also called directly (broadcast bootstrapper, crypto endpoint, add_listener).
    Necessary condition decided here: in Community.on_packet every call of a handler taken from decode_map is
    dominated by `self._prefix == D[:22]` (or D.startswith(self._prefix)) for the very bytes D handed to the handler.
    """
    repo = ctx.repo
    top = _without_match(ctx, repo.method("Community", "on_packet", "ipv8/community.py"))
    top_cfg = ctx.cfg(top)
    hsites = _dispatch_sites(ctx, top, top_cfg)
    ctx.anchor(hsites, "call of a decode_map handler in Community.on_packet")
    for c, hargs in hsites:
        # the comparison may dominate the site in on_packet itself or - when the invocation is made by a helper of the
        # overlay - the handler call inside that helper (guard moved into the callee): either way every handler call
        # is preceded by it
        inner = getattr(ctx, "_c01_inner_sites", {}).get(id(c), [])
        ok, facts, undecided = _own_prefix_checked(ctx, top, top_cfg, c, hargs)
        if not ok and inner:
            sub = []
            for t, c2 in inner:
                r = _own_prefix_checked(ctx, t, ctx.cfg(t), c2, list(c2.args))
                if not r[0]:
                    # the comparison may sit in a guard decorator of the helper: the helper's body (and with it the
                    # handler call) is entered only through `f(<wrapper's own parameters>)` inside the wrapper
                    g = _own_prefix_in_guards(ctx, t, c2)
                    if g is not None and g[0]:
                        r = g
                sub.append(r)
            if all(r[0] for r in sub):
                ok, facts, undecided = True, [f for r in sub for f in r[1]], None
            else:
                undecided = undecided or next((r[2] for r in sub if r[2]), None)
        if not ok and undecided:
            raise AnalysisError(undecided)
        ctx.check(ok, "own-prefix-before-dispatch", top, c,
                  "Community.on_packet: handler call dominated by self._prefix == data[:22] on the bytes it is given",
                  "Community.on_packet dispatches to the (authenticated) handlers without comparing the datagram's "
                  "22-byte prefix with the overlay's own prefix: a datagram signed for another overlay is accepted here "
                  "(cross-overlay replay; the signer becomes a verified peer of an overlay it never addressed)",
                  [str(f) for f in facts])


def _guard_wrappers_of(ctx: Ctx, t: FuncInfo) -> list | None:
    """[(wrapper, name of the decorated function in it)] for the decorators of t when ALL of them are guards, else None"""
    out = []
    for d in t.node.decorator_list:
        name = chain(d.func) if isinstance(d, ast.Call) else chain(d)
        target = ctx.repo.resolve_name(t.module, name) if name and "." not in name else None
        g = _guard_wrapper(ctx, target, isinstance(d, ast.Call)) if isinstance(target, FuncInfo) and target.cls is None else None
        if g is None:
            return None
        out.append(g)
    return out


def _own_prefix_in_guards(ctx: Ctx, t: FuncInfo, c2: ast.Call):
    """_own_prefix_checked for handler call c2 of helper t, decided at the call of t inside one of its guard decorators"""
    guards = _guard_wrappers_of(ctx, t)
    if not guards:
        return None
    tpos = [x.arg for x in t.node.args.posonlyargs + t.node.args.args]
    for w, fname in guards:
        if not w.params() or w.params()[0] != "self" or not tpos or tpos[0] != "self":
            continue
        fcalls = [n for n in ast.walk(w.node) if isinstance(n, ast.Call) and isinstance(n.func, ast.Name) and n.func.id == fname]
        results = []
        for fc in fcalls:
            plain = []
            for x in fc.args:
                if isinstance(x, ast.Starred):
                    break
                plain.append(x)
            given = dict(zip(tpos, plain))           # t's parameter -> the wrapper's expression (its own parameter)
            handed = []
            for x in c2.args:
                x = x if isinstance(x, ast.Starred) else strip_cast(resolve(t, x))
                if isinstance(x, ast.Name) and _is_param_unmodified(t, x.id) and x.id in given:
                    handed.append(given[x.id])
            results.append(_own_prefix_checked(ctx, w, ctx.cfg(w), fc, handed))
        if results and all(r[0] for r in results):
            return True, [f for r in results for f in r[1]], None
    return None


def _own_prefix_checked(ctx: Ctx, fi: FuncInfo, cfg, c: ast.Call, hargs: list) -> tuple[bool, list, str | None]:
    """(is call c in fi dominated by a comparison of the first 22 bytes of the very bytes in hargs with the overlay's own
    prefix?, the facts at c, text of an `undecided` verdict when a dominating test relates the two in an unknown form)"""
    repo = ctx.repo

    def own_prefix(e) -> bool:
        x = _expand(fi, e)
        if chain(x) == "self._prefix":
            return True
        # an accessor of the overlay: every definition `self.<m>()` can dispatch to returns self._prefix and nothing else
        if isinstance(x, ast.Call) and not x.args and not x.keywords and isinstance(x.func, ast.Attribute) \
                and isinstance(x.func.value, ast.Name) and x.func.value.id == "self" and fi.cls is not None:
            targets = repo.dispatch(fi.cls, x.func.attr)
            if not targets:
                return False
            for t in targets:
                rets = [n for n in walk_no_nested(t.node) if isinstance(n, ast.Return)]
                body = [b for b in t.node.body if not (isinstance(b, ast.Expr) and isinstance(b.value, ast.Constant))]
                if t.is_async or len(rets) != 1 or body != rets or t.node.decorator_list or len(t.params()) != 1 \
                        or chain(strip_cast(rets[0].value)) != f"{t.params()[0]}._prefix":
                    return False
            return True
        return False

    def buffer_key(e) -> str | None:
        """identity of a bytes value that cannot change inside this function: a parameter / once-bound local, or a
        constant-index component of one (`packet[1]`); e is already expanded"""
        base = e
        while isinstance(base, ast.Subscript) and isinstance(base.slice, ast.Constant) and isinstance(base.slice.value, int):
            base = base.value
        if isinstance(base, ast.Name) and len(local_defs(fi, base.id)) <= 1:
            return norm(e)
        return None

    def head_of(e) -> str | None:
        e = _xs(fi, e)
        # bytes(X) / memoryview(X) / bytearray(X) compare equal to X; bytes(islice(X, n)) is X[:n]
        while isinstance(e, ast.Call) and len(e.args) == 1 and not e.keywords and not isinstance(e.args[0], ast.Starred) \
                and _builtin_chain(fi, e.func) in ("bytes", "memoryview", "bytearray"):
            e = e.args[0]
            if isinstance(e, ast.Call) and not e.keywords and len(e.args) == 2 and _imported_as(fi, e.func, "itertools", ("islice",)) \
                    and not any(isinstance(a, ast.Starred) for a in e.args):
                e = ast.copy_location(ast.Subscript(value=e.args[0], slice=ast.Slice(lower=None, upper=e.args[1], step=None),
                                                    ctx=ast.Load()), e)
        if not (isinstance(e, ast.Subscript) and isinstance(e.slice, ast.Slice) and e.slice.step is None):
            return None
        lo, up = e.slice.lower, e.slice.upper
        if lo is not None and _const(ctx, fi, lo) != 0:
            return None
        whole_prefix = isinstance(up, ast.Call) and not up.keywords and len(up.args) == 1 and _builtin_chain(fi, up.func) == "len" \
            and own_prefix(up.args[0])              # X[:len(self._prefix)] == self._prefix  <=>  X.startswith(self._prefix)
        if up is None or (not whole_prefix and _const(ctx, fi, up) != 22):
            return None
        return buffer_key(e.value)

    def compared_buffer(f) -> str | None:
        """the bytes value whose first 22 bytes the fact compares with self._prefix (either polarity)"""
        if f.op == "eq" and f.right is not None:
            if own_prefix(f.left):
                return head_of(f.right)
            if own_prefix(f.right):
                return head_of(f.left)
        if f.op == "truthy":
            c = _desugar_functional(fi, _expand(fi, f.left))
            if isinstance(c, ast.Call) and isinstance(c.func, ast.Attribute) and c.func.attr == "startswith" \
                    and len(c.args) == 1 and not c.keywords and own_prefix(c.args[0]):
                return buffer_key(c.func.value)
            # operator.eq(a, b) / hmac.compare_digest(a, b): true exactly when a == b
            if isinstance(c, ast.Call) and len(c.args) == 2 and not c.keywords \
                    and not any(isinstance(a, ast.Starred) for a in c.args) \
                    and (_imported_as(fi, c.func, "operator", ("eq",)) or _imported_as(fi, c.func, "hmac", ("compare_digest",))
                         or _imported_as(fi, c.func, "secrets", ("compare_digest",))):
                if own_prefix(c.args[0]):
                    return head_of(c.args[1])
                if own_prefix(c.args[1]):
                    return head_of(c.args[0])
        return None

    def prefix_ish(x) -> bool:
        return mentions(x, "self._prefix") or mentions(x, lambda c: c.startswith("self.") and c.endswith("prefix()"))

    facts = _site_facts(ctx, fi, cfg, c)
    real = [f for f in facts if not _fact_in_assert(f)]
    checked = {b for b in (compared_buffer(f) for f in real if f.pos) if b is not None}
    # the bytes handed to the handler: values that cannot change inside the function among the arguments
    handed = {k for k in (buffer_key(_expand(fi, x)) for x in hargs if not isinstance(x, ast.Starred)) if k is not None}
    ok = bool(checked & handed)

    # a dominating test that relates self._prefix to the dispatched bytes in a spelling not understood here
    # cannot be judged either way
    def relates(f) -> bool:
        x = _expand(fi, f.atom)
        return compared_buffer(f) is None and prefix_ish(x) and any(h in norm(x) for h in handed)

    undecided = None
    if not ok and any(relates(f) for f in real):
        undecided = (f"undecided: {fi.qualname} tests self._prefix before dispatch in a form this rule "
                     f"does not understand: {[str(f) for f in facts]}")
    return ok, facts, undecided


def _empty_table(e) -> bool:
    """a freshly built table in which every slot is None: [None] * n, [None, None], [None for _ in ...], [], {}, dict()"""
    e = strip_cast(e) if e is not None else None

    def none(x) -> bool:
        return isinstance(x, ast.Constant) and x.value is None

    if isinstance(e, (ast.List, ast.Tuple)):
        return all(none(x) for x in e.elts)
    if isinstance(e, ast.Dict):
        return not e.keys
    if isinstance(e, ast.BinOp) and isinstance(e.op, ast.Mult):
        return any(isinstance(x, (ast.List, ast.Tuple)) and x.elts and all(none(y) for y in x.elts) for x in (e.left, e.right))
    if isinstance(e, ast.ListComp):
        return none(e.elt)
    if isinstance(e, ast.Call) and isinstance(e.func, ast.Name) and e.func.id in ("dict", "list") and not e.args and not e.keywords:
        return True
    return False


def rule_no_bypass(ctx: Ctx) -> None:
    repo = ctx.repo
    # decode_map subscripts used for dispatch (Load context, result called) only in Community.on_packet
    n_reads = 0
    for m in repo.modules.values():
        for n in ast.walk(m.tree):
            if isinstance(n, ast.Attribute) and n.attr == "__wrapped__":
                fi = repo.function_of(n)
                ctx.check(False, "no-bypass", fi.where if fi else m.relpath, n, "no use of __wrapped__",
                          "`__wrapped__` reaches the undecorated handler and skips signature verification")
            if isinstance(n, ast.Subscript) and isinstance(n.ctx, ast.Load) and chain(n.value) and \
                    chain(n.value).endswith(".decode_map"):
                fi = repo.function_of(n)
                n_reads += 1
                where = fi.qualname if fi else "?"
                allowed = where in ("Community.on_packet", "Community.add_message_handler",
                                    "OverlaysEndpoint.statistics_by_name") or (fi is not None and fi.module.relpath.startswith("ipv8/REST/"))
                if not allowed and fi is not None:
                    # a helper that only ever runs as part of on_packet / add_message_handler
                    allowed = _reached_only_from(ctx, fi, ("Community.on_packet", "Community.add_message_handler"))
                ctx.check(allowed, "no-bypass", fi or m.relpath, n, f"decode_map read in {where}",
                          "decode_map is read outside Community.on_packet/add_message_handler: handlers could be "
                          "invoked around the prefix check / exception containment")
    ctx.floor("no-bypass", n_reads, 3)
    # writes to decode_map only in add_message_handler (+ the initialisation)
    for m in repo.modules.values():
        for n in ast.walk(m.tree):
            if isinstance(n, (ast.Assign, ast.AnnAssign)):
                tgts = n.targets if isinstance(n, ast.Assign) else [n.target]
                for t in tgts:
                    c = chain(t)
                    if c and (c.endswith(".decode_map[]") or c.endswith(".decode_map")):
                        fi = repo.function_of(n)
                        where = fi.qualname if fi else "?"
                        w_ok = where in ("Community.add_message_handler", "Community.__init__") or (
                            fi is not None and _reached_only_from(ctx, fi, ("Community.add_message_handler", "Community.__init__")))
                        if not w_ok and c.endswith(".decode_map") and _empty_table(n.value):
                            # storing a table that holds no handler at all (the initialisation, wherever the state
                            # lives - e.g. in the constructor of a small state-holder object) registers nothing
                            w_ok = True
                        ctx.check(w_ok, "no-bypass",
                                  fi or m.relpath, n, f"decode_map written in {where}",
                                  "decode_map is written outside add_message_handler: registration checks bypassed")
    # the authenticated decorators are defined once and not rebound
    for name in sorted(AUTH_DECOS):
        cands = [f for f in repo.all_functions() if f.name == name and f.cls is None and "." not in f.qualname]
        ctx.check(len(cands) == 1 and cands[0].module.relpath == LC, "no-bypass", LC, name,
                  f"single definition of {name}", f"{name} is defined {len(cands)} times (shadowing the verifying decorator)")


_PEER_FILE = "ipv8/peer.py"
_MEMO_DECOS = ("lru_cache", "cache", "functools.lru_cache", "functools.cache", "staticmethod")


def _is_key_parser_call(ctx: Ctx, fi: FuncInfo, c: ast.Call) -> bool:
    """<crypto>.key_from_public_bin(...) - also through a module-level alias of that bound method"""
    if call_name(c) == "key_from_public_bin":
        return True
    if isinstance(c.func, ast.Name) and c.func.id not in _local_names(fi):
        r = ctx.repo.resolve_name(fi.module, c.func.id)
        if isinstance(r, tuple) and r[0] == "const" and (chain(r[2]) or "").endswith(".key_from_public_bin"):
            return True
    return False


def _peer_key_value(ctx: Ctx, fi: FuncInfo, v: ast.AST | None, key_name: str, depth: int = 3) -> tuple[str, str]:
    """
    Is value v - stored as the key object of a Peer that fi builds from parameter `key_name` - the parameter itself
    (a Key instance handed in) or the trusted parser applied to the WHOLE, unmodified parameter?
    -> ('ok' | 'bad' | 'unknown', reason).  'bad' only for a derivation that is recognised and reads a PART of the
    bytes (parser / table indexed with a slice, a suffix, a hash of a part ...); anything not recognised is 'unknown'.
    """
    def whole(a) -> bool:
        return a is not None and _xnorm(fi, a) == key_name and _is_param_unmodified(fi, key_name)

    def combine(rs):
        rs = list(rs)
        for kind in ("bad", "unknown"):
            for r in rs:
                if r[0] == kind:
                    return r
        return ("ok", "") if rs else ("unknown", "no value")

    def part_of_key(a) -> bool:
        x = _expand(fi, a)
        return x is not None and any(isinstance(n, ast.Name) and n.id == key_name for n in ast.walk(x)) and not whole(a)

    def table_lookup(table, k, others=()) -> tuple[str, str]:
        if part_of_key(k):
            return ("bad", f"the key object is taken from `{norm(table)}` under `{_xnorm(fi, k)}`, which is only a part / a "
                           f"function of the key bytes `{key_name}`: different key bins that agree on it are given the same "
                           "key object")
        table = strip_cast(table)
        if not whole(k) or not isinstance(table, ast.Name) or table.id in _local_names(fi) or depth <= 0:
            return ("unknown", f"lookup `{norm(table)}[{norm(k)}]`")
        # a memo table of the module indexed with the whole key bytes: every entry ever stored must be the parse of its index
        name = table.id
        for m in ctx.repo.modules.values():
            if m is not fi.module and any(isinstance(n, ast.alias) and n.name == name for n in ast.walk(m.tree)):
                return ("unknown", f"`{name}` is imported elsewhere")
        rs = [_peer_key_value(ctx, fi, o, key_name, depth - 1) for o in others]
        for n in ast.walk(fi.module.tree):
            if not (isinstance(n, ast.Name) and n.id == name):
                continue
            p = parent(n)
            if isinstance(n.ctx, ast.Store):
                if p is fi.module.tree or isinstance(parent(p), ast.Module):
                    continue                                  # the (empty) table is created at module level
                return ("unknown", f"`{name}` is re-bound")
            if isinstance(p, ast.Subscript) and p.value is n and isinstance(p.ctx, ast.Store):
                st = parent(p)
                g = ctx.repo.function_of(p)
                if g is None or g.node is not fi.node or not isinstance(st, ast.Assign) or len(st.targets) != 1:
                    return ("unknown", f"`{name}` is filled outside {fi.qualname}")
                if not whole(p.slice):
                    return ("bad" if part_of_key(p.slice) else "unknown",
                            f"`{name}` is filled under `{_xnorm(fi, p.slice)}`, not under the whole key bytes")
                rs.append(_peer_key_value(ctx, fi, st.value, key_name, depth - 1))
            elif isinstance(p, ast.Attribute) and p.value is n and p.attr in ("update", "__setitem__", "fromkeys") \
                    or isinstance(p, ast.AugAssign):
                return ("unknown", f"`{name}` is filled by `{p.attr if isinstance(p, ast.Attribute) else '|='}`")
            elif isinstance(p, ast.Attribute) and p.value is n and p.attr == "setdefault":
                c = parent(p)
                g = ctx.repo.function_of(p)
                if not (isinstance(c, ast.Call) and len(c.args) == 2 and g is not None and g.node is fi.node and whole(c.args[0])):
                    return ("unknown", f"`{name}.setdefault` elsewhere")
                rs.append(_peer_key_value(ctx, fi, c.args[1], key_name, depth - 1))
        return combine(rs) if rs else ("unknown", f"`{name}` is never filled")

    v = strip_cast(v) if v is not None else None
    if v is None or depth < 0:
        return ("unknown", "no value")
    if isinstance(v, ast.NamedExpr):
        return _peer_key_value(ctx, fi, v.value, key_name, depth)
    if isinstance(v, ast.Name):
        if v.id == key_name:
            return ("ok", "") if _is_param_unmodified(fi, key_name) else ("unknown", f"`{key_name}` is re-bound")
        defs = local_defs(fi, v.id)
        if v.id in fi.params() or not defs or any(val is None or idx is not None for _, val, idx in defs):
            return ("unknown", f"`{v.id}`")
        return combine(_peer_key_value(ctx, fi, val, key_name, depth - 1) for _, val, _ in defs)
    if isinstance(v, ast.IfExp):
        return combine([_peer_key_value(ctx, fi, v.body, key_name, depth), _peer_key_value(ctx, fi, v.orelse, key_name, depth)])
    if isinstance(v, ast.BoolOp) and isinstance(v.op, ast.Or):
        return combine(_peer_key_value(ctx, fi, x, key_name, depth) for x in v.values)
    if isinstance(v, ast.Subscript) and isinstance(v.ctx, ast.Load):
        return table_lookup(v.value, v.slice)
    if isinstance(v, ast.Call):
        if _is_key_parser_call(ctx, fi, v):
            a = arg(v, 0, "string")
            if whole(a):
                return ("ok", "")
            if a is not None and part_of_key(a):
                return ("bad", f"the key object is parsed from `{_xnorm(fi, a)}`, not from the whole key bytes `{key_name}`")
            return ("unknown", f"`{norm(v)}`")
        f = v.func
        if isinstance(f, ast.Attribute) and f.attr in ("get", "setdefault", "__getitem__", "pop") and 1 <= len(v.args) <= 2 \
                and not v.keywords and not any(isinstance(a, ast.Starred) for a in v.args):
            return table_lookup(f.value, v.args[0], v.args[1:])
        ts = _targets(ctx, fi, v) if isinstance(f, (ast.Name, ast.Attribute)) else []
        if ts and len(ts) <= 2 and depth > 0 and all(
                isinstance(t, FuncInfo) and not t.module.relpath.startswith(_TRUSTED_API) and not t.is_async
                and not isinstance(t.node, ast.Lambda)
                and all((chain(d.func) if isinstance(d, ast.Call) else chain(d)) in _MEMO_DECOS for d in t.node.decorator_list)
                for t in ts):
            # a helper (possibly memoised on its arguments by functools: the same function): every value it returns,
            # judged with its parameter standing for the caller's key bytes
            rs = []
            for t in ts:
                is_method = t.cls is not None and not any(chain(d) == "staticmethod" for d in t.node.decorator_list)
                bound = _bind_call(v, t, receiver=is_method)
                ps = [p for p, a in (bound or {}).items() if whole(a)]
                rets = [r for r in walk_no_nested(t.node) if isinstance(r, ast.Return) and r.value is not None]
                if len(ps) != 1 or not rets or any(isinstance(n, (ast.Yield, ast.YieldFrom)) for n in walk_no_nested(t.node)):
                    return ("unknown", f"helper `{norm(v)}`")
                rs.extend(_peer_key_value(ctx, t, r.value, ps[0], depth - 1) for r in rets)
            return combine(rs)
    return ("unknown", f"`{norm(v)}`")


def rule_peer_identity(ctx: Ctx) -> None:
    """
    The wrappers hand the handler Peer(<verified auth>.public_key_bin) (peer-from-auth-key), and _verify_signature checked
    the signature with key_from_public_bin(<that bin>).  The handler's peer is "exactly that key" only if Peer.__init__
    turns the same bytes into a key object the same way: the trusted parser applied to the whole argument.  (The parsers
    read the key from the front of the bin and tolerate trailing bytes, so any derivation that looks at a part of the bin -
    an interning table indexed with a suffix, a parser fed a slice - can resolve to another key than the one that verified.)
    """
    fi = ctx.repo.method("Peer", "__init__", _PEER_FILE)
    params = fi.params()
    if len(params) < 2:
        raise AnalysisError("anchor-lost: Peer.__init__ signature")
    key_name = params[1]
    sites = []
    for n in walk_no_nested(fi.node):
        if isinstance(n, (ast.Assign, ast.AnnAssign)) and getattr(n, "value", None) is not None:
            tgts = n.targets if isinstance(n, ast.Assign) else [n.target]
            if any(isinstance(t, ast.Attribute) and t.attr == "key" and isinstance(t.value, ast.Name) and t.value.id == params[0]
                   for t in tgts):
                sites.append(n)
    ctx.anchor(sites, "Peer.__init__ stores self.key")
    for st in sites:
        kind, why = _peer_key_value(ctx, fi, st.value, key_name)
        if kind == "unknown":
            raise AnalysisError(f"undecided: cannot follow how Peer.__init__ derives `{norm(st.value)}` from `{key_name}` ({why})")
        ctx.check(kind == "ok", "peer-identity-is-parsed-key", fi, st,
                  f"Peer.__init__: self.key is the `{key_name}` argument itself or key_from_public_bin(<the whole argument>) - the "
                  "same parse of the same bytes that _verify_signature checks the signature with",
                  f"Peer.__init__ does not build the peer's key the way _verify_signature does ({why}): the signature of a datagram "
                  "is checked with key_from_public_bin(auth.public_key_bin), which reads the key from the front of the bin, but "
                  "the Peer(auth.public_key_bin) handed to the authenticated handler - and stored as verified peer - can then "
                  "carry ANOTHER key, so a message is attributed to a key whose private half the sender does not hold")


# ------------------------------------------------------------------------------------------ thin wrappers of _verify_signature
def _thin_vs_wrapper(ctx: Ctx, h: FuncInfo):
    """
    Is helper h a thin wrapper around `_verify_signature` - one `<its first parameter>._verify_signature(<own parameter>,
    <own parameter>)` call and nothing else that matters, its result handed back?  ->
      ('same', call)      the result is the call's result (returned directly, or unpacked into two names returned in the same order),
      ('swapped', call)   the two names are returned in the opposite order,
      ('other', call)     on every return the same component is the call's verdict (the name it was unpacked into, the literal
                          False, or the literal True where that name is known to be true) and the other components are the two
                          names / rejecting literals (a record, a branch per verdict): behaviour-preserving, but not rewritten,
      None                anything else (a constant verdict, a slice of the datagram, other calls: judged by the other rules).
    """
    node = h.node
    if isinstance(node, ast.Lambda) or h.is_async or node.decorator_list and not all(chain(d) == "staticmethod" for d in node.decorator_list) \
            or h.name == "_verify_signature" or len(h.params()) < 3:
        return None
    if any(isinstance(n, (ast.Yield, ast.YieldFrom, ast.Await, ast.Global, ast.Nonlocal, ast.Try, ast.With, ast.For, ast.While,
                          ast.FunctionDef, ast.AsyncFunctionDef, ast.Lambda, ast.ClassDef)) for n in walk_no_nested(node) if n is not node):
        return None
    recv = h.params()[0]
    vcalls = [c for c in calls(h) if isinstance(c.func, ast.Attribute) and c.func.attr == "_verify_signature"]
    if len(vcalls) != 1:
        return None
    vc = vcalls[0]
    if not (isinstance(vc.func.value, ast.Name) and vc.func.value.id == recv and _is_param_unmodified(h, recv)) or len(vc.args) + len(vc.keywords) != 2:
        return None
    own = []
    for a in [*vc.args, *[k.value for k in vc.keywords]]:
        if not (isinstance(a, ast.Name) and a.id != recv and _is_param_unmodified(h, a.id)):
            return None
        own.append(a.id)
    if len(set(own)) != 2 or any(k.arg is None for k in vc.keywords):
        return None
    body = [st for st in node.body if not (isinstance(st, ast.Expr) and isinstance(st.value, ast.Constant))]
    if len(body) == 1 and isinstance(body[0], ast.Return) and body[0].value is vc:
        return "same", vc
    if not body or not isinstance(body[0], ast.Assign) or body[0].value is not vc or len(body[0].targets) != 1:
        return None
    tg = body[0].targets[0]
    if not (isinstance(tg, ast.Tuple) and len(tg.elts) == 2 and all(isinstance(x, ast.Name) for x in tg.elts)):
        return None
    a, b = tg.elts[0].id, tg.elts[1].id
    if a == b or a in h.params() or b in h.params() or len(local_defs(h, a)) != 1 or len(local_defs(h, b)) != 1:
        return None
    vs = _vs_contract(ctx)
    if not vs.derived or vs.fields or (vs.verdict_idx, vs.remainder_idx) != (0, 1) or vs.verdict_enc is not None:
        return None
    rets = [n for n in walk_no_nested(node) if isinstance(n, ast.Return)]
    allowed_calls = {id(vc)}
    shapes = []
    hcfg = ctx.cfg(h)
    if hcfg.exit in hcfg.reach(cut_nodes=[n for r in rets for n in hcfg.nodes_for(r)]):
        return None
    for r in rets:
        v = strip_cast(r.value) if r.value is not None else None
        if isinstance(v, ast.Tuple):
            comps = list(v.elts)
        elif isinstance(v, ast.Call) and isinstance(v.func, ast.Name) and isinstance(ctx.repo.resolve_name(h.module, v.func.id), ClassInfo) \
                and not any(k.arg is None for k in v.keywords):
            comps = [*v.args, *[k.value for k in v.keywords]]
            allowed_calls.add(id(v))
        else:
            return None
        row = []
        for x in comps:
            if isinstance(x, ast.Name) and x.id in (a, b):
                row.append(x.id)
            elif isinstance(x, ast.Constant) and (x.value is False or x.value is None):
                row.append(False)
            elif isinstance(x, ast.Constant) and x.value is True and any(
                    f.op == "truthy" and f.pos and isinstance(f.left, ast.Name) and f.left.id == a for f in facts_at(hcfg, r)):
                row.append(a)
            else:
                return None
        shapes.append(row)
    if any(id(c) not in allowed_calls for c in calls(h)):
        return None
    # only tests of the verdict name may steer the helper
    for n in walk_no_nested(node):
        if isinstance(n, (ast.If, ast.IfExp)) and not all(isinstance(x, (ast.Name, ast.UnaryOp, ast.Not, ast.Load)) and
                                                          (not isinstance(x, ast.Name) or x.id == a) for x in ast.walk(n.test)):
            return None
        if isinstance(n, (ast.Assign, ast.AugAssign, ast.AnnAssign, ast.NamedExpr, ast.Delete)) and n is not body[0]:
            return None
    if len(body) == 2 and isinstance(body[1], ast.Return) and isinstance(strip_cast(body[1].value), ast.Tuple):
        if shapes == [[a, b]]:
            return "same", vc
        if shapes == [[b, a]]:
            return "swapped", vc
    if len({len(r) for r in shapes}) != 1:
        return None
    for j in range(len(shapes[0])):
        if all(r[j] in (a, False) for r in shapes) and any(r[j] == a for r in shapes) \
                and all(x != a for r in shapes for i, x in enumerate(r) if i != j):
            return "other", vc
    return None


def _rewrite_thin_vs_wrappers(ctx: Ctx) -> None:
    """
    `ok, rest = self._check(auth, data)` where every target of `_check` only passes its own parameters to `_verify_signature`
    and hands the result back is `ok, rest = self._verify_signature(auth, data)`: the call is rewritten to that (in the model of
    this run, before any control-flow graph is built), the two targets exchanged when the wrapper returns (remainder, verdict).
    Wrappers that hand the same two values back in another form (a record, a branch per verdict) are remembered: a caller of
    one that the rules cannot follow is undecided, never a violation.
    """
    if getattr(ctx.repo, "_c01_thin_done", False):
        return
    ctx.repo._c01_thin_done = True            # type: ignore[attr-defined]
    thin: dict = {}
    for h in ctx.repo.all_functions():
        if isinstance(h.node, ast.Lambda) or not any(isinstance(n, ast.Attribute) and n.attr == "_verify_signature" for n in ast.walk(h.node)):
            continue
        try:
            k = _thin_vs_wrapper(ctx, h)
        except (AnalysisError, RecursionError):
            k = None
        if k is not None:
            thin[id(h.node)] = (h, *k)
    ctx.repo._c01_thin_other = {}             # type: ignore[attr-defined]
    if not thin:
        return
    names = {t[0].name for t in thin.values()}
    for fi in list(ctx.repo.all_functions()):
        if isinstance(fi.node, ast.Lambda) or id(fi.node) in thin:
            continue
        for c in [c for c in calls(fi) if call_name(c) in names]:
            try:
                targets = _targets(ctx, fi, c)
            except (AnalysisError, RecursionError):
                continue
            if not targets or not all(isinstance(t, FuncInfo) for t in targets):
                continue
            for t in targets:
                if id(t.node) not in thin:        # the copy of a module-level function whose first parameter is spelled `self`
                    try:
                        k = _thin_vs_wrapper(ctx, t)
                    except (AnalysisError, RecursionError):
                        k = None
                    if k is not None:
                        thin[id(t.node)] = (t, *k)
            if not all(id(t.node) in thin for t in targets):
                continue
            kinds = {thin[id(t.node)][1] for t in targets}
            new_args = None
            if len(kinds) == 1 and kinds <= {"same", "swapped"}:
                for t in targets:
                    _h, _k, vc = thin[id(t.node)]
                    is_method = t.cls is not None and not any(chain(d) == "staticmethod" for d in t.node.decorator_list)
                    bound = _bind_call(c, t, receiver=False) if not is_method else _bind_call(c, t, receiver=True)
                    recv = c.func.value if is_method and isinstance(c.func, ast.Attribute) else (bound or {}).get(t.params()[0])
                    if bound is None or not (isinstance(recv, ast.Name) and recv.id == "self"):
                        new_args = None
                        break
                    pos = [bound.get(x.id) for x in vc.args]
                    kws = [(k.arg, bound.get(k.value.id)) for k in vc.keywords]
                    if any(x is None for x in pos) or any(v is None for _, v in kws):
                        new_args = None
                        break
                    sig = ([norm(x) for x in pos], [(k, norm(v)) for k, v in kws])
                    if new_args is not None and new_args[2] != sig:
                        new_args = None
                        break
                    new_args = (pos, kws, sig)
            st = enclosing_stmt(c)
            swap_ok = isinstance(st, ast.Assign) and st.value is c and len(st.targets) == 1 and isinstance(st.targets[0], ast.Tuple) \
                and len(st.targets[0].elts) == 2 and not any(isinstance(x, ast.Starred) for x in st.targets[0].elts)
            if new_args is None or (kinds == {"swapped"} and not swap_ok):
                ctx.repo._c01_thin_other.setdefault(id(fi.node), []).append(norm(c.func))
                continue
            func = ast.Attribute(value=ast.Name(id="self", ctx=ast.Load()), attr="_verify_signature", ctx=ast.Load())
            c.func = func
            c.args = [clone(x) for x in new_args[0]]
            c.keywords = [ast.keyword(arg=k, value=clone(v)) for k, v in new_args[1]]
            if kinds == {"swapped"}:
                st.targets[0].elts.reverse()
            for x in ast.walk(c):
                if not hasattr(x, "lineno"):
                    ast.copy_location(x, c)
            for x in ast.walk(c):
                for y in ast.iter_child_nodes(x):
                    y._parent = x             # type: ignore[attr-defined]
            ctx._cfgs.pop(id(fi.node), None)


def run(ctx: Ctx) -> None:
    _rewrite_thin_vs_wrappers(ctx)
    rule_wrappers(ctx)
    rule_peer_identity(ctx)
    rule_effects_after_verdict(ctx)
    rule_verify_signature(ctx)
    rule_sign_side(ctx)
    rule_is_valid_signature(ctx)
    rule_handler_table(ctx)
    rule_own_prefix(ctx)
    rule_no_bypass(ctx)
    # last: what this rule cannot read (a manual handler whose decoding another rule has just reported as broken - its
    # _ez_unpack_auth no longer verifies, its fallback no longer authenticates) must not hide that report behind `undecided`
    try:
        rule_manual_handlers(ctx)
    except AnalysisError:
        if not ctx.findings:
            raise
    ctx.assume("signature primitive (libnacl / OpenSSL keys behind Key.verify) is unforgeable: trusted")
    ctx.assume("Serializer.unpack_serializable decodes BinMemberAuthenticationPayload as a 2-byte length + key (C02 covers the codec)")


_LC = "ipv8/lazy_community.py"
_WD_BODY = """            # UNPACK
            auth, _ = self.serializer.unpack_serializable(BinMemberAuthenticationPayload, data, offset=23)
            signature_valid, remainder = self._verify_signature(auth, data)
            unpacked = self.serializer.unpack_serializable_list(payloads, remainder, offset=23)
            # ASSERT
            if not signature_valid:
                payloads_list = [payload_class.__name__ for payload_class in payloads]
                msg = f"Incoming packet {payloads_list!s} has an invalid signature"
                raise PacketDecodingError(msg)
            # PRODUCE
            output = [*unpacked, data]
            peer = self.network.verified_by_public_key_bin.get(auth.public_key_bin)
            if peer:
                peer.add_address(source_address)
            return func(self, peer or Peer(auth.public_key_bin, source_address), *output)
"""
_WD_VIA_METHODS = """            auth, unpacked = self._unpack_signed(payloads, data)
            return func(self, self._sender_of(auth, source_address), *unpacked, data)
"""
_UNPACK_METHODS = """    def _unpack_signed(self, payloads, data: bytes):
        auth, _ = self.serializer.unpack_serializable(BinMemberAuthenticationPayload, data, offset=23)
        signature_valid, remainder = self._verify_signature(auth, data)
        unpacked = self.serializer.unpack_serializable_list(payloads, remainder, offset=23)
        if not signature_valid:
            payloads_list = [payload_class.__name__ for payload_class in payloads]
            msg = f"Incoming packet {payloads_list!s} has an invalid signature"
            raise PacketDecodingError(msg)
        return auth, unpacked

    def _sender_of(self, auth: BinMemberAuthenticationPayload, source_address: Address) -> Peer:
        peer = self.network.verified_by_public_key_bin.get(auth.public_key_bin)
        if not peer:
            return Peer(auth.public_key_bin, source_address)
        peer.add_address(source_address)
        return peer

    def _ez_unpack_auth(self,
"""
_ONP_GUARD = """        if self._prefix != data[:22] or len(data) < 23:
            return
        msg_id = data[22]
"""
_ONP_VIA_HELPER = """        msg_id = self._claimed(data, strict=True)
        if msg_id is None:
            return
"""
_CLAIMED_HELPER = """    def _claimed(self, data: bytes, **options: bool) -> int | None:
        if len(data) < 23:
            return None
        if data[:22] != self._prefix:
            return None
        return data[22]

"""
_W_VERIFY = """            signature_valid, remainder = self._verify_signature(auth, data)
            unpacked = self.serializer.unpack_serializable_list(payloads, remainder, offset=23)
            # ASSERT
            if not signature_valid:
                msg = (f"""
_W_PRODUCE = """            peer = self.network.verified_by_public_key_bin.get(auth.public_key_bin)
            if peer:
                peer.add_address(source_address)
            return func(self, peer or Peer(auth.public_key_bin, source_address), *unpacked)
"""
_SENDER_HELPER = """def _sender_peer(overlay: Overlay, public_key_bin: bytes, source_address: Address, **options: bool) -> Peer:
    known = overlay.network.verified_by_public_key_bin.get(public_key_bin)
    if known:
        known.add_address(source_address)
    return known or Peer(public_key_bin, source_address)


def cache_retrieval_failed("""
_UTIL = "ipv8/util.py"
_CM = "ipv8/community.py"
_VS_BODY = """        ec = default_eccrypto
        public_key = ec.key_from_public_bin(auth.public_key_bin)
        signature_length = ec.get_signature_length(public_key)
        remainder = data[2 + len(auth.public_key_bin):-signature_length]
        signature = data[-signature_length:]
        return ec.is_valid_signature(public_key, data[:-signature_length], signature), remainder
"""
_VS_MOVED = """def _check_datagram(key_bin: bytes, data: bytes):
    from .keyvault.crypto import default_eccrypto as ec
    public_key = ec.key_from_public_bin(key_bin)
    n = ec.get_signature_length(public_key)
    return ec.is_valid_signature(public_key, data[%s:-n], data[-n:]), data[struct.calcsize(">H") + len(key_bin):-n]


def strip_sha1_padding("""
_VS_MOVED_BRANCHY = """def _check_datagram(key_bin: bytes, data: bytes):
    from .keyvault.crypto import default_eccrypto as ec
    public_key = ec.key_from_public_bin(key_bin)
    n = ec.get_signature_length(public_key)
    if len(data) < n:
        return False, b""
    return ec.is_valid_signature(public_key, data[%s:-n], data[-n:]), data[2 + len(key_bin):-n]


def strip_sha1_padding("""
_W_BLOCK = """            # UNPACK
            auth, _ = self.serializer.unpack_serializable(BinMemberAuthenticationPayload, data, offset=23)
            signature_valid, remainder = self._verify_signature(auth, data)
            unpacked = self.serializer.unpack_serializable_list(payloads, remainder, offset=23)
            # ASSERT
            if not signature_valid:
                msg = (f"Incoming packet {[payload_class.__name__ for payload_class in payloads]!s}"
                       " has an invalid signature")
                raise PacketDecodingError(msg)
            # PRODUCE
            peer = self.network.verified_by_public_key_bin.get(auth.public_key_bin)
            if peer:
                peer.add_address(source_address)
            return func(self, peer or Peer(auth.public_key_bin, source_address), *unpacked)
"""
_W_MOVED_CALL = """            peer, unpacked = _authenticate(self, payloads, source_address, data)
            return func(self, peer, *unpacked)
"""
_AUTH_MOVED_OK = """def _authenticate(overlay, payloads, source_address, data):
    from .messaging.payload_headers import BinMemberAuthenticationPayload
    from .peer import Peer
    auth, _ = overlay.serializer.unpack_serializable(BinMemberAuthenticationPayload, data, offset=23)
    signature_valid, remainder = overlay._verify_signature(auth, data)
    unpacked = overlay.serializer.unpack_serializable_list(payloads, remainder, offset=23)
    if not signature_valid:
        raise RuntimeError("invalid signature")
    peer = overlay.network.verified_by_public_key_bin.get(auth.public_key_bin)
    if peer:
        peer.add_address(source_address)
    return peer or Peer(auth.public_key_bin, source_address), unpacked


def strip_sha1_padding("""
_AUTH_MOVED_EARLY = _AUTH_MOVED_OK.replace("""    if not signature_valid:
        raise RuntimeError("invalid signature")
    peer = overlay.network.verified_by_public_key_bin.get(auth.public_key_bin)
    if peer:
        peer.add_address(source_address)
""", """    peer = overlay.network.verified_by_public_key_bin.get(auth.public_key_bin)
    if peer:
        peer.add_address(source_address)
    if not signature_valid:
        raise RuntimeError("invalid signature")
""")
_AUTH_MOVED_WRONG_PEER = _AUTH_MOVED_OK.replace("return peer or Peer(auth.public_key_bin, source_address), unpacked",
                                                "return peer or Peer(unpacked[0].public_key_bin, source_address), unpacked")
_PACK_BODY = """        packet = prefix + bytes([msg_num]) + self.serializer.pack_serializable_list(payloads)
        if sig:
            packet += default_eccrypto.create_signature(cast("PrivateKey", self.my_peer.key), packet)
        return packet
"""
_PACK_MOVED = """def _pack_signed(overlay, prefix, msg_num, payloads, sig=True):
    from .keyvault.crypto import default_eccrypto
    packet = prefix + bytes([msg_num]) + overlay.serializer.pack_serializable_list(payloads)
    if sig:
        packet += default_eccrypto.create_signature(overlay.my_peer.key, packet%s)
    return packet


def strip_sha1_padding("""
_ONP_DISPATCH = """        if self._prefix != data[:22] or len(data) < 23:
            return
        msg_id = data[22]
        handler = self.decode_map[msg_id]
        if handler is not None:
            try:
                result: Coroutine | None = handler(source_address, data)
                if iscoroutine(result):
                    aw_result = cast("Awaitable", result)
                    self.register_anonymous_task("on_packet", ensure_future(aw_result), ignore=(Exception,))
            except Exception:
                self.logger.exception("Exception occurred while handling packet!\\n%s",
                                      "".join(format_exception(*sys.exc_info())))
        elif warn_unknown:
            self.logger.warning("Received unknown message: %d from (%s, %d)", msg_id, *source_address)
"""
_ONP_TAIL = """        self._dispatch_packet(source_address, data, warn_unknown)

    @_own_prefix_only
    def _dispatch_packet(self, source_address: Address, data: bytes, warn_unknown: bool) -> None:
        if len(data) < 23:
            return
        msg_id = data[22]
        handler = self.decode_map[msg_id]
        if handler is not None:
            try:
                result: Coroutine | None = handler(source_address, data)
                if iscoroutine(result):
                    aw_result = cast("Awaitable", result)
                    self.register_anonymous_task("on_packet", ensure_future(aw_result), ignore=(Exception,))
            except Exception:
                self.logger.exception("Exception occurred while handling packet!\\n%s",
                                      "".join(format_exception(*sys.exc_info())))
        elif warn_unknown:
            self.logger.warning("Received unknown message: %d from (%s, %d)", msg_id, *source_address)
"""
_PREFIX_DECO = """

def _own_prefix_only(func):
    def wrapper(self, source_address, data, *args):
        if self._prefix != data[:%s]:
            return None
        return func(self, source_address, data, *args)
    return wrapper

DEFAULT_MAX_PEERS = 30"""
_GUARD_DECO = """

def _when_started(func):
    def wrapper(self, source_address, data):
        if self.network is None:
            self.logger.debug("dropping")
            return None
        return func(self, %s, data)
    return wrapper

DEFAULT_MAX_PEERS = 30"""
_H_PUNCTURE = """    @lazy_wrapper(GlobalTimeDistributionPayload, PuncturePayload)
    def on_puncture("""
_ROUND4_WITNESSES = [
    {"name": "round 4: _verify_signature delegates to a function of another module that verifies only part of the datagram",
     "file": _LC, "rule": "whole-prefix",
     "edits": [{"file": _LC, "old": _VS_BODY, "new": "        return _check_datagram(auth.public_key_bin, data)\n"},
               {"file": _LC, "old": "from .peer import Peer\n", "new": "from .peer import Peer\nfrom .util import _check_datagram\n"},
               {"file": _UTIL, "old": "def strip_sha1_padding(", "new": _VS_MOVED % "23"}]},
    {"name": "round 4: _verify_signature delegates to a function of another module (derived header length), whole datagram",
     "kind": "repaired", "file": _LC, "rule": "whole-prefix",
     "edits": [{"file": _LC, "old": _VS_BODY, "new": "        return _check_datagram(auth.public_key_bin, data)\n"},
               {"file": _LC, "old": "from .peer import Peer\n", "new": "from .peer import Peer\nfrom .util import _check_datagram\n"},
               {"file": _UTIL, "old": "def strip_sha1_padding(", "new": _VS_MOVED % ""}]},
    {"name": "round 4: _verify_signature is a thin delegation to a branching function that verifies only part of the datagram",
     "file": _UTIL, "rule": "whole-prefix",
     "edits": [{"file": _LC, "old": _VS_BODY, "new": "        return _check_datagram(auth.public_key_bin, data)\n"},
               {"file": _LC, "old": "from .peer import Peer\n", "new": "from .peer import Peer\nfrom .util import _check_datagram\n"},
               {"file": _UTIL, "old": "def strip_sha1_padding(", "new": _VS_MOVED_BRANCHY % "23"}]},
    {"name": "round 4: thin delegation to a branching function (early `invalid` return), whole datagram verified",
     "kind": "repaired", "file": _LC, "rule": "whole-prefix",
     "edits": [{"file": _LC, "old": _VS_BODY, "new": "        return _check_datagram(auth.public_key_bin, data)\n"},
               {"file": _LC, "old": "from .peer import Peer\n", "new": "from .peer import Peer\nfrom .util import _check_datagram\n"},
               {"file": _UTIL, "old": "def strip_sha1_padding(", "new": _VS_MOVED_BRANCHY % ""}]},
    {"name": "round 4: wrapper block moved to a function of another module that re-homes the peer before the verdict",
     "file": _UTIL, "rule": "effect-after-verdict",
     "edits": [{"file": _LC, "old": _W_BLOCK, "new": _W_MOVED_CALL},
               {"file": _LC, "old": "from .peer import Peer\n", "new": "from .peer import Peer\nfrom .util import _authenticate\n"},
               {"file": _UTIL, "old": "def strip_sha1_padding(", "new": _AUTH_MOVED_EARLY}]},
    {"name": "round 4: wrapper block moved to a function of another module that builds the peer from another key",
     "file": _LC, "rule": "peer-from-auth-key",
     "edits": [{"file": _LC, "old": _W_BLOCK, "new": _W_MOVED_CALL},
               {"file": _LC, "old": "from .peer import Peer\n", "new": "from .peer import Peer\nfrom .util import _authenticate\n"},
               {"file": _UTIL, "old": "def strip_sha1_padding(", "new": _AUTH_MOVED_WRONG_PEER}]},
    {"name": "round 4: wrapper block moved unchanged to a function of another module that takes the overlay",
     "kind": "repaired", "file": _LC, "rule": "verify-before-call",
     "edits": [{"file": _LC, "old": _W_BLOCK, "new": _W_MOVED_CALL},
               {"file": _LC, "old": "from .peer import Peer\n", "new": "from .peer import Peer\nfrom .util import _authenticate\n"},
               {"file": _UTIL, "old": "def strip_sha1_padding(", "new": _AUTH_MOVED_OK}]},
    {"name": "round 4: packer moved to a function of another module that signs the packet without its prefix",
     "file": _UTIL, "rule": "sign-covers-all",
     "edits": [{"file": _LC, "old": _PACK_BODY, "new": "        return _pack_signed(self, prefix, msg_num, payloads, sig)\n"},
               {"file": _LC, "old": "from .peer import Peer\n", "new": "from .peer import Peer\nfrom .util import _pack_signed\n"},
               {"file": _UTIL, "old": "def strip_sha1_padding(", "new": _PACK_MOVED % "[22:]"}]},
    {"name": "round 4: packer moved unchanged to a function of another module",
     "kind": "repaired", "file": _LC, "rule": "sign-covers-all",
     "edits": [{"file": _LC, "old": _PACK_BODY, "new": "        return _pack_signed(self, prefix, msg_num, payloads, sig)\n"},
               {"file": _LC, "old": "from .peer import Peer\n", "new": "from .peer import Peer\nfrom .util import _pack_signed\n"},
               {"file": _UTIL, "old": "def strip_sha1_padding(", "new": _PACK_MOVED % ""}]},
    {"name": "round 4: prefix comparison moved to a guard decorator of a tail method, but compares 21 bytes only",
     "file": _CM, "rule": "own-prefix-before-dispatch",
     "edits": [{"file": _CM, "old": _ONP_DISPATCH, "new": _ONP_TAIL},
               {"file": _CM, "old": "\n\nDEFAULT_MAX_PEERS = 30", "new": _PREFIX_DECO % "21"}]},
    {"name": "round 4: prefix comparison moved to a guard decorator of a tail method",
     "kind": "repaired", "file": _CM, "rule": "own-prefix-before-dispatch",
     "edits": [{"file": _CM, "old": _ONP_DISPATCH, "new": _ONP_TAIL},
               {"file": _CM, "old": "\n\nDEFAULT_MAX_PEERS = 30", "new": _PREFIX_DECO % "22"}]},
    {"name": "round 4: prefix comparison spelled any((...)) with the wrong polarity",
     "file": _CM, "rule": "own-prefix-before-dispatch", "allow_error": True,
     "old": "        if self._prefix != data[:22] or len(data) < 23:\n",
     "new": "        if all((self._prefix != data[:22], len(data) < 23)):\n"},
    {"name": "round 4: prefix comparison spelled `if any((...)): return`",
     "kind": "repaired", "file": _CM, "rule": "own-prefix-before-dispatch",
     "old": "        if self._prefix != data[:22] or len(data) < 23:\n",
     "new": "        if any((self._prefix != data[:22], len(data) < 23)):\n"},
    {"name": "round 4: a decorator outside lazy_wrapper that hands the handler another source address is not a guard",
     "file": _CM, "rule": "handler-auth",
     "edits": [{"file": _CM, "old": _H_PUNCTURE, "new": "    @_when_started\n" + _H_PUNCTURE},
               {"file": _CM, "old": "\n\nDEFAULT_MAX_PEERS = 30", "new": _GUARD_DECO % "self.my_estimated_wan"}]},
    {"name": "round 4: a guard decorator outside lazy_wrapper (drops the datagram or passes it on unchanged)",
     "kind": "repaired", "file": _CM, "rule": "handler-auth",
     "edits": [{"file": _CM, "old": _H_PUNCTURE, "new": "    @_when_started\n" + _H_PUNCTURE},
               {"file": _CM, "old": "\n\nDEFAULT_MAX_PEERS = 30", "new": _GUARD_DECO % "source_address"}]},
]
WITNESSES = [
    {"name": "lazy_wrapper: verified-peer lookup AND add_address hoisted before the signature check (seeded C01-m11)",
     "file": _LC, "rule": "effect-after-verdict",
     "edits": [{"file": _LC, "old": _W_VERIFY,
                "new": "            peer = self.network.verified_by_public_key_bin.get(auth.public_key_bin)\n"
                       "            if peer:\n                peer.add_address(source_address)\n"
                       "            else:\n                peer = Peer(auth.public_key_bin, source_address)\n" + _W_VERIFY},
               {"file": _LC, "old": _W_PRODUCE, "new": "            return func(self, peer, *unpacked)\n"}]},
    {"name": "lazy_wrapper: only the (pure) lookup is hoisted before the signature check, add_address stays after it",
     "kind": "repaired", "file": _LC, "rule": "effect-after-verdict",
     "edits": [{"file": _LC, "old": _W_VERIFY,
                "new": "            peer = self.network.verified_by_public_key_bin.get(auth.public_key_bin)\n" + _W_VERIFY},
               {"file": _LC, "old": _W_PRODUCE,
                "new": "            if peer:\n                peer.add_address(source_address)\n"
                       "            return func(self, peer or Peer(auth.public_key_bin, source_address), *unpacked)\n"}]},
    {"name": "lazy_wrapper: sender resolved (with add_address) by a module helper that is called before the signature check",
     "file": _LC, "rule": "effect-after-verdict",
     "edits": [{"file": _LC, "old": "def cache_retrieval_failed(", "new": _SENDER_HELPER},
               {"file": _LC, "old": _W_VERIFY,
                "new": "            sender = _sender_peer(self, auth.public_key_bin, source_address, strict=True)\n" + _W_VERIFY},
               {"file": _LC, "old": _W_PRODUCE, "new": "            return func(self, sender, *unpacked)\n"}]},
    {"name": "lazy_wrapper: sender resolved (with add_address) by a module helper called in the handler call",
     "kind": "repaired", "file": _LC, "rule": "effect-after-verdict",
     "edits": [{"file": _LC, "old": "def cache_retrieval_failed(", "new": _SENDER_HELPER},
               {"file": _LC, "old": _W_PRODUCE,
                "new": "            return func(self, _sender_peer(self, auth.public_key_bin, source_address, strict=True), *unpacked)\n"}]},
    {"name": "wrapper: signature check removed", "file": _LC, "rule": "verify-before-call",
     "old": """            if not signature_valid:
                msg = (f"Incoming packet {[payload_class.__name__ for payload_class in payloads]!s}"
                       " has an invalid signature")
                raise PacketDecodingError(msg)
""", "new": ""},
    {"name": "wrapper_wd: raise replaced by log", "file": _LC, "rule": "verify-before-call",
     "old": """                msg = f"Incoming packet {payloads_list!s} has an invalid signature"
                raise PacketDecodingError(msg)""",
     "new": """                msg = f"Incoming packet {payloads_list!s} has an invalid signature"
                self.logger.warning(msg)"""},
    {"name": "ez_unpack_auth: check inverted", "file": _LC, "rule": "verify-before-call",
     "old": """        if not signature_valid:
            msg = f"Incoming packet {payload_class.__name__} has an invalid signature\"""",
     "new": """        if signature_valid is None:
            msg = f"Incoming packet {payload_class.__name__} has an invalid signature\""""},
    {"name": "verify only part of datagram", "file": _LC, "rule": "whole-prefix",
     "old": "return ec.is_valid_signature(public_key, data[:-signature_length], signature), remainder",
     "new": "return ec.is_valid_signature(public_key, data[23:-signature_length], signature), remainder"},
    {"name": "verify with own key instead of carried key", "file": _LC, "rule": "whole-prefix",
     "old": "public_key = ec.key_from_public_bin(auth.public_key_bin)",
     "new": "public_key = self.my_peer.public_key"},
    {"name": "constant signature length", "file": _LC, "rule": "whole-prefix",
     "old": "signature = data[-signature_length:]", "new": "signature = data[-64:]"},
    {"name": "peer from address lookup instead of key", "file": _LC, "rule": "peer-from-auth-key",
     "old": """            peer = self.network.verified_by_public_key_bin.get(auth.public_key_bin)
            if peer:
                peer.add_address(source_address)
            return func(self, peer or Peer(auth.public_key_bin, source_address), *unpacked)""",
     "new": """            peer = self.network.get_verified_by_address(source_address)
            if peer:
                peer.add_address(source_address)
            return func(self, peer or Peer(auth.public_key_bin, source_address), *unpacked)"""},
    {"name": "payloads decoded from raw data not remainder", "file": _LC, "rule": "payload-from-signed-bytes",
     "old": """            unpacked = self.serializer.unpack_serializable_list(payloads, remainder, offset=23)
            # ASSERT
            if not signature_valid:
                payloads_list""",
     "new": """            unpacked = self.serializer.unpack_serializable_list(payloads, data, offset=23 + 2 + len(auth.public_key_bin))
            # ASSERT
            if not signature_valid:
                payloads_list"""},
    {"name": "sign before payloads appended", "file": _LC, "rule": "sign-covers-all",
     "old": """        packet = prefix + bytes([msg_num]) + self.serializer.pack_serializable_list(payloads)
        if sig:
            packet += default_eccrypto.create_signature(cast("PrivateKey", self.my_peer.key), packet)""",
     "new": """        body = self.serializer.pack_serializable_list(payloads)
        packet = prefix + bytes([msg_num]) + body
        if sig:
            packet += default_eccrypto.create_signature(cast("PrivateKey", self.my_peer.key), body)"""},
    {"name": "is_valid_signature swallows into True", "file": "ipv8/keyvault/crypto.py", "rule": "exception-safe-validate",
     "old": """            return ec_key.verify(signature, data)
        except Exception:
            return False""",
     "new": """            ec_key.verify(signature, data)
        except Exception:
            return False
        return True"""},
    {"name": "handler downgraded to unsigned", "file": "ipv8/dht/community.py", "rule": "handler-auth",
     "edits": [
         {"file": "ipv8/dht/community.py", "old": "    @lazy_wrapper(StoreRequestPayload)\n",
          "new": "    @lazy_wrapper_unsigned(StoreRequestPayload)\n"},
         {"file": "ipv8/dht/community.py", "old": "from ..lazy_community import ",
          "new": "from ..lazy_community import lazy_wrapper_unsigned, "}]},
    {"name": "subclass override without decorator", "file": "ipv8/dht/discovery.py", "rule": "handler-auth",
     "old": """    @lazy_wrapper_wd(PingRequestPayload)
    def on_ping_request(self, peer: Peer, payload: PingRequestPayload, data: bytes) -> None:""",
     "new": """    def on_ping_request(self, peer: Peer, payload: PingRequestPayload, data: bytes = b"") -> None:"""},
    {"name": "manual handler skips auth on fallback", "file": "ipv8/peerdiscovery/community.py", "rule": "handler-auth",
     "old": """        except (PacketDecodingError, PackError):
            auth, _, payload = self._ez_unpack_auth(IntroductionRequestPayload, data)""",
     "new": """        except (PacketDecodingError, PackError):
            auth, _ = self.serializer.unpack_serializable(BinMemberAuthenticationPayload, data, offset=23)
            _, payload = self._ez_unpack_noauth(IntroductionRequestPayload, data[2 + len(auth.public_key_bin):])"""},
    {"name": "wrapper_wd: signature check turned into an assert (gone under python -O)", "file": _LC,
     "rule": "verify-before-call",
     "old": """            if not signature_valid:
                payloads_list = [payload_class.__name__ for payload_class in payloads]
                msg = f"Incoming packet {payloads_list!s} has an invalid signature"
                raise PacketDecodingError(msg)""",
     "new": """            assert signature_valid, "Incoming packet has an invalid signature\""""},
    {"name": "on_packet: own-prefix comparison dropped, length check kept", "file": "ipv8/community.py",
     "rule": "own-prefix-before-dispatch",
     "old": "if self._prefix != data[:22] or len(data) < 23:", "new": "if len(data) < 23:"},
    {"name": "on_packet: prefix compared on other bytes than the ones dispatched", "file": "ipv8/community.py",
     "rule": "own-prefix-before-dispatch",
     "old": "if self._prefix != data[:22] or len(data) < 23:",
     "new": "if self._prefix != self._prefix[:22] or len(data) < 23:"},
    {"name": "is_valid_signature: verdict local defaults to True on exception", "file": "ipv8/keyvault/crypto.py",
     "rule": "exception-safe-validate",
     "old": """            return ec_key.verify(signature, data)
        except Exception:
            return False""",
     "new": """            verdict = ec_key.verify(signature, data)
        except Exception:
            verdict = True
        return verdict"""},
    {"name": "wrapper: fresh Peer on the unknown-key branch built from another key", "file": _LC, "rule": "peer-from-auth-key",
     "old": """            peer = self.network.verified_by_public_key_bin.get(auth.public_key_bin)
            if peer:
                peer.add_address(source_address)
            return func(self, peer or Peer(auth.public_key_bin, source_address), *unpacked)""",
     "new": """            if auth.public_key_bin in self.network.verified_by_public_key_bin:
                peer = self.network.verified_by_public_key_bin[auth.public_key_bin]
                peer.add_address(source_address)
            else:
                peer = Peer(self.my_peer.public_key.key_to_bin(), source_address)
            return func(self, peer, *unpacked)"""},
    {"name": "registration via __wrapped__", "file": "ipv8/attestation/identity/community.py", "rule": "no-bypass",
     "old": "self.add_message_handler(AttestPayload, self.on_attest)",
     "new": "self.add_message_handler(AttestPayload, self.on_attest.__wrapped__)"},
    {"name": "subclass overrides _verify_signature with a shortcut that skips the cryptography (seeded C01-m8)",
     "file": "ipv8/dht/discovery.py", "rule": "whole-prefix",
     "old": "    @lazy_wrapper_wd(PingRequestPayload)\n",
     "new": """    def _verify_signature(self, auth, data):
        if id(data) == getattr(self, "_checked_datagram", 0):
            signature_length = self.crypto.get_signature_length(self.crypto.key_from_public_bin(auth.public_key_bin))
            return True, data[2 + len(auth.public_key_bin):-signature_length]
        return super()._verify_signature(auth, data)

    @lazy_wrapper_wd(PingRequestPayload)
"""},
    {"name": "subclass override of _verify_signature that only delegates to the reviewed one", "kind": "repaired",
     "file": "ipv8/dht/discovery.py", "rule": "whole-prefix",
     "old": "    @lazy_wrapper_wd(PingRequestPayload)\n",
     "new": """    def _verify_signature(self, auth, data):
        return super()._verify_signature(auth, data)

    @lazy_wrapper_wd(PingRequestPayload)
"""},
    {"name": "subclass override of _verify_signature delegates with a truncated datagram", "file": "ipv8/dht/discovery.py",
     "rule": "whole-prefix",
     "old": "    @lazy_wrapper_wd(PingRequestPayload)\n",
     "new": """    def _verify_signature(self, auth, data):
        return super()._verify_signature(auth, data[:-1])

    @lazy_wrapper_wd(PingRequestPayload)
"""},
    {"name": "wrapper_wd delegates to lazy_wrapper through a decorated closure (same shape as lazy_wrapper_unsigned_wd)",
     "kind": "repaired", "file": _LC, "rule": "verify-before-call", "old": _WD_BODY,
     "new": """            @lazy_wrapper(*payloads)
            def inner_wrapper(inner_self, peer, *pyls):
                return func(inner_self, peer, *pyls, data)
            return inner_wrapper(self, source_address, data)
"""},
    {"name": "wrapper_wd delegates to the UNSIGNED decorator", "file": _LC, "rule": "verify-before-call", "old": _WD_BODY,
     "new": """            @lazy_wrapper_unsigned(*payloads)
            def inner_wrapper(inner_self, peer, *pyls):
                return func(inner_self, peer, *pyls, data)
            return inner_wrapper(self, source_address, data)
"""},
    {"name": "wrapper_wd delegation verifies other bytes than the received datagram", "file": _LC, "rule": "verify-before-call",
     "old": _WD_BODY,
     "new": """            @lazy_wrapper(*payloads)
            def inner_wrapper(inner_self, peer, *pyls):
                return func(inner_self, peer, *pyls, data)
            return inner_wrapper(self, source_address, data[:-1])
"""},
    {"name": "wrapper_wd delegation replaces the verified peer", "file": _LC, "rule": "peer-from-auth-key", "old": _WD_BODY,
     "new": """            @lazy_wrapper(*payloads)
            def inner_wrapper(inner_self, peer, *pyls):
                return func(inner_self, self.network.get_verified_by_address(source_address), *pyls, data)
            return inner_wrapper(self, source_address, data)
"""},
    {"name": "wrapper_wd through overlay methods that verify and resolve the sender", "kind": "repaired", "file": _LC,
     "rule": "verify-before-call",
     "edits": [{"file": _LC, "old": "    def _ez_unpack_auth(self,\n", "new": _UNPACK_METHODS},
               {"file": _LC, "old": _WD_BODY, "new": _WD_VIA_METHODS}]},
    {"name": "wrapper_wd through an overlay method that logs instead of raising", "file": _LC, "rule": "verify-before-call",
     "edits": [{"file": _LC, "old": "    def _ez_unpack_auth(self,\n",
                "new": _UNPACK_METHODS.replace("            raise PacketDecodingError(msg)\n        return auth, unpacked",
                                               "            self.logger.warning(msg)\n        return auth, unpacked")},
               {"file": _LC, "old": _WD_BODY, "new": _WD_VIA_METHODS}]},
    {"name": "wrapper_wd through an overlay method that resolves the sender by address", "file": _LC, "rule": "peer-from-auth-key",
     "edits": [{"file": _LC, "old": "    def _ez_unpack_auth(self,\n",
                "new": _UNPACK_METHODS.replace("            return Peer(auth.public_key_bin, source_address)",
                                               "            return self.network.get_verified_by_address(source_address) "
                                               "or Peer(auth.public_key_bin, source_address)")},
               {"file": _LC, "old": _WD_BODY, "new": _WD_VIA_METHODS}]},
    {"name": "on_packet: decision helper (returns the message id or None) keeps the prefix comparison", "kind": "repaired",
     "file": "ipv8/community.py", "rule": "own-prefix-before-dispatch",
     "edits": [{"file": "ipv8/community.py", "old": _ONP_GUARD, "new": _ONP_VIA_HELPER},
               {"file": "ipv8/community.py", "old": "    def walk_to(self, address: Address) -> None:",
                "new": _CLAIMED_HELPER + "    def walk_to(self, address: Address) -> None:"}]},
    {"name": "on_packet: decision helper forgets the prefix comparison", "file": "ipv8/community.py",
     "rule": "own-prefix-before-dispatch",
     "edits": [{"file": "ipv8/community.py", "old": _ONP_GUARD, "new": _ONP_VIA_HELPER},
               {"file": "ipv8/community.py", "old": "    def walk_to(self, address: Address) -> None:",
                "new": _CLAIMED_HELPER.replace("        if data[:22] != self._prefix:\n            return None\n", "")
                + "    def walk_to(self, address: Address) -> None:"}]},
    {"name": "on_packet: tag computed under the prefix comparison but overwritten before dispatch", "file": "ipv8/community.py",
     "rule": "own-prefix-before-dispatch", "old": _ONP_GUARD,
     "new": """        if len(data) >= 23 and self._prefix == data[:22]:
            msg_id = data[22]
        else:
            msg_id = None
        if msg_id is None and warn_unknown:
            return
        if msg_id is None:
            msg_id = data[22]
"""},
    {"name": "_verify_signature returns (remainder, verdict), remainder cut from the signed part, callers adapted",
     "kind": "repaired", "file": _LC, "rule": "whole-prefix",
     "edits": [{"file": _LC, "old": "        remainder = data[2 + len(auth.public_key_bin):-signature_length]\n"
                                    "        signature = data[-signature_length:]\n"
                                    "        return ec.is_valid_signature(public_key, data[:-signature_length], signature), remainder\n",
                "new": "        signed_part, signature = data[:-signature_length], data[-signature_length:]\n"
                       "        remainder = signed_part[2 + len(auth.public_key_bin):]\n"
                       "        return remainder, ec.is_valid_signature(public_key, signed_part, signature)\n"},
               {"file": _LC, "old": "        signature_valid, remainder = self._verify_signature(auth, data)\n"
                                    "        fmt: list[type[Serializable]]",
                "new": "        remainder, signature_valid = self._verify_signature(auth, data)\n        fmt: list[type[Serializable]]"},
               {"file": _LC, "old": "            signature_valid, remainder = self._verify_signature(auth, data)\n"
                                    "            unpacked = self.serializer.unpack_serializable_list(payloads, remainder, offset=23)\n"
                                    "            # ASSERT\n            if not signature_valid:\n                msg = (f",
                "new": "            remainder, signature_valid = self._verify_signature(auth, data)\n"
                       "            unpacked = self.serializer.unpack_serializable_list(payloads, remainder, offset=23)\n"
                       "            # ASSERT\n            if not signature_valid:\n                msg = (f"},
               {"file": _LC, "old": "            signature_valid, remainder = self._verify_signature(auth, data)\n"
                                    "            unpacked = self.serializer.unpack_serializable_list(payloads, remainder, offset=23)\n"
                                    "            # ASSERT\n            if not signature_valid:\n                payloads_list",
                "new": "            remainder, signature_valid = self._verify_signature(auth, data)\n"
                       "            unpacked = self.serializer.unpack_serializable_list(payloads, remainder, offset=23)\n"
                       "            # ASSERT\n            if not signature_valid:\n                payloads_list"}]},
    {"name": "_verify_signature returns (remainder, verdict) but one caller still reads the old order", "file": _LC,
     "rule": "verify-before-call",
     "edits": [{"file": _LC, "old": "        return ec.is_valid_signature(public_key, data[:-signature_length], signature), remainder\n",
                "new": "        return remainder, ec.is_valid_signature(public_key, data[:-signature_length], signature)\n"},
               {"file": _LC, "old": "        signature_valid, remainder = self._verify_signature(auth, data)\n"
                                    "        fmt: list[type[Serializable]]",
                "new": "        remainder, signature_valid = self._verify_signature(auth, data)\n        fmt: list[type[Serializable]]"},
               {"file": _LC, "old": "            signature_valid, remainder = self._verify_signature(auth, data)\n"
                                    "            unpacked = self.serializer.unpack_serializable_list(payloads, remainder, offset=23)\n"
                                    "            # ASSERT\n            if not signature_valid:\n                msg = (f",
                "new": "            remainder, signature_valid = self._verify_signature(auth, data)\n"
                       "            unpacked = self.serializer.unpack_serializable_list(payloads, remainder, offset=23)\n"
                       "            # ASSERT\n            if not signature_valid:\n                msg = (f"}]},
    {"name": "remainder cut from the signed part skips one byte too few", "file": _LC, "rule": "payload-from-signed-bytes",
     "old": "remainder = data[2 + len(auth.public_key_bin):-signature_length]",
     "new": "remainder = data[:-signature_length][1 + len(auth.public_key_bin):]"},
    {"name": "signing helper is handed only the payload body", "file": _LC, "rule": "sign-covers-all",
     "old": """        packet = prefix + bytes([msg_num]) + self.serializer.pack_serializable_list(payloads)
        if sig:
            packet += default_eccrypto.create_signature(cast("PrivateKey", self.my_peer.key), packet)
        return packet
""",
     "new": """        body = self.serializer.pack_serializable_list(payloads)
        packet = prefix + bytes([msg_num]) + body
        if sig:
            packet += self._signature_over(body, strict=True)
        return packet

    def _signature_over(self, blob: bytes, **options: bool) -> bytes:
        return default_eccrypto.create_signature(cast("PrivateKey", self.my_peer.key), blob)
"""},
    {"name": "decode_map looked up by a helper that is also reachable from elsewhere", "file": "ipv8/community.py",
     "rule": "no-bypass",
     "edits": [{"file": "ipv8/community.py", "old": "        handler = self.decode_map[msg_id]\n",
                "new": "        handler = self._handler_for(msg_id, strict=True)\n"},
               {"file": "ipv8/community.py", "old": "    def walk_to(self, address: Address) -> None:",
                "new": """    def _handler_for(self, msg_id: int, **options: bool):
        return self.decode_map[msg_id]

    def walk_to(self, address: Address) -> None:
        self._handler_for(245)(address, b"")"""}]},
]
WITNESSES += _ROUND4_WITNESSES

_PEER_PARSE = "            self.key: Key = default_eccrypto.key_from_public_bin(key)\n"
_PEER_TABLE = {"file": _PEER_FILE, "old": "class DirtyDict(dict):", "new": "_PARSED_KEYS: dict = {}\n\n\nclass DirtyDict(dict):"}
_EZ_PACK_OLD = """        packet = prefix + bytes([msg_num]) + self.serializer.pack_serializable_list(payloads)
        if sig:
            packet += default_eccrypto.create_signature(cast("PrivateKey", self.my_peer.key), packet)
        return packet
"""
_ROUND5_WITNESSES = [
    {"name": "Peer.__init__ interns parsed keys in a table indexed by the last 64 bytes of the key bin (seeded C01-m16)",
     "file": _PEER_FILE, "rule": "peer-identity-is-parsed-key",
     "edits": [_PEER_TABLE,
               {"file": _PEER_FILE, "old": _PEER_PARSE,
                "new": "            material = key[-64:]\n"
                       "            if material not in _PARSED_KEYS:\n"
                       "                _PARSED_KEYS[material] = default_eccrypto.key_from_public_bin(key)\n"
                       "            self.key: Key = _PARSED_KEYS[material]\n"}]},
    {"name": "Peer.__init__ parses only the last 74 bytes of the key bin", "file": _PEER_FILE,
     "rule": "peer-identity-is-parsed-key", "old": _PEER_PARSE,
     "new": "            self.key: Key = default_eccrypto.key_from_public_bin(key[-74:])\n"},
    {"name": "Peer.__init__ interns parsed keys in a table indexed by the whole key bin", "kind": "repaired",
     "file": _PEER_FILE, "rule": "peer-identity-is-parsed-key",
     "edits": [_PEER_TABLE,
               {"file": _PEER_FILE, "old": _PEER_PARSE,
                "new": "            if key not in _PARSED_KEYS:\n"
                       "                _PARSED_KEYS[key] = default_eccrypto.key_from_public_bin(key)\n"
                       "            self.key: Key = _PARSED_KEYS[key]\n"}]},
    {"name": "Peer.__init__ parses through an lru_cache'd module helper", "kind": "repaired",
     "file": _PEER_FILE, "rule": "peer-identity-is-parsed-key",
     "edits": [{"file": _PEER_FILE, "old": "class DirtyDict(dict):",
                "new": "from functools import lru_cache\n\n\n@lru_cache(maxsize=4096)\ndef _parse_public(key_bin: bytes) -> Key:\n"
                       "    return default_eccrypto.key_from_public_bin(key_bin)\n\n\nclass DirtyDict(dict):"},
               {"file": _PEER_FILE, "old": _PEER_PARSE, "new": "            self.key: Key = _parse_public(key)\n"}]},
    {"name": "_ez_pack collects the parts in a list: signature computed before the payloads are appended",
     "file": _LC, "rule": "sign-covers-all", "old": _EZ_PACK_OLD,
     "new": """        parts = [prefix, bytes([msg_num])]
        signature = default_eccrypto.create_signature(cast("PrivateKey", self.my_peer.key), b"".join(parts))
        parts.append(self.serializer.pack_serializable_list(payloads))
        if sig:
            parts.append(signature)
        return b"".join(parts)
"""},
    {"name": "_ez_pack collects the parts in a list, signs the joined list and appends the signature to it",
     "kind": "repaired", "file": _LC, "rule": "sign-covers-all", "old": _EZ_PACK_OLD,
     "new": """        parts = [prefix, bytes([msg_num])]
        parts.append(self.serializer.pack_serializable_list(payloads))
        if sig:
            parts += [default_eccrypto.create_signature(cast("PrivateKey", self.my_peer.key), b"".join(parts))]
        return b"".join(parts)
"""},
    {"name": "_verify_signature slices a memoryview of the datagram: the signed region skips the first byte",
     "file": _LC, "rule": "whole-prefix",
     "old": "        return ec.is_valid_signature(public_key, data[:-signature_length], signature), remainder\n",
     "new": "        view = memoryview(data)\n"
            "        return ec.is_valid_signature(public_key, bytes(view[1:-signature_length]), signature), remainder\n"},
    {"name": "_verify_signature slices a memoryview of the datagram (same regions)", "kind": "repaired",
     "file": _LC, "rule": "whole-prefix",
     "old": "        return ec.is_valid_signature(public_key, data[:-signature_length], signature), remainder\n",
     "new": "        view = memoryview(data)\n"
            "        return ec.is_valid_signature(public_key, bytes(view[:-signature_length]), signature), remainder\n"},
    {"name": "_ez_pack fills a bytearray: signature computed before the payloads are added",
     "file": _LC, "rule": "sign-covers-all", "old": _EZ_PACK_OLD,
     "new": """        packet = bytearray(prefix)
        packet.append(msg_num)
        signature = default_eccrypto.create_signature(cast("PrivateKey", self.my_peer.key), bytes(packet))
        packet += self.serializer.pack_serializable_list(payloads)
        if sig:
            packet.extend(signature)
        return bytes(packet)
"""},
    {"name": "_ez_pack fills a bytearray, signs its content and appends the signature", "kind": "repaired",
     "file": _LC, "rule": "sign-covers-all", "old": _EZ_PACK_OLD,
     "new": """        packet = bytearray(prefix)
        packet.append(msg_num)
        packet += self.serializer.pack_serializable_list(payloads)
        if sig:
            packet += default_eccrypto.create_signature(cast("PrivateKey", self.my_peer.key), bytes(packet))
        return bytes(packet)
"""},
]
WITNESSES += _ROUND5_WITNESSES

# round 5b: a phase helper that hands the VERDICT back to the wrapper (not inlined: it lives in another module), and a
# packet assembled in a tuple that is re-bound instead of grown
_W5_CALL = """            auth, signature_valid, unpacked = _parse_signed(self, payloads, data)
            if not signature_valid:
                raise PacketDecodingError("invalid signature")
            # PRODUCE
"""
_W5_CALL_IGNORED = """            auth, _signature_valid, unpacked = _parse_signed(self, payloads, data)
            # PRODUCE
"""
_W5_CALL_LATE = """            auth, signature_valid, unpacked = _parse_signed(self, payloads, data)
            peer = self.network.verified_by_public_key_bin.get(auth.public_key_bin)
            if peer:
                peer.add_address(source_address)
            if not signature_valid:
                raise PacketDecodingError("invalid signature")
            # PRODUCE
"""
_W5_OLD = _W_BLOCK[:_W_BLOCK.index("            # PRODUCE\n") + len("            # PRODUCE\n")]
_W5_HELPER = """def _parse_signed(overlay, payloads, data: bytes):
    from .messaging.payload_headers import BinMemberAuthenticationPayload
    auth, _ = overlay.serializer.unpack_serializable(BinMemberAuthenticationPayload, data, offset=23)
    signature_valid, remainder = overlay._verify_signature(auth, data)
    if not signature_valid:
        return auth, %s, []
    return auth, True, overlay.serializer.unpack_serializable_list(payloads, remainder, offset=23)


def strip_sha1_padding("""
_W5_IMPORT = {"file": _LC, "old": "from .peer import Peer\n", "new": "from .peer import Peer\nfrom .util import _parse_signed\n"}
_PACK5 = """        parts = (prefix, bytes([msg_num]), self.serializer.pack_serializable_list(payloads))
        if sig:
            signature = default_eccrypto.create_signature(cast("PrivateKey", self.my_peer.key), b"".join(%s))
            parts = (%s)
        return b"".join(parts)
"""
_ROUND5B_WITNESSES = [
    {"name": "round 5b: phase helper of another module hands back (auth, verdict, payloads); the wrapper tests the verdict",
     "kind": "repaired", "file": _LC, "rule": "verify-before-call",
     "edits": [{"file": _LC, "old": _W5_OLD, "new": _W5_CALL}, _W5_IMPORT,
               {"file": _UTIL, "old": "def strip_sha1_padding(", "new": _W5_HELPER % "False"}]},
    {"name": "round 5b: phase helper hands back the verdict, the wrapper ignores it",
     "file": _LC, "rule": "verify-before-call",
     "edits": [{"file": _LC, "old": _W5_OLD, "new": _W5_CALL_IGNORED}, _W5_IMPORT,
               {"file": _UTIL, "old": "def strip_sha1_padding(", "new": _W5_HELPER % "False"}]},
    {"name": "round 5b: phase helper hands back a true verdict on its `invalid` path",
     "file": _LC, "rule": "verify-before-call",
     "edits": [{"file": _LC, "old": _W5_OLD, "new": _W5_CALL}, _W5_IMPORT,
               {"file": _UTIL, "old": "def strip_sha1_padding(", "new": _W5_HELPER % "True"}]},
    {"name": "round 5b: phase helper hands back the verdict, the wrapper re-homes the peer before it tests the verdict",
     "file": _LC, "rule": "effect-after-verdict",
     "edits": [{"file": _LC, "old": _W5_OLD + _W_PRODUCE,
                "new": _W5_CALL_LATE + "            return func(self, peer or Peer(auth.public_key_bin, source_address), *unpacked)\n"},
               _W5_IMPORT, {"file": _UTIL, "old": "def strip_sha1_padding(", "new": _W5_HELPER % "False"}]},
    {"name": "round 5b: _ez_pack assembles the packet in a re-bound tuple and signs the join of all parts",
     "kind": "repaired", "file": _LC, "rule": "sign-covers-all", "old": _EZ_PACK_OLD, "new": _PACK5 % ("parts", "*parts, signature")},
    {"name": "round 5b: _ez_pack assembles the packet in a re-bound tuple and signs it without the prefix",
     "file": _LC, "rule": "sign-covers-all", "old": _EZ_PACK_OLD, "new": _PACK5 % ("parts[1:]", "*parts, signature")},
    {"name": "round 5b: _ez_pack assembles the packet in a re-bound tuple, the signature replaces the prefix",
     "file": _LC, "rule": "sign-covers-all", "old": _EZ_PACK_OLD, "new": _PACK5 % ("parts", "*parts[1:], signature")},
]
WITNESSES += _ROUND5B_WITNESSES

# ---- round 6: peer-from-auth-key for the handlers that decode with _ez_unpack_auth themselves (manual handlers)
_DC = "ipv8/peerdiscovery/community.py"
_ROUND6_WITNESSES = [
    {"name": "round 6: manual handler registers whoever is verified at the source address instead of the signer (C01-m17)",
     "file": _DC, "rule": "peer-from-auth-key",
     "old": "        peer = Peer(auth.public_key_bin, source_address)\n        self.network.add_verified_peer(peer)\n",
     "new": "        peer = self.network.get_verified_by_address(source_address) or Peer(auth.public_key_bin, source_address)\n"
            "        self.network.add_verified_peer(peer)\n"},
]
WITNESSES += _ROUND6_WITNESSES
