"""C01 - Signed handlers run only for authentic, untampered datagrams."""
from __future__ import annotations

import ast
import json
import os

from ..core import Ctx
from ..match import arg, call_name, calls, facts_at, has_fact, local_defs, mentions, resolve, same_expr, single_def
from ..model import AnalysisError, ClassInfo, FuncInfo, chain, norm, strip_cast, walk_no_nested

LEVEL = "other"
EXPLANATION = (
    "Static rules over every site: (a) in both authenticating decorators and _ez_unpack_auth the call of the user "
    "handler / the return is dominated by a truthy signature check whose inputs are def-use linked to the datagram "
    "parameter and to the key unpacked from that datagram; (b) _verify_signature verifies data[:-L] with data[-L:] and "
    "the key carried in the datagram, L derived from that key; (c) the Peer handed on is built from that key only; "
    "(d) sign side covers the whole packet; (e) every handler registered by every overlay class (and every override in "
    "a subclass) keeps the authentication class frozen from the reviewed tree; (f) decode_map is dispatched only by "
    "Community.on_packet and __wrapped__ is never used; (g) Community.on_packet calls a decode_map handler only after "
    "comparing the first 22 bytes of the very datagram it hands on with the overlay's own prefix (a signature covers the "
    "prefix, which binds a message to one overlay only if the receiver checks it). A signature / prefix check spelled as "
    "an `assert` does not count (compiled away under -O). Expressions are compared after substituting single-assignment "
    "locals, values that travel through locals are followed by reaching definitions on the CFG. "
    "Decides the dataflow/dominance facts, not the cryptography."
)

TABLE = os.path.join(os.path.dirname(os.path.dirname(__file__)), "tables", "c01_handlers.json")
LC = "ipv8/lazy_community.py"
AUTH_DECOS = {"lazy_wrapper", "lazy_wrapper_wd"}
UNSIGNED_DECOS = {"lazy_wrapper_unsigned", "lazy_wrapper_unsigned_wd"}


def _is_param_unmodified(fi: FuncInfo, name: str) -> bool:
    return name in fi.params() and not local_defs(fi, name)


# ------------------------------------------------------------------------------------------ def-use helpers
_OWN_SCOPE = (ast.Lambda, ast.ListComp, ast.SetComp, ast.DictComp, ast.GeneratorExp)


def _expand(fi: FuncInfo, e: ast.AST | None, depth: int = 6) -> ast.AST | None:
    """
    Copy of `e` in which every local that is assigned exactly once (plain `x = <expr>`, not a parameter) is replaced
    by its defining expression, recursively, and `cast(T, v)` is replaced by v.  A single-assignment local has the
    value of its defining expression wherever it is readable, so two expressions with the same expansion denote the
    same value as long as the expansions are built from the same parameters / attributes (what the rules compare).
    The original tree is never modified (unchanged sub-trees are shared, rebuilt nodes carry no parent link).
    """
    if e is None:
        return None
    e = strip_cast(e)
    if isinstance(e, ast.Name):
        if isinstance(e.ctx, ast.Load) and depth > 0:
            d = single_def(fi, e.id)
            if d is not None and d[1] is None:
                return _expand(fi, d[0], depth - 1)
        return e
    if isinstance(e, _OWN_SCOPE) or not e._fields:
        return e
    new = type(e)()
    for f in e._fields:
        v = getattr(e, f, None)
        if isinstance(v, list):
            v = [_expand(fi, x, depth) if isinstance(x, ast.AST) else x for x in v]
        elif isinstance(v, ast.AST):
            v = _expand(fi, v, depth)
        setattr(new, f, v)
    return ast.copy_location(new, e)


def _xnorm(fi: FuncInfo, e: ast.AST | None) -> str | None:
    return None if e is None else norm(_expand(fi, e))


def _alternatives(fi: FuncInfo, e: ast.AST, depth: int = 4) -> list[ast.AST]:
    """
    Every expression whose value `e` may take: `a or b` -> a, b; `a if c else b` -> a, b; a local -> the values of ALL
    its assignments (over-approximation of the reaching definitions).  Anything that cannot be followed is returned as is.
    """
    e = strip_cast(e)
    if depth <= 0:
        return [e]
    if isinstance(e, ast.BoolOp) and isinstance(e.op, ast.Or):
        return [x for v in e.values for x in _alternatives(fi, v, depth - 1)]
    if isinstance(e, ast.IfExp):
        return _alternatives(fi, e.body, depth - 1) + _alternatives(fi, e.orelse, depth - 1)
    if isinstance(e, ast.Name) and e.id not in fi.params():
        defs = local_defs(fi, e.id)
        if defs and all(v is not None and idx is None for _, v, idx in defs):
            return [x for _, v, _ in defs for x in _alternatives(fi, v, depth - 1)]
    return [e]


def _tuple_component(fi: FuncInfo, e: ast.AST, depth: int = 4) -> tuple[ast.AST | None, int | None]:
    """(producer expression, constant index) when `e` is component <index> of a single producer:
    `a, b = P` ... `a`  |  `r = P` ... `r[0]`  |  `a = P[0]` ... `a`  |  `P[0]`."""
    e = strip_cast(e)
    if isinstance(e, ast.Name) and depth > 0:
        d = single_def(fi, e.id)
        if d is None:
            return None, None
        val, idx = d
        if idx is not None:
            return resolve(fi, val), idx
        return _tuple_component(fi, val, depth - 1)
    if isinstance(e, ast.Subscript) and isinstance(e.slice, ast.Constant) and isinstance(e.slice.value, int):
        return resolve(fi, e.value), e.slice.value
    return None, None


def _def_nodes(cfg, fi: FuncInfo, name: str) -> dict:
    """CFG node -> assigned value (None when unknown: tuple component, loop target, augmented assignment, ...)."""
    out = {}
    for st, val, idx in local_defs(fi, name):
        nodes = cfg.nodes_for(st)
        if not nodes:
            raise AnalysisError(f"undecided: assignment of `{name}` in {fi.qualname} has no control-flow node")
        for n in nodes:
            out[n] = val if idx is None and not isinstance(st, ast.AugAssign) else None
    return out


_UNBOUND = "<no assignment since start>"
_UNKNOWN = "<unknown value>"


def _reaching(defs: dict, start) -> dict:
    """Reaching definitions of one local from `start`: node -> set of defining nodes (None: no assignment since start)
    whose value the local may hold on entry to the node.  An assignment that raises does not assign."""
    state = {start: {None}}
    todo = [start]
    while todo:
        u = todo.pop()
        cur = state[u]
        for v, lab in u.succ:
            out = cur if (lab == "exc" or u not in defs) else {u}
            s = state.setdefault(v, set())
            if not out <= s:
                s |= out
                todo.append(v)
    return state


def _values_at(cfg, fi: FuncInfo, node, e: ast.AST, start, depth: int = 4) -> list:
    """Expressions (or _UNBOUND / _UNKNOWN) whose value `e` can have when `node` is entered on a path from `start`."""
    e = strip_cast(e)
    if not isinstance(e, ast.Name) or e.id in fi.params() or not local_defs(fi, e.id):
        return [e]
    if depth <= 0:
        return [_UNKNOWN]
    defs = _def_nodes(cfg, fi, e.id)
    out = []
    for dn in _reaching(defs, start).get(node, set()):
        if dn is None:
            out.append(_UNBOUND)
        elif defs[dn] is None:
            out.append(_UNKNOWN)
        else:
            out.extend(_values_at(cfg, fi, dn, defs[dn], start, depth - 1))
    return out


def _in_assert(e: ast.AST) -> bool:
    from ..model import enclosing_stmt
    return isinstance(enclosing_stmt(e), ast.Assert)


def _verify_call_link(ctx: Ctx, fi: FuncInfo, name_expr: ast.AST, rule: str, site: ast.AST) -> tuple[ast.Call | None, int | None]:
    """`name_expr` must be component idx of a single self._verify_signature(auth, data) call (through local aliases)."""
    val, idx = _tuple_component(fi, name_expr)
    if isinstance(val, ast.Call) and chain(val.func) == "self._verify_signature":
        return val, idx
    return None, None


def _check_auth_unpack(ctx: Ctx, fi: FuncInfo, auth_expr: ast.AST, data_name: str, site: ast.AST, rule: str) -> bool:
    """auth must come from unpack_serializable(BinMemberAuthenticationPayload, <data param>, offset=23)[0]."""
    val, idx = _tuple_component(fi, auth_expr)
    if not (isinstance(val, ast.Call) and chain(val.func) == "self.serializer.unpack_serializable" and idx == 0):
        return False
    a0, a1, off = arg(val, 0), arg(val, 1, "data"), arg(val, 2, "offset")
    a0, a1, off = (None if a is None else resolve(fi, a) for a in (a0, a1, off))
    ok = (a0 is not None and chain(a0) == "BinMemberAuthenticationPayload"
          and isinstance(a1, ast.Name) and a1.id == data_name
          and isinstance(off, ast.Constant) and off.value == 23)
    if ok:
        r = ctx.repo.resolve_name(fi.module, "BinMemberAuthenticationPayload")
        ok = isinstance(r, ClassInfo) and r.module.relpath == "ipv8/messaging/payload_headers.py"
    return ok


_ASSERT_REASON = ("the only signature check on the way to the handler is an `assert` statement: it is compiled away under "
                  "python -O / PYTHONOPTIMIZE, after which the handler runs for forged and tampered datagrams")


def _dominating_verification(ctx: Ctx, fi: FuncInfo, facts, site: ast.AST) -> tuple[ast.Call | None, bool]:
    """(the _verify_signature call whose verdict [0] is known to be truthy at the site through a real branch,
    True when such a fact exists only through an assert statement)."""
    vcall, asserted = None, False
    for f in facts:
        if f.op == "truthy" and f.pos:
            vc, idx = _verify_call_link(ctx, fi, f.left, "verify-before-call", site)
            if vc is not None and idx == 0:
                if _in_assert(f.atom):
                    asserted = True
                else:
                    vcall = vc
    return vcall, asserted and vcall is None


def rule_wrappers(ctx: Ctx) -> None:
    repo = ctx.repo
    for deco in sorted(AUTH_DECOS):
        fi = repo.func(LC, f"{deco}.decorator.wrapper")
        cfg = ctx.cfg(fi)
        params = fi.params()
        if len(params) < 3:
            raise AnalysisError(f"anchor-lost: {deco} wrapper signature")
        addr_name, data_name = params[1], params[2]
        fcalls = ctx.anchor(calls(fi, "func"), f"call of wrapped func in {deco}")
        for call in fcalls:
            facts = facts_at(cfg, call)
            fstr = [str(f) for f in facts]
            # --- verify-before-call
            vcall, asserted = _dominating_verification(ctx, fi, facts, call)
            ctx.check(vcall is not None, "verify-before-call", fi, call,
                      f"{deco}: handler call dominated by truthy _verify_signature(...)[0] (a real branch, not an assert)",
                      _ASSERT_REASON if asserted else
                      "the wrapped handler can be reached without a successful signature verification", fstr)
            if vcall is not None:
                a_auth, a_data = arg(vcall, 0), arg(vcall, 1)
                ok_data = isinstance(a_data, ast.Name) and a_data.id == data_name and _is_param_unmodified(fi, data_name)
                ctx.check(ok_data, "verify-before-call", fi, vcall,
                          f"{deco}: verification is given the unmodified datagram parameter `{data_name}`",
                          "signature verification does not receive the complete, unmodified datagram")
                ok_auth = a_auth is not None and _check_auth_unpack(ctx, fi, a_auth, data_name, vcall, "verify-before-call")
                ctx.check(ok_auth, "verify-before-call", fi, vcall,
                          f"{deco}: key container is BinMemberAuthenticationPayload unpacked from the datagram at offset 23",
                          "the verification key is not the one carried in this datagram")
                # --- payloads come from the signed remainder
                _payload_source(ctx, fi, call, vcall, deco)
                # --- peer-from-auth-key
                _peer_arg(ctx, fi, call, a_auth, addr_name, deco)
            # the raise on invalid signature must really leave the function
        # every normal exit that returns a value passes through the func call or raises
    fi = repo.method("EZPackOverlay", "_ez_unpack_auth", LC)
    cfg = ctx.cfg(fi)
    data_name = fi.params()[2]
    rets = [n for n in walk_no_nested(fi.node) if isinstance(n, ast.Return) and n.value is not None]
    ctx.anchor(rets, "_ez_unpack_auth return")
    for r in rets:
        facts = facts_at(cfg, r)
        vcall, asserted = _dominating_verification(ctx, fi, facts, r)
        ctx.check(vcall is not None, "verify-before-call", fi, r,
                  "_ez_unpack_auth: return dominated by truthy signature check (a real branch, not an assert)",
                  _ASSERT_REASON if asserted else
                  "_ez_unpack_auth can return payloads without a successful signature verification",
                  [str(f) for f in facts])
        if vcall is not None:
            a_auth, a_data = arg(vcall, 0), arg(vcall, 1)
            ctx.check(isinstance(a_data, ast.Name) and a_data.id == data_name and _is_param_unmodified(fi, data_name),
                      "verify-before-call", fi, vcall, "_ez_unpack_auth: verification gets the unmodified datagram",
                      "signature verification does not receive the complete, unmodified datagram")
            ctx.check(a_auth is not None and _check_auth_unpack(ctx, fi, a_auth, data_name, vcall, ""),
                      "verify-before-call", fi, vcall, "_ez_unpack_auth: key container unpacked from the datagram at offset 23",
                      "the verification key is not the one carried in this datagram")
            # returned auth is the verified one
            rv = _expand(fi, r.value)
            first = rv.elts[0] if isinstance(rv, ast.Tuple) and rv.elts else None
            ctx.check(first is not None and a_auth is not None and same_expr(strip_cast(first), a_auth),
                      "peer-from-auth-key", fi, r, "_ez_unpack_auth returns the auth payload that was verified",
                      "the returned auth payload is not the one whose key verified the signature")
            _payload_source(ctx, fi, r, vcall, "_ez_unpack_auth")


def _payload_source(ctx: Ctx, fi: FuncInfo, site: ast.AST, vcall: ast.Call, label: str) -> None:
    """Every unpack_serializable_list whose result reaches the site decodes the `remainder` from _verify_signature."""
    ulist = calls(fi, "self.serializer.unpack_serializable_list")
    ctx.anchor(ulist, f"unpack_serializable_list in {label}")
    for u in ulist:
        src = arg(u, 1, "data")
        prod, idx = _tuple_component(fi, src) if src is not None else (None, None)
        ok = prod is vcall and idx == 1
        ctx.check(ok, "payload-from-signed-bytes", fi, u,
                  f"{label}: payloads are decoded from the remainder returned by _verify_signature",
                  "payloads handed to the handler are decoded from bytes other than the signed remainder")


def _peer_arg(ctx: Ctx, fi: FuncInfo, call: ast.Call, a_auth: ast.AST | None, addr_name: str, label: str) -> None:
    peer_arg = call.args[1] if len(call.args) >= 2 else None
    ok = False
    why = "the peer handed to the handler is not derived from the verified key"
    if peer_arg is not None and a_auth is not None and not isinstance(peer_arg, ast.Starred):
        # every value the argument can take (`a or b`, conditional expression, a local assigned on several branches):
        # each must be the registry entry stored under the verified key or a fresh Peer built from the verified key
        want = norm(a_auth) + ".public_key_bin"
        registry = "self.network.verified_by_public_key_bin"
        good = []
        for alt in _alternatives(fi, peer_arg):
            e = _expand(fi, alt)
            if isinstance(e, ast.Call) and chain(e.func) == "Peer":
                k = arg(e, 0)
                good.append(k is not None and norm(k) == want
                            and isinstance(ctx.repo.resolve_name(fi.module, "Peer"), ClassInfo))
            elif isinstance(e, ast.Call) and chain(e.func) == registry + ".get":
                k = arg(e, 0)
                good.append(k is not None and norm(k) == want and len(e.args) == 1 and not e.keywords)
            elif isinstance(e, ast.Subscript) and chain(e.value) == registry and not isinstance(e.slice, ast.Slice):
                good.append(norm(e.slice) == want)      # registry[K]: the same entry that .get(K) returns
            else:
                good.append(False)
        ok = bool(good) and all(good)
    ctx.check(ok, "peer-from-auth-key", fi, call,
              f"{label}: peer argument is verified_by_public_key_bin.get(K) / [K] or Peer(K, addr) with K = auth.public_key_bin",
              why)


def rule_verify_signature(ctx: Ctx) -> None:
    fi = ctx.repo.method("EZPackOverlay", "_verify_signature", LC)
    params = fi.params()
    auth_name, data_name = params[1], params[2]
    rets = [n for n in walk_no_nested(fi.node) if isinstance(n, ast.Return)]
    ctx.anchor(rets, "_verify_signature return")
    ok_data = _is_param_unmodified(fi, data_name)
    ok_auth = _is_param_unmodified(fi, auth_name)
    carried = f"{auth_name}.public_key_bin"

    def is_data(e) -> bool:
        return isinstance(e, ast.Name) and e.id == data_name

    def none_or_zero(e) -> bool:
        return e is None or (isinstance(e, ast.Constant) and e.value == 0 and not isinstance(e.value, bool))

    for r in rets:
        # all comparisons below are made on fully expanded expressions (single-assignment locals substituted), so it
        # does not matter which sub-expressions were hoisted into locals or whether the result tuple went through one
        v = _expand(fi, r.value)
        first = v.elts[0] if isinstance(v, ast.Tuple) and len(v.elts) == 2 else None
        good = False
        key_txt = None
        reason = "return value is not (is_valid_signature(...), remainder)"

        def siglen_ok(e) -> bool:
            return (isinstance(e, ast.Call) and call_name(e) == "get_signature_length" and len(e.args) == 1
                    and not e.keywords and key_txt is not None and norm(e.args[0]) == key_txt)

        def neg_len(e) -> bool:
            return isinstance(e, ast.UnaryOp) and isinstance(e.op, ast.USub) and siglen_ok(e.operand)

        if isinstance(first, ast.Call) and call_name(first) == "is_valid_signature" and len(first.args) == 3 \
                and not first.keywords:
            k, d, s = first.args
            # key
            key_ok = (isinstance(k, ast.Call) and call_name(k) == "key_from_public_bin" and arg(k, 0) is not None
                      and norm(arg(k, 0)) == carried and ok_auth)
            if isinstance(k, ast.Call):
                key_txt = norm(k)
            # L
            d_ok = (isinstance(d, ast.Subscript) and is_data(d.value)
                    and isinstance(d.slice, ast.Slice) and none_or_zero(d.slice.lower) and d.slice.step is None
                    and d.slice.upper is not None and neg_len(d.slice.upper))
            s_ok = (isinstance(s, ast.Subscript) and is_data(s.value)
                    and isinstance(s.slice, ast.Slice) and s.slice.upper is None and s.slice.step is None
                    and s.slice.lower is not None and neg_len(s.slice.lower))
            good = key_ok and d_ok and s_ok and ok_data
            reason = ("is_valid_signature must be given (key_from_public_bin(auth.public_key_bin), data[:-L], data[-L:]) "
                      f"with L = get_signature_length(that key): key_ok={key_ok} signed_bytes_ok={d_ok} "
                      f"signature_slice_ok={s_ok} data_unmodified={ok_data}")
        ctx.check(good, "whole-prefix", fi, r, "_verify_signature verifies every byte before the signature with the carried key",
                  reason)
        # remainder: data[2+len(pk) : -L]
        second = v.elts[1] if isinstance(v, ast.Tuple) and len(v.elts) == 2 else None
        rem_ok = False
        if isinstance(second, ast.Subscript) and is_data(second.value) and isinstance(second.slice, ast.Slice) \
                and second.slice.upper is not None and second.slice.step is None:
            up = second.slice.upper
            lo = second.slice.lower
            # upper bound: -L with L the signature length (of the verification key when that one was recognised)
            up_ok = neg_len(up) if key_txt is not None else (
                isinstance(up, ast.UnaryOp) and isinstance(up.op, ast.USub) and isinstance(up.operand, ast.Call)
                and call_name(up.operand) == "get_signature_length")
            lo_ok = lo is not None and norm(lo) in (f"2 + len({carried})", f"len({carried}) + 2")
            rem_ok = up_ok and lo_ok and ok_data
        ctx.check(rem_ok, "payload-from-signed-bytes", fi, r,
                  "remainder = data[2+len(key) : -L] (inside the signed bytes; the auth header is skipped exactly)",
                  "the remainder handed on for payload decoding is not the signed region minus the auth header")


def _concat_parts_at(cfg, fi: FuncInfo, node, e: ast.AST, depth: int = 8) -> list[list[ast.AST]] | None:
    """
    The value of bytes expression `e` on entry to CFG node `node`, as a concatenation of leaf expressions: one list of
    parts per combination of reaching definitions (`x = a + b`, `x += c`, `x = x + c` are all followed).  None when a
    definition cannot be followed (loop-carried, tuple component, ...).
    """
    e = strip_cast(e)
    if depth <= 0:
        return None
    if isinstance(e, ast.BinOp) and isinstance(e.op, ast.Add):
        left, right = _concat_parts_at(cfg, fi, node, e.left, depth - 1), _concat_parts_at(cfg, fi, node, e.right, depth - 1)
        if left is None or right is None:
            return None
        return [a + b for a in left for b in right]
    if isinstance(e, ast.Name) and e.id not in fi.params() and local_defs(fi, e.id):
        defs = {}
        for st, val, idx in local_defs(fi, e.id):
            for n in cfg.nodes_for(st):
                defs[n] = (st, val, idx)
        out: list[list[ast.AST]] = []
        for dn in _reaching(defs, cfg.entry).get(node, set()):
            if dn is None:
                continue                      # unassigned on this path: the read raises, nothing is signed / sent
            st, val, idx = defs[dn]
            if isinstance(st, ast.AugAssign) and isinstance(st.op, ast.Add) and isinstance(st.target, ast.Name):
                sub = _concat_parts_at(cfg, fi, dn, ast.BinOp(left=st.target, op=ast.Add(), right=st.value), depth - 1)
            elif val is not None and idx is None:
                sub = _concat_parts_at(cfg, fi, dn, val, depth - 1)
            else:
                sub = None
            if sub is None:
                return None
            out.extend(sub)
        return out
    return [[e]]


def rule_sign_side(ctx: Ctx) -> None:
    repo = ctx.repo
    from ..model import enclosing_stmt, parent
    sites = []
    for fi in repo.all_functions():
        for c in calls(fi, "create_signature"):
            if fi.cls is not None and fi.cls.name == "ECCrypto":
                continue
            if fi.cls is not None and (fi.cls.is_subclass_of("Overlay")):
                sites.append((fi, c))
    ctx.floor("sign-covers-all", len(sites), 2)
    for fi, c in sites:
        cfg = ctx.cfg(fi)
        st = enclosing_stmt(c)
        signed = arg(c, 1)
        nodes = cfg.nodes_for(c)
        ok = False
        reason = "signature is not appended to the very buffer that was signed"

        def texts(alts):
            return None if alts is None else sorted({tuple(_xnorm(fi, p) for p in parts) for parts in alts})

        signed_alts = None
        if signed is not None and nodes:
            per = [_concat_parts_at(cfg, fi, n, signed) for n in nodes]
            signed_alts = None if any(p is None for p in per) else [a for p in per for a in p]
        # where the signature is appended: `B += sig`, `... = B + sig` / `return B + sig`, sig being the call itself or
        # the single-assignment local that holds it
        sig_exprs = [c] + [n for n in walk_no_nested(fi.node) if isinstance(n, ast.Name) and isinstance(n.ctx, ast.Load)
                           and resolve(fi, n) is c]
        appended_to = []            # (cfg nodes of the appending statement, buffer expression)
        for s in sig_exprs:
            p = parent(s)
            while isinstance(p, ast.Call) and strip_cast(p) is s:      # cast(...) around it
                s, p = p, parent(p)
            if isinstance(p, ast.AugAssign) and isinstance(p.op, ast.Add) and p.value is s and isinstance(p.target, ast.Name):
                appended_to.append((cfg.nodes_for(p), p.target))
            elif isinstance(p, ast.BinOp) and isinstance(p.op, ast.Add) and p.right is s:
                appended_to.append((cfg.nodes_for(p), p.left))
        if signed_alts and appended_to:
            same = True
            for ns, buf in appended_to:
                per = [_concat_parts_at(cfg, fi, n, buf) for n in ns]
                got = None if (not per or any(p is None for p in per)) else [a for p in per for a in p]
                same = same and got is not None and texts(got) == texts(signed_alts)
            # every possible content of the signed buffer: overlay prefix first, then the message id byte, and the payloads
            def is_prefix(p) -> bool:
                return _xnorm(fi, p) in ("prefix", "self._prefix")

            def is_msg(p) -> bool:
                x = _expand(fi, p)
                return isinstance(x, ast.Call) and chain(x.func) == "bytes"

            starts_with_prefix = all(parts and is_prefix(parts[0]) for parts in signed_alts)
            has_msg = all(len(parts) > 1 and is_msg(parts[1]) for parts in signed_alts)
            packs = all(any(mentions(_expand(fi, p), "pack_serializable_list") for p in parts[2:]) for parts in signed_alts)
            ok = same and starts_with_prefix and has_msg and packs
            reason = (f"signed buffer must be prefix + bytes([msg_id]) + packed payloads and the signature must be appended to "
                      f"exactly that buffer: appended_to_signed={same} prefix_first={starts_with_prefix} msg_id={has_msg} "
                      f"payloads={packs}")
        elif signed is not None and nodes and signed_alts is None:
            raise AnalysisError(f"undecided: cannot follow how the signed buffer `{norm(signed)}` is built in {fi.qualname}")
        ctx.check(ok, "sign-covers-all", fi, st, "signature computed over prefix+msg_id+payloads and appended to it", reason)


def rule_is_valid_signature(ctx: Ctx) -> None:
    fi = ctx.repo.method("ECCrypto", "is_valid_signature", "ipv8/keyvault/crypto.py")
    cfg = ctx.cfg(fi)
    params = fi.params()
    key, data, sig = params[1], params[2], params[3]
    vcalls = [c for c in calls(fi) if call_name(c) == "verify"]
    ctx.anchor(vcalls, "ec_key.verify call in ECCrypto.is_valid_signature")
    from ..model import enclosing_stmt
    ret_stmts = [n for n in walk_no_nested(fi.node) if isinstance(n, ast.Return)]
    ret_nodes = [n for r in ret_stmts for n in cfg.nodes_for(r)]

    def is_false(e) -> bool:
        return isinstance(e, ast.Constant) and e.value is False

    def returned_values(start) -> list[tuple[ast.Return, list]]:
        """for every return reachable from `start`: the expressions whose value it can hand back on a path from start
        (through locals: reaching definitions, so `v = verify(); ... return v` is the same as `return verify()`)"""
        seen = cfg.reach([start])
        out = []
        for r in ret_stmts:
            vals = []
            for n in cfg.nodes_for(r):
                if n in seen:
                    vals.extend([ast.Constant(value=None)] if r.value is None else _values_at(cfg, fi, n, r.value, start))
            if vals:
                out.append((r, vals))
        return out

    from_entry = returned_values(cfg.entry)
    for c in vcalls:
        st = enclosing_stmt(c)
        # --- an exception raised by verify() ends in `False`: every exceptional successor of the statement is a try
        #     dispatch that catches everything, and from each of its handlers the function can only return False
        exc_succ = [v for n in cfg.nodes_for(c) for v, lab in n.succ if lab == "exc"]
        ok_try = bool(exc_succ)
        for d in exc_succ:
            if d.kind != "dispatch" or not all(h.kind == "handler" for h, _ in d.succ):
                ok_try = False       # not inside a try, or no handler for Exception / everything
                continue
            for h, _ in d.succ:
                for r, vals in returned_values(h):
                    if not all(v is not _UNBOUND and v is not _UNKNOWN and is_false(v) for v in vals):
                        ok_try = False
                if cfg.exit in cfg.reach([h], cut_nodes=ret_nodes):
                    ok_try = False   # falls off the end without a return
        ctx.check(ok_try, "exception-safe-validate", fi, st, "verify() wrapped in try/except Exception that yields False",
                  "an exception in verify() is not turned into `False`")
        ok_ret = any(any(v is c for v in vals) for _, vals in from_entry)
        ctx.check(ok_ret, "exception-safe-validate", fi, st, "is_valid_signature returns verify()'s own result",
                  "the result of verify() is not what is_valid_signature returns")
        ok_args = (chain(_expand(fi, c.func)) == f"{key}.verify" and len(c.args) == 2 and not c.keywords
                   and _xnorm(fi, c.args[0]) == sig and _xnorm(fi, c.args[1]) == data
                   and not local_defs(fi, key) and not local_defs(fi, data) and not local_defs(fi, sig))
        ctx.check(ok_args, "exception-safe-validate", fi, c, "verify(signature, data) on the given key with unmodified arguments",
                  "verify() is not called as key.verify(signature, data) with the function's own arguments")
    # every value that can be returned is that call's result, or False (an unassigned local raises: nothing is returned)
    for r, vals in from_entry:
        good = all(v is _UNBOUND or (v is not _UNKNOWN and (any(v is c for c in vcalls) or is_false(v))) for v in vals)
        ctx.check(good, "exception-safe-validate", fi, r, "return is verify(...) or False",
                  "is_valid_signature can return something other than verify()'s verdict or False")


# ------------------------------------------------------------------------------------------ handler table
def _transparent_decorator(deco: FuncInfo) -> bool:
    """def deco(f): def wrapper(self, *args, **kwargs): ... return f(self, *args, **kwargs); return wrapper"""
    params = deco.params()
    if len(params) != 1:
        return False
    fname = params[0]
    inner = [n for n in walk_no_nested(deco.node) if isinstance(n, ast.FunctionDef) and n is not deco.node]
    if len(inner) != 1:
        return False
    w = inner[0]
    a = w.args
    if len(a.args) != 1 or a.vararg is None or a.kwarg is None or a.kwonlyargs or a.defaults:
        return False
    fcalls = [c for c in ast.walk(w) if isinstance(c, ast.Call) and chain(c.func) == fname]
    if len(fcalls) != 1:
        return False
    c = fcalls[0]
    shape = (len(c.args) == 2 and norm(c.args[0]) == a.args[0].arg and isinstance(c.args[1], ast.Starred)
             and norm(c.args[1].value) == a.vararg.arg and len(c.keywords) == 1 and c.keywords[0].arg is None
             and norm(c.keywords[0].value) == a.kwarg.arg)
    rets = [r for r in ast.walk(w) if isinstance(r, ast.Return)]
    return shape and len(rets) == 1 and rets[0].value is c


def classify_handler(ctx: Ctx, fi: FuncInfo) -> str:
    decos = list(fi.node.decorator_list)
    while decos:
        d = decos[0]
        name = chain(d.func) if isinstance(d, ast.Call) else chain(d)
        target = ctx.repo.resolve_name(fi.module, name) if name and "." not in name else None
        if isinstance(target, FuncInfo) and not isinstance(d, ast.Call) and _transparent_decorator(target):
            decos.pop(0)       # passes (self, *args, **kwargs) through unchanged: look at the next decorator
            continue
        if isinstance(target, FuncInfo):
            if target.module.relpath == LC and target.name in AUTH_DECOS:
                return "authenticated"
            if target.module.relpath == LC and target.name in UNSIGNED_DECOS:
                return "unsigned"
            if target.name == "unpack_cell":
                return "cell"
        return f"unknown-decorator:{name}"
    # manual: authenticated iff all effects are reached only after a completed _ez_unpack_auth
    cfg = ctx.cfg(fi)
    ucalls = calls(fi, "self._ez_unpack_auth")
    if not ucalls:
        return "raw"
    unodes = [n for c in ucalls for n in cfg.nodes_for(c)]
    effects = [c for c in calls(fi) if (chain(c.func) or "").startswith(("self.network.", "self.endpoint.", "Peer"))
               or chain(c.func) in ("self.ez_send", "self.create_introduction_response")]
    if not effects:
        return "raw"
    for e in effects:
        for n in cfg.nodes_for(e):
            if cfg.reachable(n) and not cfg.must_complete(n, unodes):
                return "raw"
    params = fi.params()
    for c in ucalls:
        a = arg(c, 1, "data")
        if not (isinstance(a, ast.Name) and a.id == params[2] and _is_param_unmodified(fi, params[2])):
            return "raw"
    # Peer(...) built from the auth returned by _ez_unpack_auth
    # (the key may travel through locals: every value it can take must be <auth>.public_key_bin of such an auth)
    for c in calls(fi, "Peer"):
        k = arg(c, 0)
        if k is None:
            return "raw"
        for kk in _alternatives(fi, k):
            base = kk.value if isinstance(kk, ast.Attribute) and kk.attr == "public_key_bin" else None
            if not isinstance(base, ast.Name):
                return "raw"
            defs = local_defs(fi, base.id)
            if not defs or not all(d[1] is not None and strip_cast(d[1]) in ucalls and d[2] == 0 for d in defs):
                return "raw"
    return "manual-authenticated"


def registrations(ctx: Ctx):
    """(registering class, kind, msg expr, handler name, call) for every add_message_handler / add_cell_handler."""
    out = []
    for ci in ctx.repo.all_classes():
        if not ci.is_subclass_of("Overlay") and ci.name != "Overlay":
            continue
        for fi in ci.methods.values():
            for c in calls(fi, ["self.add_message_handler", "self.add_cell_handler"]):
                kind = call_name(c)
                h = strip_cast(arg(c, 1, "callback") or arg(c, 1, "handler"))
                hn = h.attr if isinstance(h, ast.Attribute) and isinstance(h.value, ast.Name) and h.value.id == "self" else None
                out.append((ci, kind, arg(c, 0), hn, c, fi))
    return out


def rule_handler_table(ctx: Ctx) -> None:
    with open(TABLE, encoding="utf-8") as fh:
        table = json.load(fh)["handlers"]
    regs = registrations(ctx)
    ctx.floor("handler-auth", len(regs), 60)
    seen = {}
    for ci, kind, msg, hn, call, fi in regs:
        if hn is None:
            ctx.check(False, "handler-auth", fi, call, "registration names a bound method of self",
                      "handler is not a plain `self.<method>` (cannot be classified; a lambda or unwrapped function "
                      "would bypass the unpacking decorator)")
            continue
        for cls in [ci, *ci.all_subclasses()]:
            target = cls.lookup(hn)
            if target is None:
                continue
            key = f"{cls.name}.{hn}:{'socket' if kind == 'add_message_handler' else 'cell'}"
            klass = classify_handler(ctx, target)
            seen[key] = klass
            ref = table.get(key)
            if ref is None:
                ctx.note(f"new-handler {key} ({klass}) defined at {target.where}: no reference class, not judged")
                ctx.instance("handler-auth", target.where, f"{key} -> {klass} (new, not judged)", nontrivial=False)
                continue
            strength = {"authenticated": 2, "manual-authenticated": 2}
            ok = klass == ref or strength.get(klass, 0) >= strength.get(ref, 0) and ref not in ("cell",) or \
                (ref in ("unsigned", "raw") and klass in ("authenticated", "manual-authenticated"))
            if ref == "cell":
                ok = klass in ("cell", "authenticated", "manual-authenticated")
            ctx.check(ok, "handler-auth", target, target.node,
                      f"{key}: classified {klass}, reference {ref}",
                      f"handler {key} was {ref} on the reviewed tree and is now {klass} (authentication downgraded)")
    ctx.extra["handler_table_seen"] = seen
    missing = sorted(k for k in table if k not in seen)
    if missing:
        ctx.note("handlers in the reference table no longer registered: " + ", ".join(missing))
    n_auth = sum(1 for v in seen.values() if v in ("authenticated", "manual-authenticated"))
    ctx.floor("handler-auth.authenticated", n_auth, 25)


def rule_own_prefix(ctx: Ctx) -> None:
    """
    The signature covers the 22-byte overlay prefix, but that binds a signed message to ONE overlay only if the receiving
    overlay compares the prefix with its own before it dispatches: without the comparison a datagram that a victim
    signed for overlay A verifies just as well in overlay B (same bytes, same key) and B's authenticated handlers run
    - and create a verified-peer entry - for a message the key holder never addressed to B.  The endpoint's prefix map
    is not a substitute: on_packet is also called directly (broadcast bootstrapper, crypto endpoint, add_listener).
    Necessary condition decided here: in Community.on_packet every call of a handler taken from decode_map is
    dominated by `self._prefix == D[:22]` (or D.startswith(self._prefix)) for the very bytes D handed to the handler.
    """
    repo = ctx.repo
    fi = repo.method("Community", "on_packet", "ipv8/community.py")
    cfg = ctx.cfg(fi)
    hcalls = []
    for c in calls(fi):
        if any(mentions(a, "self.decode_map") for a in _alternatives(fi, c.func)):
            hcalls.append(c)
    ctx.anchor(hcalls, "call of a decode_map handler in Community.on_packet")

    def own_prefix(e) -> bool:
        return chain(_expand(fi, e)) == "self._prefix"

    def head_of(e) -> str | None:
        e = _expand(fi, e)
        if not (isinstance(e, ast.Subscript) and isinstance(e.slice, ast.Slice) and e.slice.step is None
                and isinstance(e.value, ast.Name)):
            return None
        lo, up = e.slice.lower, e.slice.upper
        if lo is not None and repo.resolve_const(fi.module, lo, fi.cls) != 0:
            return None
        if up is None or repo.resolve_const(fi.module, up, fi.cls) != 22:
            return None
        return e.value.id

    def compared_buffer(f) -> str | None:
        """name of the bytes local whose first 22 bytes the fact compares with self._prefix (either polarity)"""
        if f.op == "eq" and f.right is not None:
            if own_prefix(f.left):
                return head_of(f.right)
            if own_prefix(f.right):
                return head_of(f.left)
        if f.op == "truthy":
            c = _expand(fi, f.left)
            if isinstance(c, ast.Call) and isinstance(c.func, ast.Attribute) and c.func.attr == "startswith" \
                    and len(c.args) == 1 and not c.keywords and isinstance(c.func.value, ast.Name) and own_prefix(c.args[0]):
                return c.func.value.id
        return None

    for c in hcalls:
        facts = facts_at(cfg, c)
        real = [f for f in facts if not _in_assert(f.atom)]
        checked = {b for b in (compared_buffer(f) for f in real if f.pos) if b is not None}
        # the bytes handed to the handler: a plain local (bound once, e.g. unpacked from the packet tuple) among the arguments
        handed = {a.id for a in (_expand(fi, x) for x in c.args if not isinstance(x, ast.Starred))
                  if isinstance(a, ast.Name) and len(local_defs(fi, a.id)) <= 1}
        ok = bool(checked & handed)
        # a dominating test that relates self._prefix to the dispatched bytes in a spelling not understood here
        # cannot be judged either way
        def relates(f) -> bool:
            x = _expand(fi, f.atom)
            return (compared_buffer(f) is None and mentions(x, "self._prefix")
                    and bool({n.id for n in ast.walk(x) if isinstance(n, ast.Name)} & handed))
        if not ok and any(relates(f) for f in real):
            raise AnalysisError("undecided: Community.on_packet tests self._prefix before dispatch in a form this rule "
                                f"does not understand: {[str(f) for f in facts]}")
        ctx.check(ok, "own-prefix-before-dispatch", fi, c,
                  "Community.on_packet: handler call dominated by self._prefix == data[:22] on the bytes it is given",
                  "Community.on_packet dispatches to the (authenticated) handlers without comparing the datagram's "
                  "22-byte prefix with the overlay's own prefix: a datagram signed for another overlay is accepted here "
                  "(cross-overlay replay; the signer becomes a verified peer of an overlay it never addressed)",
                  [str(f) for f in facts])


def rule_no_bypass(ctx: Ctx) -> None:
    repo = ctx.repo
    # decode_map subscripts used for dispatch (Load context, result called) only in Community.on_packet
    n_reads = 0
    for m in repo.modules.values():
        for n in ast.walk(m.tree):
            if isinstance(n, ast.Attribute) and n.attr == "__wrapped__":
                fi = repo.function_of(n)
                ctx.check(False, "no-bypass", fi.where if fi else m.relpath, n, "no use of __wrapped__",
                          "`__wrapped__` reaches the undecorated handler and skips signature verification")
            if isinstance(n, ast.Subscript) and isinstance(n.ctx, ast.Load) and chain(n.value) and \
                    chain(n.value).endswith(".decode_map"):
                fi = repo.function_of(n)
                n_reads += 1
                where = fi.qualname if fi else "?"
                allowed = where in ("Community.on_packet", "Community.add_message_handler",
                                    "OverlaysEndpoint.statistics_by_name") or (fi is not None and fi.module.relpath.startswith("ipv8/REST/"))
                ctx.check(allowed, "no-bypass", fi or m.relpath, n, f"decode_map read in {where}",
                          "decode_map is read outside Community.on_packet/add_message_handler: handlers could be "
                          "invoked around the prefix check / exception containment")
    ctx.floor("no-bypass", n_reads, 3)
    # writes to decode_map only in add_message_handler (+ the initialisation)
    for m in repo.modules.values():
        for n in ast.walk(m.tree):
            if isinstance(n, (ast.Assign, ast.AnnAssign)):
                tgts = n.targets if isinstance(n, ast.Assign) else [n.target]
                for t in tgts:
                    c = chain(t)
                    if c and (c.endswith(".decode_map[]") or c.endswith(".decode_map")):
                        fi = repo.function_of(n)
                        where = fi.qualname if fi else "?"
                        ctx.check(where in ("Community.add_message_handler", "Community.__init__"), "no-bypass",
                                  fi or m.relpath, n, f"decode_map written in {where}",
                                  "decode_map is written outside add_message_handler: registration checks bypassed")
    # the authenticated decorators are defined once and not rebound
    for name in sorted(AUTH_DECOS):
        cands = [f for f in repo.all_functions() if f.name == name and f.cls is None and "." not in f.qualname]
        ctx.check(len(cands) == 1 and cands[0].module.relpath == LC, "no-bypass", LC, name,
                  f"single definition of {name}", f"{name} is defined {len(cands)} times (shadowing the verifying decorator)")


def run(ctx: Ctx) -> None:
    rule_wrappers(ctx)
    rule_verify_signature(ctx)
    rule_sign_side(ctx)
    rule_is_valid_signature(ctx)
    rule_handler_table(ctx)
    rule_own_prefix(ctx)
    rule_no_bypass(ctx)
    ctx.assume("signature primitive (libnacl / OpenSSL keys behind Key.verify) is unforgeable: trusted")
    ctx.assume("Serializer.unpack_serializable decodes BinMemberAuthenticationPayload as a 2-byte length + key (C02 covers the codec)")


_LC = "ipv8/lazy_community.py"
WITNESSES = [
    {"name": "wrapper: signature check removed", "file": _LC, "rule": "verify-before-call",
     "old": """            if not signature_valid:
                msg = (f"Incoming packet {[payload_class.__name__ for payload_class in payloads]!s}"
                       " has an invalid signature")
                raise PacketDecodingError(msg)
""", "new": ""},
    {"name": "wrapper_wd: raise replaced by log", "file": _LC, "rule": "verify-before-call",
     "old": """                msg = f"Incoming packet {payloads_list!s} has an invalid signature"
                raise PacketDecodingError(msg)""",
     "new": """                msg = f"Incoming packet {payloads_list!s} has an invalid signature"
                self.logger.warning(msg)"""},
    {"name": "ez_unpack_auth: check inverted", "file": _LC, "rule": "verify-before-call",
     "old": """        if not signature_valid:
            msg = f"Incoming packet {payload_class.__name__} has an invalid signature\"""",
     "new": """        if signature_valid is None:
            msg = f"Incoming packet {payload_class.__name__} has an invalid signature\""""},
    {"name": "verify only part of datagram", "file": _LC, "rule": "whole-prefix",
     "old": "return ec.is_valid_signature(public_key, data[:-signature_length], signature), remainder",
     "new": "return ec.is_valid_signature(public_key, data[23:-signature_length], signature), remainder"},
    {"name": "verify with own key instead of carried key", "file": _LC, "rule": "whole-prefix",
     "old": "public_key = ec.key_from_public_bin(auth.public_key_bin)",
     "new": "public_key = self.my_peer.public_key"},
    {"name": "constant signature length", "file": _LC, "rule": "whole-prefix",
     "old": "signature = data[-signature_length:]", "new": "signature = data[-64:]"},
    {"name": "peer from address lookup instead of key", "file": _LC, "rule": "peer-from-auth-key",
     "old": """            peer = self.network.verified_by_public_key_bin.get(auth.public_key_bin)
            if peer:
                peer.add_address(source_address)
            return func(self, peer or Peer(auth.public_key_bin, source_address), *unpacked)""",
     "new": """            peer = self.network.get_verified_by_address(source_address)
            if peer:
                peer.add_address(source_address)
            return func(self, peer or Peer(auth.public_key_bin, source_address), *unpacked)"""},
    {"name": "payloads decoded from raw data not remainder", "file": _LC, "rule": "payload-from-signed-bytes",
     "old": """            unpacked = self.serializer.unpack_serializable_list(payloads, remainder, offset=23)
            # ASSERT
            if not signature_valid:
                payloads_list""",
     "new": """            unpacked = self.serializer.unpack_serializable_list(payloads, data, offset=23 + 2 + len(auth.public_key_bin))
            # ASSERT
            if not signature_valid:
                payloads_list"""},
    {"name": "sign before payloads appended", "file": _LC, "rule": "sign-covers-all",
     "old": """        packet = prefix + bytes([msg_num]) + self.serializer.pack_serializable_list(payloads)
        if sig:
            packet += default_eccrypto.create_signature(cast("PrivateKey", self.my_peer.key), packet)""",
     "new": """        body = self.serializer.pack_serializable_list(payloads)
        packet = prefix + bytes([msg_num]) + body
        if sig:
            packet += default_eccrypto.create_signature(cast("PrivateKey", self.my_peer.key), body)"""},
    {"name": "is_valid_signature swallows into True", "file": "ipv8/keyvault/crypto.py", "rule": "exception-safe-validate",
     "old": """            return ec_key.verify(signature, data)
        except Exception:
            return False""",
     "new": """            ec_key.verify(signature, data)
        except Exception:
            return False
        return True"""},
    {"name": "handler downgraded to unsigned", "file": "ipv8/dht/community.py", "rule": "handler-auth",
     "edits": [
         {"file": "ipv8/dht/community.py", "old": "    @lazy_wrapper(StoreRequestPayload)\n",
          "new": "    @lazy_wrapper_unsigned(StoreRequestPayload)\n"},
         {"file": "ipv8/dht/community.py", "old": "from ..lazy_community import ",
          "new": "from ..lazy_community import lazy_wrapper_unsigned, "}]},
    {"name": "subclass override without decorator", "file": "ipv8/dht/discovery.py", "rule": "handler-auth",
     "old": """    @lazy_wrapper_wd(PingRequestPayload)
    def on_ping_request(self, peer: Peer, payload: PingRequestPayload, data: bytes) -> None:""",
     "new": """    def on_ping_request(self, peer: Peer, payload: PingRequestPayload, data: bytes = b"") -> None:"""},
    {"name": "manual handler skips auth on fallback", "file": "ipv8/peerdiscovery/community.py", "rule": "handler-auth",
     "old": """        except (PacketDecodingError, PackError):
            auth, _, payload = self._ez_unpack_auth(IntroductionRequestPayload, data)""",
     "new": """        except (PacketDecodingError, PackError):
            auth, _ = self.serializer.unpack_serializable(BinMemberAuthenticationPayload, data, offset=23)
            _, payload = self._ez_unpack_noauth(IntroductionRequestPayload, data[2 + len(auth.public_key_bin):])"""},
    {"name": "wrapper_wd: signature check turned into an assert (gone under python -O)", "file": _LC,
     "rule": "verify-before-call",
     "old": """            if not signature_valid:
                payloads_list = [payload_class.__name__ for payload_class in payloads]
                msg = f"Incoming packet {payloads_list!s} has an invalid signature"
                raise PacketDecodingError(msg)""",
     "new": """            assert signature_valid, "Incoming packet has an invalid signature\""""},
    {"name": "on_packet: own-prefix comparison dropped, length check kept", "file": "ipv8/community.py",
     "rule": "own-prefix-before-dispatch",
     "old": "if self._prefix != data[:22] or len(data) < 23:", "new": "if len(data) < 23:"},
    {"name": "on_packet: prefix compared on other bytes than the ones dispatched", "file": "ipv8/community.py",
     "rule": "own-prefix-before-dispatch",
     "old": "if self._prefix != data[:22] or len(data) < 23:",
     "new": "if self._prefix != self._prefix[:22] or len(data) < 23:"},
    {"name": "is_valid_signature: verdict local defaults to True on exception", "file": "ipv8/keyvault/crypto.py",
     "rule": "exception-safe-validate",
     "old": """            return ec_key.verify(signature, data)
        except Exception:
            return False""",
     "new": """            verdict = ec_key.verify(signature, data)
        except Exception:
            verdict = True
        return verdict"""},
    {"name": "wrapper: fresh Peer on the unknown-key branch built from another key", "file": _LC, "rule": "peer-from-auth-key",
     "old": """            peer = self.network.verified_by_public_key_bin.get(auth.public_key_bin)
            if peer:
                peer.add_address(source_address)
            return func(self, peer or Peer(auth.public_key_bin, source_address), *unpacked)""",
     "new": """            if auth.public_key_bin in self.network.verified_by_public_key_bin:
                peer = self.network.verified_by_public_key_bin[auth.public_key_bin]
                peer.add_address(source_address)
            else:
                peer = Peer(self.my_peer.public_key.key_to_bin(), source_address)
            return func(self, peer, *unpacked)"""},
    {"name": "registration via __wrapped__", "file": "ipv8/attestation/identity/community.py", "rule": "no-bypass",
     "old": "self.add_message_handler(AttestPayload, self.on_attest)",
     "new": "self.add_message_handler(AttestPayload, self.on_attest.__wrapped__)"},
]
